"""py2lean — a SOURCE TRANSLATOR from a small typed subset of Python to Lean 4 `do`-notation.

Purpose (TRANSLATOR.md): for selected small pure functions of /repo the Lean definition is regenerated from the CURRENT
SOURCE TEXT on every run (`Check.translations()` → lean/Verif/Generated/Trans<PID>.lean) and
lean/Verif/<PID>/Translated.lean proves the regenerated definition equal, for all inputs, to the hand-written model
function that the property theorems are about.  This file and lean/Verif/Common/PyRt.lean are TRUSTED: a construct is
either translated with exactly the meaning documented here or `Unsupported` is raised.  Never guess, never skip.

    translate_module(specs, namespace, imports=()) -> str          (text of a whole Lean file)
    Spec(fn, name, params=[(pyname, T), …], ret=T, fixed={pyname: constant})

Types (T): STR→List Char, INT→Int, BOOL→Bool, NONE→Unit, Opt(T)→Option T, Lst(T)→List T (Python list AND tuple used
as a sequence), Tup(T1,…)→T1 × …, Dict(K,V)→PyRt.Dict K V, Struct(lean_name, {attr: T}) → a Lean structure declared by
the caller (in a file named in `imports`) whose field names equal the Python attribute names.
`fixed` binds a parameter to a constant (None/bool/int/str): tests on it are decided at translation time and the dead
branch is NOT translated (e.g. the `fields=None` branch of tsdb.split); the theorem then speaks about that call shape.

ACCEPTED SUBSET
  statements   `x = e`, `x: T = e`, `a, b = e` (e a tuple), `x += e` (and - *), `if/elif/else`, `for x in e` /
               `for a, b in e` (no else-clause), `while c:` (no else-clause; FUEL, below), `break`, `continue`, `pass`,
               `return [e]`, `raise E` / `raise E(args)`, a docstring; in-place changes of a LOCAL or PARAMETER
               container NAME: `xs.append(e)`, `xs.extend(e)`, `xs[i] = e`, `s.add(e)`, `s.update(e)`, `d[k] = e`,
               `d.setdefault(k, e)` (as a statement), `x = xs.popleft()` / `xs.pop(0)` / `xs.pop()`; a call
               `f(…)` / `x = f(…)` of a translated function that mutates its arguments (OUT-PARAMETERS, below).
  expressions  str/int/bool/None constants, names (locals, parameters, module-level str/int/bool/None constants — read
               from the live module at translation time), list/tuple/set/dict displays, `+ - *` on int, `+` on str/list,
               `seq * int`, `//` and `%` on int, `| & -` on sets, unary `-`/`not`, `and`/`or` in tests or between
               bools (no raising operand after the first), comparisons `== != < <= > >=` (order: int, str by code
               point; `<= >=` on sets = subset; `==` on sets = same elements; `==` on anything containing a dict or a
               nested set is refused), `is None`, `is not None`, `in`/`not in` (list, set, str-in-str, dict),
               conditional expressions, `xs[i]`, `xs[a:b]`, `t[k]` (tuple, constant k), attribute of a Struct,
               list/set/dict comprehensions and generator arguments with ONE or TWO `for` clauses (pure `if` filters;
               two clauses: pure throughout), f-strings and `'…'.format(…)` with plain `{}` / `{name}` fields of str
               and int operands (no conversion, no format spec, no `{0}`),
               calls of: len str(str|int) tuple list map(f, xs) range enumerate(xs[, start]) zip sum min max abs bool
               int(int) set frozenset dict(pairs) sorted(xs) sorted(xs, key=f) (int/str elements resp. keys; stable)
               any all next(iter(xs)) deque(xs), `Cls(a, b, …)` for a NamedTuple declared as Struct with `pyclass`,
               str methods replace split(const non-empty sep) split() strip() lstrip() rstrip() (no argument: the
               whitespace set PyRt.pyWhitespaceCodes) rstrip/lstrip/strip(chars) join startswith endswith format,
               set methods union intersection difference issubset issuperset isdisjoint copy, dict.get,
               `d.items()/keys()/values()` where something is iterated, a method of a Struct translated earlier,
               array.array('i', xs), other functions of the SAME translate_module call listed EARLIER in `specs`, and the
               function itself (RECURSION, with fuel).
  refused      try, with, assert, del, global, lambda, nested def/class, yield, `%` formatting, format specs and
               conversions, float and `/`, `**`, bit operators on ints, star-args, chained assignment, comparison of
               lists by order, str.lower/upper (Unicode tables), sorted of tuples, mutual recursion, while/for-else,
               three-clause comprehensions, any call/attribute/method not listed, a name first bound inside a nested
               block and used after it, a loop variable used after its loop, assigning to a loop variable, and every
               use of a SET whose result could depend on its iteration order (below).

SEMANTIC RULES ADDED IN ROUND 2
  * SETS are duplicate-free lists in insertion order (PyRt.pySetAdd …); CPython iterates a set in an order this model
    does not know.  A set may therefore be iterated ONLY where the result is the same for every order: as the argument
    of set()/frozenset()/update/union/intersection/difference/issubset/…, of any()/all()/sum() over PURE elements,
    of sorted() WITHOUT key (distinct int/str elements have one sorted order), in a set comprehension, and in a `for`
    loop whose body consists only of `t.add(e)` / `t.update(e)` on sets, `pass`, `continue` and `if c:` over such
    statements, where no `c`/`e` reads a set the loop changes and none can raise (no indexing, arithmetic or calls
    other than len/str/tuple).  Everything else — list(s), tuple(s), ', '.join(s), next(iter(s)), s.pop(), a loop that
    appends, sorted(s, key=…), a raising element — is refused.  Elements/keys must be hashable scalars: str, int, bool,
    None, tuples/Optionals of those.  Results of type set are compared as sets.
  * DICTS are association lists in insertion order, which Python guarantees: `d[k] = v` keeps the position of an
    existing key (pyDictSet), dict(pairs)/displays/comprehensions insert left to right (pyDictOfList), items()/keys()/
    values() iterate in that order.  Building a dict from a set iteration is refused (order).
  * OUT-PARAMETERS: a list/set/dict PARAMETER changed in place (append, extend, item assignment, add, update,
    setdefault, pop, or handed on to a mutating callee) is returned: the Lean function returns `(result, p1', p2', …)`
    (only the new values when the Python result is None).  A caller in the same module must pass DISTINCT local
    container names for the mutated parameters, none of which occurs inside another container argument, and the call
    must be a statement `f(…)` or the whole right-hand side of `x = f(…)`; the locals are re-bound to the returned
    values.  A mutated parameter may not be returned, re-bound, or bound to another name.  ASSUMPTION for callers
    outside the module: the objects passed for mutated parameters are pairwise distinct and not reachable from the
    other arguments.
  * FRESHNESS (repairs a hole of round 1): a name that is mutated may only be bound to a NEW container (display,
    comprehension, `+`, slice, list()/set()/dict()/sorted()/copy(), a translated callee all of whose returns are new
    containers); `zs = xs; zs.append(1)` is refused.  A mutated local may be passed to a translated callee only at a
    mutated position or when the callee's result cannot alias it.
  * FUEL: a function that contains `while`, calls itself, or calls a function with fuel takes `fuel : Nat` FIRST and
    lives in `Except PyErr`.  `while c: body` = `for _ in List.replicate fuel () do (if !c then (done := true; break);
    body)` followed by `if !done then throw PyErr.fuel` (so `k` rounds need fuel ≥ k + 1; `break` in the body also
    sets `done`).  A recursive function is `match fuel with | 0 => throw PyErr.fuel | fuel + 1 => body`, the
    recursive calls (and the loops and fuel-taking callees of the body) get the predecessor.  `PyErr.fuel` is not a
    Python exception; more fuel never changes an answer other than `PyErr.fuel`.  Equivalence theorems are stated
    for fuel above a bound computed from the input.
  * FLOW NARROWING: `if x is None: <block that always leaves — return/raise/continue/break>` without `else`, on an
    Optional local/parameter that is not re-assigned: the rest of the enclosing block is translated in the `some`
    branch with `x` narrowed.  `x is None` on a name whose declared type is NOT Optional is decided at translation
    time (never None: the Spec's types describe the call shape) and the dead branch is not translated.
  * FORMATTING: `{}` / `{name}` / f-string fields of str (itself) and int (pyStrInt = decimal, '-' sign); the arguments
    are evaluated first, left to right; `{{`/`}}` are literal braces.  bool/None/float/containers: refused.
  * `s.split()` = runs of whitespace separate, no empty strings; whitespace = the 29 code points of
    PyRt.pyWhitespaceCodes, compared by the selftest with CPython's isspace/split()/strip() on ALL code points.
  * `sorted` is a stable insertion sort (pySortedBy); `deque(xs)` used as a queue is a list; NamedTuple construction
    `Cls(a, b)` = the anonymous constructor of the declared Lean structure (every field, in order), `v.method(args)`
    on a Struct value = the translated `Cls.method` with `v` first.
  * An empty display (`xs = []`, `s = set()`, `d = {}`) gets its element type from the first add/append/`in`/item
    assignment/out-parameter use; if none fixes it the function is refused.

SEMANTIC RULES ADDED IN ROUND 3
  * OPAQUE CALLEES: `Spec(…, opaque=[Opaque(obj, "nameO", [(pyparam, T)…], ret, monadic=True)])`.  A call that resolves
    to the live object `obj` becomes an application of the explicit function parameter `nameO : T1 → … → Except PyErr R`
    (placed after `fuel`/`ord`, before the Python parameters); arguments are evaluated in the order written, keyword
    arguments and constant defaults are placed by the declared parameter names.  Nothing is assumed about an opaque
    callee except its type (`monadic=True`: it may raise); the theorem instantiates it.  A translated caller of a
    function with opaque callees must declare the same objects and hands its own parameters on.
  * CALL STATEMENTS `f(…)` of a translated or opaque callee are a bind whose result is dropped (`let t ← f …; pure ()`);
    control continues after it as in Python (a callee that always raises is seen as such by the proof, not guessed).
  * `UNUSED` parameter type: the callee never reads the parameter (it only occurs inside an unevaluated `raise` message;
    any other read is an unknown name and refused); it is not a parameter of the Lean function, call sites evaluate
    the argument (it may raise) and drop it.
  * `Spec(…, assume={"fields": True})`: the truth value of a parameter in this CALL SHAPE; `if fields:` is decided at
    translation time and the dead branch is not translated (like `fixed`).  The theorem carries the matching hypothesis
    (`fields ≠ []`).  Refused if the parameter is assigned.
  * UNKNOWN SET ORDER: `Spec(…, set_order=True)` gives the function the parameter `ord : Nat → {α : Type} → List α →
    List α` (after `fuel`).  Where a set is iterated and the order may matter (what round 2 refuses) the iteration is
    over `ord <site> s` (`<site>` a constant unique in the module).  Theorems quantify over EVERY `ord` with
    `∀ k l, (ord k l).Perm l`.  ASSUMPTION: within one call, the order in which a set is iterated at a given site is
    a function of the set's elements in insertion order (true of CPython for sets that are built by the same code
    path and are not changed between iterations; two sets with the same insertion history iterate alike).  Callers
    of such a function need `set_order` too and hand `ord` on.  The selftest runs them with identity / reverse / a
    site-dependent rotation and compares with CPython as sets.
  * `d[k].add(e)` / `d[k].append(e)` on a LOCAL dict of sets/lists: `d ← pyDictModify d k (fun c => pySetAdd c e)`
    (KeyError when k is missing).  Sound because the dict must be built from NEW containers (`{k: set() for …}`, a
    display of fresh values; anything else is refused), stores into it must be fresh, and it is not a parameter.
    A non-mutated local may now be appended to a list whose elements are not changed in place.

SEMANTIC ASSUMPTIONS (what the generated Lean means)
  * int is the unbounded `Int`; str is the list of its code points (Unicode scalar values: a str with a lone
    surrogate is not representable and outside the theorems); iterating/indexing a str yields one-character strs
    (one-element lists); bool is not used as an int.
  * Every value has, at run time, the static type inferred here from the Spec's parameter types (Lean type-checks the
    output, so a wrong inference is a build error, not a wrong translation).  `x == y` is structural equality of the
    translated values; `is None` on an Optional is `Option.isNone`; truthiness is made explicit per type (str/list:
    non-empty; int: ≠ 0; Optional[T]: not None and truthy; Struct: refused).
  * Exceptions: `raise E(...)` becomes `throw` of the class name (`PyErr`); the constructor ARGUMENTS (message texts)
    are not evaluated and are assumed not to raise.  Implicit exceptions are those of the PyRt functions (IndexError,
    KeyError, ZeroDivisionError).  MemoryError/RecursionError/KeyboardInterrupt are outside the model.
  * Evaluation order is Python's (left to right); every sub-expression that can raise is bound by its own `let t ← …`
    BEFORE the statement that uses it, in evaluation order; a raising operand inside a conditional expression stays
    inside its branch.
  * Local lists that are mutated (`append`, `extend`, item assignment) are rewritten functionally.  This is only sound
    without aliasing, which is checked syntactically: a mutated local may occur only as the receiver of the mutation,
    as an argument of a copying/consuming builtin (len, tuple, list, join, sum, iteration, indexing, slicing, `in`),
    or in `return`; it may not be assigned to another name, be put into a container, be passed to another function
    (except as an out-parameter, see ROUND 2), or be mutated while being iterated.
  * `array('i', xs)` (signed integer typecodes) is the list `xs`: the C range of the elements is NOT modelled (the
    real code raises OverflowError beyond it).
  * dict preserves insertion order (PyRt.Dict is an association list); module-level constants and the identity of
    called module-level functions are those of the live module at translation time (not rebound at run time).
  * A function that cannot raise is translated to a pure function (`Id.run do …` or a plain term), otherwise to
    `Except PyErr`.  Docstrings, comments and type annotations are dropped, except that the annotation of
    `x: List[T] = []` supplies the element type of an empty display.
"""
import ast
import builtins
import inspect
import textwrap


class Unsupported(Exception):
    """The function uses a construct outside the documented subset."""


# ------------------------------------------------------------------------------------------------------------ types
STR, INT, BOOL, NONE, UNK = ("str",), ("int",), ("bool",), ("none",), ("unk",)
UNUSED = ("unused",)      # a parameter the function never reads (only inside an unevaluated `raise` message): it is
                          # not a parameter of the Lean function; call sites evaluate the argument and drop it


class Opaque:
    """A callee that is NOT translated: it becomes an explicit parameter `name : T1 → … → R` (or `→ Except PyErr R` when
    `monadic`) of every translated function that calls it, placed before the Python parameters; the equivalence theorem
    instantiates it (e.g. with the model's cast).  `obj` is the live function object the call must resolve to, `params`
    its Python parameter names with their types (for keyword arguments and coercions)."""

    def __init__(self, obj, name, params, ret, monadic=True):
        self.obj, self.name, self.params, self.ret, self.monadic = obj, name, list(params), ret, monadic

    def lean_type(self):
        r = lean_type(self.ret, True)
        return " → ".join([lean_type(t, True) for _, t in self.params] + [("Except PyErr " + r) if self.monadic else r])


def Opt(t):
    return t if t[0] == "opt" else ("opt", t)


def Lst(t):
    return ("list", t)


def Tup(*ts):
    return ("tuple",) + tuple(ts)


def Dict(k, v):
    return ("dict", k, v)


def Set(t):
    """a Python set/frozenset of hashable values: a duplicate-free list in insertion order"""
    return ("set", t)


def Struct(lean_name, fields, pyclass=None):
    """fields: ordered {python attribute name: T}; the Lean structure has fields of the same names, in this order."""
    return ("struct", lean_name, tuple(fields.items()), pyclass)


def lean_type(t, paren=False):
    k = t[0]
    if k == "str":
        s = "List Char"
    elif k == "int":
        return "Int"
    elif k == "bool":
        return "Bool"
    elif k == "none":
        return "Unit"
    elif k == "opt":
        s = "Option " + lean_type(t[1], True)
    elif k == "list":
        s = "List " + lean_type(t[1], True)
    elif k == "set":
        s = "List " + lean_type(t[1], True)
    elif k == "tuple":
        s = " × ".join(lean_type(x, True) for x in t[1:])
    elif k == "dict":
        s = "Dict %s %s" % (lean_type(t[1], True), lean_type(t[2], True))
    elif k == "struct":
        return t[1]
    else:
        raise Unsupported("a value whose element type is unknown (annotate the empty list: `x: List[T] = []`)")
    return "(" + s + ")" if paren else s


def _has_unk(t):
    return t == UNK or any(_has_unk(x) for x in t[1:] if isinstance(x, tuple) and x and isinstance(x[0], str))


def _contains_kind(t, kinds):
    """does the type mention one of these kinds anywhere (struct fields included)"""
    if t[0] in kinds:
        return True
    if t[0] == "struct":
        return any(_contains_kind(ft, kinds) for _, ft in t[2])
    return any(_contains_kind(x, kinds) for x in t[1:] if isinstance(x, tuple) and x and isinstance(x[0], str))


def _structs_of(t, out):
    if t[0] == "struct":
        out[t[1]] = t
        for _, ft in t[2]:
            _structs_of(ft, out)
    else:
        for x in t[1:]:
            if isinstance(x, tuple) and x and isinstance(x[0], str):
                _structs_of(x, out)
    return out


def lean_char(c):
    if c == "'":
        return "'\\''"
    if c == "\\":
        return "'\\\\'"
    if c == "\n":
        return "'\\n'"
    if c == "\t":
        return "'\\t'"
    if 32 <= ord(c) < 127:
        return "'%s'" % c
    if 0xD800 <= ord(c) <= 0xDFFF:
        raise Unsupported("a lone surrogate in a str constant (not a Lean Char)")
    return "(Char.ofNat %d)" % ord(c)


def lean_str(s):
    return "[" + ", ".join(lean_char(c) for c in s) + "]" if s else "([] : List Char)"


def lean_const(v):
    """Lean term and type of a Python constant."""
    if v is None:
        return "none", NONE
    if v is True or v is False:
        return ("true" if v else "false"), BOOL
    if isinstance(v, int):
        return "(%d : Int)" % v, INT
    if isinstance(v, str):
        return lean_str(v), STR
    raise Unsupported("constant of type %s" % type(v).__name__)


class Spec:
    def __init__(self, fn, name, params, ret, fixed=None, small_ints=False, opaque=(), assume=None, set_order=False):
        self.fn, self.name, self.ret, self.fixed = fn, name, ret, dict(fixed or {})
        self.unused = [p for p, t in params if t == UNUSED]
        self.params = [(p, t) for p, t in params if t != UNUSED]
        self.opaque = list(opaque)          # Opaque callees (explicit function parameters)
        self.assume = dict(assume or {})    # {param: True/False}: the truth value of a container parameter in this
                                            # call shape (`if fields:` is decided, the dead branch is not translated)
        self.set_order = set_order          # the function takes `ord` (the unknown iteration order of sets)
        self.small_ints = small_ints     # hint for the selftest only: ints stay in the C range (array('i', …))
        self.monadic = None       # set by the translation
        self.fuel = False         # set by the translation: the Lean function takes `fuel : Nat` first
        self.outparams = []       # set by the translation: mutated parameters (returned after the result)

    def lean_ret(self):
        """the type of the Lean result: the Python result followed by the new values of the mutated parameters"""
        outs = [dict(self.params)[p] for p in self.outparams]
        if not outs:
            return self.ret
        if self.ret == NONE:
            return outs[0] if len(outs) == 1 else Tup(*outs)
        return Tup(self.ret, *outs)


_BUILTIN_ERRS = ("ValueError", "IndexError", "KeyError", "TypeError", "ZeroDivisionError", "AssertionError",
                 "NotImplementedError", "StopIteration")
_LEAN_KEYWORDS = {"at", "from", "end", "then", "else", "do", "fun", "let", "in", "have", "show", "with", "match", "if",
                  "for", "return", "where", "by", "open", "def", "theorem", "instance", "structure", "namespace",
                  "section", "variable", "mut", "type", "Type", "Prop", "Sort", "import", "some", "none", "true", "false",
                  "pure", "throw", "id", "max", "min", "fuel"}


# methods that change their receiver in place (the receiver must be a local / parameter NAME)
_MUTATORS = ("append", "extend", "add", "update", "setdefault", "popleft", "pop", "appendleft", "insert", "remove",
             "discard", "clear", "sort", "reverse")


def _ind(lines, n=1):
    return [("  " * n) + ln for ln in lines]


# -------------------------------------------------------------------------------------------------- one function
class _Fn:
    def __init__(self, spec, module_specs, structs=None):
        self.spec = spec
        self.module_specs = module_specs          # id(function object) -> Spec (already translated)
        self.structs = structs or {}              # python class -> Struct type (NamedTuple/dataclass of the Specs)
        self.loopkinds = []                       # innermost last: ("for", None) / ("while", flag name)
        self.pending = []                         # declarations of empty containers whose type is inferred later
        self.ord_sites = 0                        # order-sensitive set iterations translated so far (`set_order`)
        self.globals = getattr(spec.fn, "__globals__", {})
        src = textwrap.dedent(inspect.getsource(spec.fn))
        tree = ast.parse(src)
        if len(tree.body) != 1 or not isinstance(tree.body[0], ast.FunctionDef):
            raise Unsupported("%s: not a plain `def`" % spec.name)
        self.node = tree.body[0]
        if self.node.decorator_list:
            raise Unsupported("%s: decorators" % spec.name)
        self.effect = False
        self.tmp = 0
        self.scopes = [{}]
        self.dead = set()
        self.loopvars = []
        self.iterating = []      # names of lists being iterated by enclosing for-loops

    # ---- names and scopes
    def fail(self, node, what):
        raise Unsupported("%s, line %s: %s: `%s`" % (self.spec.name, getattr(node, "lineno", "?"), what,
                                                      ast.unparse(node).split("\n")[0][:80]))

    def ident(self, name):
        if name in _LEAN_KEYWORDS or name.startswith("__") or not name.isidentifier() or not name.isascii():
            return name + "_"
        if name == self.spec.name or name in ("ord",) or any(sp.name == name for sp in self.module_specs.values()) \
                or any(o.name == name for o in self.spec.opaque):
            return name + "_"        # a local must not shadow a translated function / the order / an opaque callee
        return name

    def fresh(self):
        self.tmp += 1
        return "t%d_" % self.tmp

    def lookup(self, name):
        for sc in reversed(self.scopes):
            if name in sc:
                return sc[name]
        return None

    def push(self):
        self.scopes.append({})

    def pop(self):
        sc = self.scopes.pop()
        for n in sc:
            if self.lookup(n) is None:
                self.dead.add(n)

    def resolve_global(self, name):
        """the live object a non-local name denotes (module global, then builtin)"""
        if name in self.globals:
            return self.globals[name]
        if hasattr(builtins, name):
            return getattr(builtins, name)
        raise KeyError(name)

    # ---- prepass: which names are assigned how often, which local lists are mutated
    def prepass(self):
        a = self.node.args
        if a.vararg or a.kwarg or a.kwonlyargs or a.posonlyargs:
            raise Unsupported("%s: star/keyword-only/positional-only parameters" % self.spec.name)
        pynames = [x.arg for x in a.args]
        declared = [p for p, _ in self.spec.params]
        for p in pynames:
            if p not in declared and p not in self.spec.fixed and p not in self.spec.unused:
                raise Unsupported("%s: parameter `%s` has neither a type nor a fixed value" % (self.spec.name, p))
        for p in declared + list(self.spec.fixed) + list(self.spec.assume):
            if p not in pynames:
                raise Unsupported("%s: no parameter `%s` in the source" % (self.spec.name, p))
        self.nassign = {}
        self.mutated = set()
        self.nested_mutated = set()
        self.rebound = set()
        self.recursive = False
        uses_while = False
        calls = []

        def mutate(name):
            self.mutated.add(name)
            self.nassign[name] = self.nassign.get(name, 0) + 1
        for n in ast.walk(self.node):
            if isinstance(n, (ast.Assign, ast.AnnAssign, ast.AugAssign)):
                tg = n.targets if isinstance(n, ast.Assign) else [n.target]
                for t in tg:
                    for x in ([t] if not isinstance(t, ast.Tuple) else t.elts):
                        if isinstance(x, ast.Name):
                            self.nassign[x.id] = self.nassign.get(x.id, 0) + 1
                            self.rebound.add(x.id)
                        elif isinstance(x, ast.Subscript) and isinstance(x.value, ast.Name):
                            mutate(x.value.id)
            elif (isinstance(n, ast.Call) and isinstance(n.func, ast.Attribute) and n.func.attr in _MUTATORS
                  and isinstance(n.func.value, ast.Name)
                  and dict(self.spec.params).get(n.func.value.id, UNK)[0] not in ("struct", "str")):
                mutate(n.func.value.id)
            elif (isinstance(n, ast.Call) and isinstance(n.func, ast.Attribute) and n.func.attr in _MUTATORS
                  and isinstance(n.func.value, ast.Subscript) and isinstance(n.func.value.value, ast.Name)):
                mutate(n.func.value.value.id)
                self.nested_mutated.add(n.func.value.value.id)
            elif isinstance(n, ast.While):
                uses_while = True
            elif isinstance(n, (ast.Lambda, ast.FunctionDef, ast.ClassDef, ast.AsyncFunctionDef)) and n is not self.node:
                self.fail(n, "nested function/class")
            if isinstance(n, ast.Call) and isinstance(n.func, ast.Name) and n.func.id not in dict(self.spec.params):
                try:
                    obj = self.resolve_global(n.func.id)
                except KeyError:
                    continue
                if obj is self.spec.fn:
                    self.recursive = True
                    calls.append((n, None))
                elif id(obj) in self.module_specs and self.module_specs[id(obj)].fn is obj:
                    calls.append((n, self.module_specs[id(obj)]))
        # arguments at the positions of a callee's mutated parameters are mutated here too (to a fixed point for
        # the function's own recursive calls)
        changed = True
        while changed:
            changed = False
            for call, callee in calls:
                outs = [p for p in pynames if p in self.mutated] if callee is None else callee.outparams
                if not outs:
                    continue
                cnames = pynames if callee is None else list(inspect.signature(callee.fn).parameters)
                given = dict(zip(cnames, call.args))
                given.update({k.arg: k.value for k in call.keywords if k.arg})
                for o in outs:
                    a = given.get(o)
                    if not isinstance(a, ast.Name):
                        self.fail(call, "the argument for the mutated parameter `%s` is not a plain local name" % o)
                    if a.id not in self.mutated:
                        mutate(a.id)
                        changed = True
        self.spec.fuel = uses_while or self.recursive or any(c is not None and c.fuel for _, c in calls)
        self.spec.outparams = [p for p in pynames if p in self.mutated]
        for p in self.spec.outparams:
            if p in self.spec.fixed or dict(self.spec.params)[p][0] not in ("list", "set", "dict"):
                raise Unsupported("%s: mutated parameter `%s` is not a list/set/dict" % (self.spec.name, p))
            if p in self.rebound:
                raise Unsupported("%s: parameter `%s` is both mutated in place and re-bound" % (self.spec.name, p))
        for p in pynames:
            if p in self.spec.fixed and self.nassign.get(p):
                raise Unsupported("%s: fixed parameter `%s` is assigned" % (self.spec.name, p))

    # ---- type helpers
    def join(self, node, t1, t2):
        if t1 == t2:
            return t1
        if t1 == NONE:
            return Opt(t2)
        if t2 == NONE:
            return Opt(t1)
        if t1[0] == "opt" and t2[0] != "opt":
            return Opt(self.join(node, t1[1], t2))
        if t2[0] == "opt" and t1[0] != "opt":
            return Opt(self.join(node, t1, t2[1]))
        if t1[0] == t2[0] and t1[0] in ("opt", "list", "set"):
            return (t1[0], self.join(node, t1[1], t2[1]))
        if t1[0] == "dict" and t2[0] == "dict":
            return Dict(self.join(node, t1[1], t2[1]), self.join(node, t1[2], t2[2]))
        if t1 == UNK:
            return t2
        if t2 == UNK:
            return t1
        self.fail(node, "values of different types (%s / %s) meet" % (t1, t2))

    def coerce(self, node, term, t, to):
        if t == to:
            return term
        if to[0] == "opt":
            if t == NONE:
                return "none"
            if t[0] != "opt":
                return "(some %s)" % self.coerce(node, term, t, to[1])
        if t[0] in ("list", "set", "dict") and to[0] in ("list", "set", "dict") and _has_unk(t) and term == "[]" \
                and (t[0] == to[0] or (t[0] == "list" and to[0] == "set")):
            return "([] : %s)" % lean_type(to)     # (an empty list where a set is expected: only ever read)
        self.fail(node, "a value of type %s where %s is needed" % (t, to))

    def truthy(self, node, term, t):
        if t == BOOL:
            return term
        if t == STR or t[0] in ("list", "set", "dict"):
            return "(!(List.isEmpty %s))" % term
        if t == INT:
            return "(%s != 0)" % term
        if t == NONE:
            return "false"
        if t[0] == "opt":
            v = self.fresh()
            return "(match %s with | none => false | some %s => %s)" % (term, v, self.truthy(node, v, t[1]))
        self.fail(node, "truth value of a %s" % (t,))

    def annotation(self, node):
        """the T of a (local variable's) type annotation"""
        if isinstance(node, ast.Name) and node.id in ("str", "int", "bool"):
            return {"str": STR, "int": INT, "bool": BOOL}[node.id]
        if isinstance(node, ast.Constant) and node.value is None:
            return NONE
        if isinstance(node, ast.Subscript) and isinstance(node.value, ast.Name):
            args = node.slice.elts if isinstance(node.slice, ast.Tuple) else [node.slice]
            if node.value.id in ("List", "list", "Sequence") and len(args) == 1:
                return Lst(self.annotation(args[0]))
            if node.value.id == "Optional" and len(args) == 1:
                return Opt(self.annotation(args[0]))
            if node.value.id in ("Tuple", "tuple"):
                if len(args) == 2 and isinstance(args[1], ast.Constant) and args[1].value is Ellipsis:
                    return Lst(self.annotation(args[0]))
                return Tup(*[self.annotation(x) for x in args])
            if node.value.id in ("Dict", "dict") and len(args) == 2:
                return Dict(self.annotation(args[0]), self.annotation(args[1]))
            if node.value.id in ("Set", "set", "FrozenSet", "frozenset") and len(args) == 1:
                return Set(self.annotation(args[0]))
        self.fail(node, "type annotation outside str/int/bool/List/Optional/Tuple/Dict/Set")

    # ---- static evaluation of tests on `fixed` parameters
    def static_test(self, node):
        """True/False if the test is decided by the fixed parameters alone, else None"""
        if isinstance(node, ast.Name) and node.id in self.spec.fixed and self.lookup(node.id) is None:
            return bool(self.spec.fixed[node.id])
        if isinstance(node, ast.Name) and node.id in self.spec.assume and node.id not in self.nassign:
            return bool(self.spec.assume[node.id])
        if isinstance(node, ast.UnaryOp) and isinstance(node.op, ast.Not):
            r = self.static_test(node.operand)
            return None if r is None else not r
        if (isinstance(node, ast.Compare) and len(node.ops) == 1 and isinstance(node.ops[0], (ast.Is, ast.IsNot))
                and isinstance(node.left, ast.Name) and node.left.id in self.spec.fixed
                and isinstance(node.comparators[0], ast.Constant) and node.comparators[0].value is None):
            r = self.spec.fixed[node.left.id] is None
            return r if isinstance(node.ops[0], ast.Is) else not r
        if (isinstance(node, ast.Compare) and len(node.ops) == 1 and isinstance(node.ops[0], (ast.Is, ast.IsNot))
                and isinstance(node.left, ast.Name) and isinstance(node.comparators[0], ast.Constant)
                and node.comparators[0].value is None):
            # a name whose declared type is not Optional is never None (the Spec's types describe the call shape)
            t = self.lookup(node.left.id)
            if t is not None and t[0] in ("str", "int", "bool", "list", "set", "dict", "tuple", "struct"):
                return isinstance(node.ops[0], ast.IsNot)
        return None

    def none_test(self, node):
        """(name, True) for `name is None`, (name, False) for `name is not None` on a local Optional that is not
        assigned anywhere after (so that the branch can re-bind the name to the narrowed value); else None"""
        if (isinstance(node, ast.Compare) and len(node.ops) == 1 and isinstance(node.ops[0], (ast.Is, ast.IsNot))
                and isinstance(node.left, ast.Name) and isinstance(node.comparators[0], ast.Constant)
                and node.comparators[0].value is None):
            t = self.lookup(node.left.id)
            if t is not None and t[0] == "opt" and node.left.id not in self.mutable_names():
                return node.left.id, isinstance(node.ops[0], ast.Is)
        return None

    def mutable_names(self):
        return {n for n, k in self.nassign.items() if k > 1 or n in dict(self.spec.params)}

    # ---------------------------------------------------------------------------------------------- expressions
    # expr(node) -> (pre, term, T): `pre` are do-statements (lines) to run first, `term` is an atomic/parenthesised
    # pure Lean term.
    def expr(self, node, alias_ok=False, in_return=False):
        m = getattr(self, "e_" + type(node).__name__, None)
        if m is None:
            self.fail(node, "expression form %s" % type(node).__name__)
        if isinstance(node, ast.Name):
            if in_return and node.id in self.spec.outparams:
                self.fail(node, "a mutated parameter is returned (the result would alias the caller's object)")
            return m(node, alias_ok)
        if isinstance(node, ast.Tuple):
            return m(node, in_return)      # `return (a, xs)`: the function ends, a mutated local may be an element
        return m(node)

    def bind(self, pre, monadic_term, t):
        """bind a raising computation to a fresh name"""
        self.effect = True
        v = self.fresh()
        pre.append("let %s ← %s" % (v, monadic_term))
        return v

    def e_Constant(self, node):
        if isinstance(node.value, (float, complex, bytes)) or node.value is Ellipsis:
            self.fail(node, "constant of type %s" % type(node.value).__name__)
        term, t = lean_const(node.value)
        return [], term, t

    def e_Name(self, node, alias_ok=False):
        name = node.id
        t = self.lookup(name)
        if t is not None:
            if name in self.mutated and not alias_ok and t[0] in ("list", "set", "dict"):
                self.fail(node, "possible aliasing of the mutated local list `%s`" % name)
            return [], self.ident(name), t
        if name in self.dead or name in self.nassign or name in self.loopvars:
            self.fail(node, "`%s` is read outside the block that binds it (or before it is bound)" % name)
        if name in self.spec.fixed:
            term, t = lean_const(self.spec.fixed[name])
            return [], term, t
        try:
            obj = self.resolve_global(name)
        except KeyError:
            self.fail(node, "unknown name")
        if obj is None or isinstance(obj, (bool, int, str)):
            term, t = lean_const(obj)
            return [], term, t
        self.fail(node, "global `%s` is not a str/int/bool/None constant" % name)

    def e_List(self, node):
        return self.display(node, "list")

    def e_Tuple(self, node, alias_ok=False):
        return self.display(node, "tuple", alias_ok)

    def display(self, node, kind, alias_ok=False):
        pre, terms, ts = [], [], []
        for e in node.elts:
            if isinstance(e, ast.Starred):
                self.fail(node, "starred element")
            p, x, t = self.expr(e, alias_ok=alias_ok, in_return=alias_ok)
            pre += p
            terms.append(x)
            ts.append(t)
        if kind == "set":
            if not terms:
                self.fail(node, "empty set display")
            t = ts[0]
            for x in ts[1:]:
                t = self.join(node, t, x)
            self.hashable(node, t)
            return pre, "(pySetOfList [%s])" % ", ".join(self.coerce(node, x, tx, t) for x, tx in zip(terms, ts)), Set(t)
        if kind == "tuple":
            if len(terms) < 2:
                self.fail(node, "tuple display with fewer than two elements")
            return pre, "(" + ", ".join(terms) + ")", Tup(*ts)
        if not terms:
            return pre, "[]", Lst(UNK)
        t = ts[0]
        for x in ts[1:]:
            t = self.join(node, t, x)
        return pre, "[" + ", ".join(self.coerce(node, x, tx, t) for x, tx in zip(terms, ts)) + "]", Lst(t)

    def e_Set(self, node):
        return self.display(node, "set")

    def hashable(self, node, t):
        """set elements / dict keys: str, int, bool, None, tuples and Optionals of those (equality is structural)"""
        if _contains_kind(t, ("list", "set", "dict", "struct", "unk")):
            self.fail(node, "an unhashable (or unknown) element/key type %s" % (t,))

    def e_Dict(self, node):
        if not node.keys:
            return [], "[]", Dict(UNK, UNK)
        pre, pairs, tk, tv = [], [], None, None
        for k, v in zip(node.keys, node.values):
            if k is None:
                self.fail(node, "`**` in a dict display")
            p1, a, ta = self.expr(k)
            p2, b, tb = self.expr(v)
            pre += p1 + p2
            tk = ta if tk is None else self.join(node, tk, ta)
            tv = tb if tv is None else self.join(node, tv, tb)
            pairs.append((a, ta, b, tb))
        self.hashable(node, tk)
        if _has_unk(tv):
            self.fail(node, "dict display with values of unknown type")
        return pre, "(pyDictOfList [%s])" % ", ".join(
            "(%s, %s)" % (self.coerce(node, a, ta, tk), self.coerce(node, b, tb, tv)) for a, ta, b, tb in pairs), Dict(tk, tv)

    def e_JoinedStr(self, node):
        """f'…{e}…' with plain `{e}` fields (no conversion, no format spec) of str / int operands"""
        pre, parts = [], []
        for v in node.values:
            if isinstance(v, ast.Constant) and isinstance(v.value, str):
                if v.value:
                    parts.append(lean_str(v.value))
            elif isinstance(v, ast.FormattedValue) and v.conversion == -1 and v.format_spec is None:
                p, x, t = self.expr(v.value)
                pre += p
                parts.append(self.str_of(v, x, t))
            else:
                self.fail(node, "f-string field with a conversion or a format spec")
        return pre, ("(" + " ++ ".join(parts) + ")") if parts else lean_str(""), STR

    def str_of(self, node, x, t):
        """`str(x)` / `format(x, '')` for the operand types whose text is modelled"""
        if t == STR:
            return x
        if t == INT:
            return "(pyStrInt %s)" % x
        self.fail(node, "formatting of a %s (only str and int operands are translated)" % (t,))

    def e_UnaryOp(self, node):
        if isinstance(node.op, ast.Not):
            pre, c = self.test(node)
            return pre, c, BOOL
        if isinstance(node.op, ast.USub):
            pre, x, t = self.expr(node.operand)
            if t == INT:
                return pre, "(-%s)" % x, INT
        self.fail(node, "unary operator")

    def e_BoolOp(self, node):
        for v in node.values:      # as a VALUE, and/or is only translated between bools
            if not self.is_boolish(v):
                self.fail(node, "`and`/`or` used for its value between non-bool operands")
        pre, c = self.test(node)
        return pre, c, BOOL

    def is_boolish(self, node):
        if isinstance(node, ast.BoolOp):
            return all(self.is_boolish(v) for v in node.values)
        if isinstance(node, ast.Compare) or (isinstance(node, ast.UnaryOp) and isinstance(node.op, ast.Not)):
            return True
        if isinstance(node, ast.Constant):
            return isinstance(node.value, bool)
        if isinstance(node, ast.Name):
            return self.lookup(node.id) == BOOL
        return False

    def test(self, node):
        """(pre, Bool term): the truth value of `node` in a test position"""
        st = self.static_test(node)
        if st is not None:
            return [], ("true" if st else "false")
        if isinstance(node, ast.BoolOp):
            pre, terms = [], []
            for i, v in enumerate(node.values):
                p, c = self.test(v)
                if p and i > 0:
                    self.fail(node, "an operand of and/or after the first can raise")
                pre += p
                terms.append(c)
            return pre, "(" + (" && " if isinstance(node.op, ast.And) else " || ").join(terms) + ")"
        if isinstance(node, ast.UnaryOp) and isinstance(node.op, ast.Not):
            pre, c = self.test(node.operand)
            return pre, "(!%s)" % c
        pre, x, t = self.expr(node, alias_ok=True)
        return pre, self.truthy(node, x, t)

    def e_BinOp(self, node):
        pre, a, ta = self.expr(node.left, alias_ok=True)       # every binary operator here builds a NEW value
        p2, b, tb = self.expr(node.right, alias_ok=True)
        pre += p2
        op = type(node.op).__name__
        if ta == INT and tb == INT:
            if op in ("Add", "Sub", "Mult"):
                return pre, "(%s %s %s)" % (a, {"Add": "+", "Sub": "-", "Mult": "*"}[op], b), INT
            if op in ("FloorDiv", "Mod"):
                const = isinstance(node.right, ast.Constant) and isinstance(node.right.value, int) \
                    and not isinstance(node.right.value, bool) and node.right.value != 0
                if const:
                    return pre, "(%s %s %s)" % ("Int.fdiv" if op == "FloorDiv" else "Int.fmod", a, b), INT
                return pre, self.bind(pre, "%s %s %s" % ("pyFloorDiv" if op == "FloorDiv" else "pyMod", a, b), INT), INT
        if op == "Add" and ta == STR and tb == STR:
            return pre, "(%s ++ %s)" % (a, b), STR
        if op == "Add" and ta[0] == "list" and tb[0] == "list":
            t = self.join(node, ta, tb)
            return pre, "(%s ++ %s)" % (self.coerce(node, a, ta, t), self.coerce(node, b, tb, t)), t
        if ta[0] == "set" and tb[0] == "set" and op in ("BitOr", "BitAnd", "Sub"):
            t = self.join(node, ta, tb)
            if _has_unk(t):
                self.fail(node, "set operation between two empty sets")
            f = {"BitOr": "pySetUpdate", "BitAnd": "pySetInter", "Sub": "pySetDiff"}[op]
            return pre, "(%s %s %s)" % (f, self.coerce(node, a, ta, t), self.coerce(node, b, tb, t)), t
        if op == "Mult" and (ta == STR or ta[0] == "list") and tb == INT:
            if _has_unk(ta):
                self.fail(node, "repetition of an empty display")
            return pre, "(pyRepeat %s %s)" % (a, b), ta
        self.fail(node, "operator %s on %s and %s" % (op, ta, tb))

    def e_Compare(self, node):
        if len(node.ops) != 1:
            self.fail(node, "chained comparison")
        op = type(node.ops[0]).__name__
        right = node.comparators[0]
        if op in ("Is", "IsNot"):
            if not (isinstance(right, ast.Constant) and right.value is None):
                self.fail(node, "`is` with anything but None")
            pre, a, ta = self.expr(node.left)
            if ta == NONE:
                return pre, ("true" if op == "Is" else "false"), BOOL
            if ta[0] != "opt":
                self.fail(node, "`is None` on a value that is not Optional")
            return pre, "(Option.%s %s)" % ("isNone" if op == "Is" else "isSome", a), BOOL
        pre, a, ta = self.expr(node.left, alias_ok=True)       # comparisons only read their operands
        p2, b, tb = self.expr(right, alias_ok=True)
        pre += p2
        if op in ("Eq", "NotEq") and ta[0] == "set" and tb[0] == "set":
            t = self.join(node, ta, tb)
            if _has_unk(t):
                self.fail(node, "comparison of two empty displays")
            c = "(pySetEq %s %s)" % (self.coerce(node, a, ta, t), self.coerce(node, b, tb, t))
            return pre, (c if op == "Eq" else "(!%s)" % c), BOOL
        if op in ("LtE", "GtE") and ta[0] == "set" and tb[0] == "set":
            t = self.join(node, ta, tb)
            a, b = self.coerce(node, a, ta, t), self.coerce(node, b, tb, t)
            return pre, "(pySetSubset %s %s)" % ((a, b) if op == "LtE" else (b, a)), BOOL
        if op in ("Eq", "NotEq"):
            t = self.join(node, ta, tb)
            if _has_unk(t):
                self.fail(node, "comparison of two empty displays")
            if _contains_kind(t, ("set", "dict")):
                self.fail(node, "`==` on values containing sets/dicts (their equality ignores the order)")
            return pre, "(%s %s %s)" % (self.coerce(node, a, ta, t), "==" if op == "Eq" else "!=",
                                        self.coerce(node, b, tb, t)), BOOL
        if op in ("Lt", "LtE", "Gt", "GtE"):
            if ta == INT and tb == INT:
                return pre, "(decide (%s %s %s))" % (a, {"Lt": "<", "LtE": "≤", "Gt": ">", "GtE": "≥"}[op], b), BOOL
            if ta == STR and tb == STR:
                c = {"LtE": "(pyStrLe %s %s)" % (a, b), "GtE": "(pyStrLe %s %s)" % (b, a),
                     "Lt": "(!(pyStrLe %s %s))" % (b, a), "Gt": "(!(pyStrLe %s %s))" % (a, b)}[op]
                return pre, c, BOOL
            self.fail(node, "order comparison on %s" % (ta,))
        if op in ("In", "NotIn"):
            if tb == STR and ta == STR:
                c = "(pyStrContains %s %s)" % (a, b)
            elif tb[0] in ("list", "set") and _has_unk(tb) and isinstance(right, ast.Name) and not _has_unk(ta):
                self.retype(right.id, (tb[0], ta))         # `x in seen` on a still untyped `seen = set()`
                c = "(List.contains %s %s)" % (b, a)
            elif tb[0] == "dict" and _has_unk(tb):
                self.fail(node, "`in` on a dict whose types are not known yet")
            elif tb[0] in ("list", "set") and _has_unk(tb):
                if isinstance(right, ast.Name):
                    self.fail(node, "`in` on a container whose element type is not known yet")
                c = "false"           # membership in an empty display
            elif tb[0] in ("list", "set"):
                if _contains_kind(tb[1], ("set", "dict")):
                    self.fail(node, "`in` on a sequence of sets/dicts")
                c = "(List.contains %s %s)" % (b, self.coerce(node, a, ta, tb[1]))
            elif tb[0] == "dict":
                c = "(pyDictContains %s %s)" % (b, self.coerce(node, a, ta, tb[1]))
            else:
                self.fail(node, "`in` on %s" % (tb,))
            return pre, (c if op == "In" else "(!%s)" % c), BOOL
        self.fail(node, "comparison operator")

    def e_IfExp(self, node):
        st = self.static_test(node.test)
        if st is not None:
            return self.expr(node.body if st else node.orelse)
        nt = self.none_test(node.test)
        if nt is not None:
            name, none_first = nt
            t_opt = self.lookup(name)
            none_e, some_e = (node.body, node.orelse) if none_first else (node.orelse, node.body)
            pn, xn, tn = self.expr(none_e)
            self.push()
            self.scopes[-1][name] = t_opt[1]
            ps, xs, ts = self.expr(some_e)
            self.scopes.pop()
            t = self.join(node, tn, ts)
            xn, xs = self.coerce(node, xn, tn, t), self.coerce(node, xs, ts, t)
            v = self.ident(name)
            if not pn and not ps:
                return [], "(match %s with | none => %s | some %s => %s)" % (v, xn, v, xs), t
            pre = []
            r = self.bind(pre, "do", t)
            pre += _ind(["match %s with" % v, "| none =>"] + _ind(pn + ["pure %s" % xn])
                        + ["| some %s =>" % v] + _ind(ps + ["pure %s" % xs]))
            return pre, r, t
        pre, c = self.test(node.test)
        pa, a, ta = self.expr(node.body)
        pb, b, tb = self.expr(node.orelse)
        t = self.join(node, ta, tb)
        a, b = self.coerce(node, a, ta, t), self.coerce(node, b, tb, t)
        if not pa and not pb:
            return pre, "(if %s then %s else %s)" % (c, a, b), t
        r = self.bind(pre, "do", t)
        pre += _ind(["if %s then" % c] + _ind(pa + ["pure %s" % a]) + ["else"] + _ind(pb + ["pure %s" % b]))
        return pre, r, t

    def e_Subscript(self, node):
        pre, x, tx = self.expr(node.value, alias_ok=True)
        if isinstance(node.slice, ast.Slice):
            if node.slice.step is not None:
                self.fail(node, "slice with a step")
            if not (tx == STR or tx[0] == "list") or _has_unk(tx):
                self.fail(node, "slice of %s" % (tx,))
            bounds = []
            for b in (node.slice.lower, node.slice.upper):
                if b is None:
                    bounds.append("none")
                else:
                    p, y, ty = self.expr(b)
                    pre += p
                    if ty != INT:
                        self.fail(node, "slice bound of type %s" % (ty,))
                    bounds.append("(some %s)" % y)
            return pre, "(pySlice %s %s %s)" % (x, bounds[0], bounds[1]), tx
        if tx[0] == "tuple":
            k = node.slice.value if isinstance(node.slice, ast.Constant) else None
            n = len(tx) - 1
            if not isinstance(k, int) or isinstance(k, bool) or not 0 <= k < n:
                self.fail(node, "tuple index that is not a constant in range")
            return pre, "(%s)" % (x + ".2" * k + (".1" if k < n - 1 else "")), tx[1 + k]
        p, i, ti = self.expr(node.slice)
        pre += p
        if tx[0] == "dict":
            return pre, self.bind(pre, "pyDictGetItem %s %s" % (x, self.coerce(node, i, ti, tx[1])), tx[2]), tx[2]
        if ti != INT:
            self.fail(node, "index of type %s" % (ti,))
        if tx == STR:
            return pre, self.bind(pre, "pyGetItemStr %s %s" % (x, i), STR), STR
        if tx[0] == "list" and not _has_unk(tx):
            return pre, self.bind(pre, "pyGetItem %s %s" % (x, i), tx[1]), tx[1]
        self.fail(node, "subscript of %s" % (tx,))

    def e_Attribute(self, node):
        pre, x, tx = self.expr(node.value)
        if tx[0] == "struct":
            for f, t in tx[2]:
                if f == node.attr:
                    return pre, "(%s.%s)" % (x, self.ident(f)), t
        self.fail(node, "attribute of %s" % (tx,))

    def comprehension2(self, node, unordered_ok):
        """[elt for a in xs (if c1) for b in ys (if c2)] with pure parts: List.flatMap over the outer clause"""
        g1, g2 = node.generators
        if g1.is_async or g2.is_async:
            self.fail(node, "async comprehension")
        pre, xs, t1 = self.iterable(g1.iter, unordered_ok)
        self.push()
        pat1 = self.bind_target(g1.target, t1, loopvar=False)
        c1 = [self.pure_test(c) for c in g1.ifs]
        p2, ys, t2 = self.iterable(g2.iter, unordered_ok)
        if p2:
            self.fail(node, "an inner comprehension clause that can raise")
        self.push()
        pat2 = self.bind_target(g2.target, t2, loopvar=False)
        c2 = [self.pure_test(c) for c in g2.ifs]
        pe, e, te = self.expr(node.elt)
        self.pop()
        self.pop()
        if pe or _has_unk(te):
            self.fail(node, "element of a two-clause comprehension that can raise / of unknown type")
        if c2:
            ys = "(List.filter (fun %s => %s) %s)" % (pat2, " && ".join(c2), ys)
        if c1:
            xs = "(List.filter (fun %s => %s) %s)" % (pat1, " && ".join(c1), xs)
        return pre, "(List.flatMap (fun %s => List.map (fun %s => %s) %s) %s)" % (pat1, pat2, e, ys, xs), Lst(te)

    def pure_test(self, c):
        p, ct = self.test(c)
        if p:
            self.fail(c, "a comprehension filter that can raise")
        return ct

    def e_SetComp(self, node):
        pre, x, t = self.comprehension(node, unordered_ok=True)
        self.hashable(node, t[1])
        return pre, "(pySetOfList %s)" % x, Set(t[1])

    def e_DictComp(self, node):
        pair = ast.Tuple(elts=[node.key, node.value], ctx=ast.Load())
        lc = ast.ListComp(elt=pair, generators=node.generators)
        ast.copy_location(lc, node)
        ast.copy_location(pair, node)
        ast.fix_missing_locations(lc)
        pre, x, t = self.comprehension(lc)
        self.hashable(node, t[1][1])
        return pre, "(pyDictOfList %s)" % x, Dict(t[1][1], t[1][2])

    def comprehension(self, node, unordered_ok=False):
        """[elt for target in iter if conds] -> (pre, term, Lst(T))"""
        if len(node.generators) == 2:
            return self.comprehension2(node, unordered_ok)
        if len(node.generators) != 1 or node.generators[0].is_async:
            self.fail(node, "comprehension with more than two `for` clauses")
        g = node.generators[0]
        pre, xs, telt = self.iterable(g.iter, unordered_ok)
        self.push()
        pat = self.bind_target(g.target, telt, loopvar=False)
        conds = []
        for c in g.ifs:
            p, ct = self.test(c)
            if p:
                self.fail(c, "a comprehension filter that can raise")
            conds.append(ct)
        pe, e, te = self.expr(node.elt)
        self.pop()
        if _has_unk(te) and not (te[0] == "tuple" and not _has_unk(te[1]) and te[-1][0] in ("list", "set", "dict")):
            self.fail(node, "comprehension element of unknown type")
        if conds:
            xs = "(List.filter (fun %s => %s) %s)" % (pat, " && ".join(conds), xs)
        if not pe:
            return pre, "(List.map (fun %s => %s) %s)" % (pat, e, xs), Lst(te)
        if unordered_ok:
            self.fail(node, "a raising element in a comprehension whose source may be a set (which error comes first?)")
        r = self.bind(pre, "List.mapM (m := Except PyErr) (fun %s => do" % pat, Lst(te))
        pre += _ind(pe + ["pure %s) %s" % (e, xs)], 2)
        return pre, r, Lst(te)

    e_ListComp = comprehension

    def iterable(self, node, unordered_ok=False):
        """(pre, list term, element type) of something that is iterated.  A SET may only be iterated where the result
        cannot depend on the order (`unordered_ok`: the consumer builds a set, tests any/all, sums, sorts, …)."""
        if isinstance(node, ast.Name) and node.id in self.iterating and node.id in self.mutated:
            self.fail(node, "iteration over a list that the loop mutates")
        if isinstance(node, ast.GeneratorExp):
            pre, x, t = self.comprehension(node, unordered_ok)
        elif (isinstance(node, ast.Call) and isinstance(node.func, ast.Attribute)
              and node.func.attr in ("items", "keys", "values") and not node.args and not node.keywords):
            pre, x, t = self.expr(node.func.value, alias_ok=True)
            if t[0] != "dict" or _has_unk(t):
                self.fail(node, "items()/keys()/values() of %s" % (t,))
            if node.func.attr == "items":
                return pre, x, Tup(t[1], t[2])
            if node.func.attr == "keys":
                return pre, "(List.map Prod.fst %s)" % x, t[1]
            return pre, "(List.map Prod.snd %s)" % x, t[2]
        else:
            pre, x, t = self.expr(node, alias_ok=True)
        if t == STR:
            return pre, "(pyIterStr %s)" % x, STR
        if t[0] == "list" and not _has_unk(t):
            return pre, x, t[1]
        if t[0] == "set" and not _has_unk(t):
            if not unordered_ok:
                if not self.spec.set_order:
                    self.fail(node, "iteration over a set where the result may depend on the (arbitrary) order")
                # the unknown order: `ord <site> s` — theorems quantify over every `ord` that permutes its argument
                self.ord_sites += 1
                return pre, "(ord %d %s)" % (len(self.module_specs) * 1000 + self.ord_sites, x), t[1]
            return pre, x, t[1]
        if t[0] in ("list", "set") and unordered_ok:
            return pre, "[]", UNK
        if t[0] == "dict" and not _has_unk(t):
            return pre, "(List.map Prod.fst %s)" % x, t[1]
        self.fail(node, "iteration over %s" % (t,))

    def bind_target(self, target, t, loopvar):
        """declare the names of a for/comprehension target; returns the Lean pattern"""
        if isinstance(target, ast.Name):
            if self.lookup(target.id) is not None or (loopvar and self.nassign.get(target.id)):
                self.fail(target, "loop variable shadows or is assigned like a local")
            self.scopes[-1][target.id] = t
            return self.ident(target.id)
        if isinstance(target, ast.Tuple) and t[0] == "tuple" and len(target.elts) == len(t) - 1:
            return "(" + ", ".join(self.bind_target(e, te, loopvar) for e, te in zip(target.elts, t[1:])) + ")"
        self.fail(target, "loop target")

    def e_Call(self, node):
        if any(isinstance(a, ast.Starred) for a in node.args) or any(k.arg is None for k in node.keywords):
            self.fail(node, "star-arguments")
        f = node.func
        if isinstance(f, ast.Attribute):
            return self.method_call(node)
        if not isinstance(f, ast.Name):
            self.fail(node, "call of a computed function")
        if self.lookup(f.id) is not None or f.id in self.nassign:
            self.fail(node, "call of a local variable")
        try:
            obj = self.resolve_global(f.id)
        except KeyError:
            self.fail(node, "unknown function")
        for oq in self.spec.opaque:
            if oq.obj is obj:
                return self.opaque_call(node, oq)
        if obj is self.spec.fn:
            return self.spec_call(node, self.spec, recursive=True)
        if id(obj) in self.module_specs and self.module_specs[id(obj)].fn is obj:
            return self.spec_call(node, self.module_specs[id(obj)])
        if isinstance(obj, type) and obj in self.structs:
            return self.struct_new(node, obj)
        if getattr(builtins, f.id, None) is obj:
            return self.builtin_call(node, f.id)
        import collections as _collections
        if obj is _collections.deque:
            # deque(xs) used as a queue: a list (append / extend / popleft / truth / len are translated)
            pre, x, t = self.iterable(self.args(node, 1)[0])
            return pre, x, Lst(t)
        import array as _array
        if obj is _array.array:
            # array('i', xs): modelled as the list xs (ASSUMPTION: every element fits the C type; OverflowError is
            # outside the model, like MemoryError)
            a = self.args(node, 2)
            if not (isinstance(a[0], ast.Constant) and a[0].value in ("b", "h", "i", "l", "q")):
                self.fail(node, "array() with a typecode other than a signed integer one")
            pre, x, t = self.iterable(a[1])
            if t != INT:
                self.fail(node, "array() of non-ints")
            return pre, x, Lst(INT)
        self.fail(node, "call of a function that is neither a supported builtin nor translated earlier in this module")

    def opaque_call(self, node, oq):
        """a call of an Opaque callee: its explicit function parameter applied to the arguments (evaluated in the
        order written); defaults of the Python callee must be constants"""
        names = [n for n, _ in oq.params]
        given = dict(zip(names, node.args))
        if len(node.args) > len(names):
            self.fail(node, "too many arguments")
        for k in node.keywords:
            if k.arg in given or k.arg not in names:
                self.fail(node, "keyword argument")
            given[k.arg] = k.value
        pre, vals = [], {}
        for n in sorted(given, key=lambda n: (given[n].lineno, given[n].col_offset)):
            p, x, t = self.expr(given[n])
            pre += p
            vals[n] = self.coerce(given[n], x, t, dict(oq.params)[n])
        sig = inspect.signature(oq.obj).parameters
        for n, t in oq.params:
            if n not in vals:
                d = sig[n].default if n in sig else inspect.Parameter.empty
                if d is inspect.Parameter.empty:
                    self.fail(node, "missing argument `%s`" % n)
                x, tx = lean_const(d)
                vals[n] = self.coerce(node, x, tx, t)
        call = " ".join([oq.name] + [vals[n] for n in names])
        if oq.monadic:
            return pre, self.bind(pre, call, oq.ret), oq.ret
        return pre, "(" + call + ")", oq.ret

    def struct_new(self, node, cls):
        """`Cls(a, b, …)` for a NamedTuple/dataclass declared as Struct in the Specs: the anonymous constructor"""
        st = self.structs[cls]
        fields = [f for f, _ in st[2]]
        given = dict(zip(fields, node.args))
        if len(node.args) > len(fields):
            self.fail(node, "too many constructor arguments")
        for k in node.keywords:
            if k.arg in given or k.arg not in fields:
                self.fail(node, "constructor keyword")
            given[k.arg] = k.value
        if list(given) != fields or any(k.arg != f for k, f in zip(node.keywords, fields[len(node.args):])):
            self.fail(node, "constructor call that does not give every field once, in declaration order")
        pre, terms = [], []
        for f, tf in st[2]:
            p, x, t = self.expr(given[f])
            pre += p
            terms.append(self.coerce(node, x, t, tf))
        return pre, "(⟨%s⟩ : %s)" % (", ".join(terms), st[1]), st

    def spec_call(self, node, callee, recursive=False, receiver=None, in_stmt=False):
        if callee.outparams and not in_stmt:
            self.fail(node, "a call of a function that mutates its arguments, inside a larger expression")
        a = inspect.signature(callee.fn).parameters
        names = list(a)
        given = {}
        if len(node.args) > len(names):
            self.fail(node, "too many arguments")
        if receiver is not None:
            names = names[1:]      # `self` is the receiver
        for n, e in zip(names, node.args):
            given[n] = e
        for k in node.keywords:
            if k.arg in given or k.arg not in names:
                self.fail(node, "keyword argument")
            given[k.arg] = k.value
        outs = list(callee.outparams)
        onames = []
        for o in outs:
            e = given.get(o)
            if not (isinstance(e, ast.Name) and e.id in self.mutated and self.lookup(e.id) is not None
                    and e.id not in self.iterating):
                self.fail(node, "the argument for the mutated parameter `%s` must be a local list/set/dict name" % o)
            onames.append(e.id)
        if len(set(onames)) != len(onames):
            self.fail(node, "the same object is passed for two mutated parameters")
        for o, nm in zip(outs, onames):
            if _has_unk(self.lookup(nm)) and self.lookup(nm)[0] == dict(callee.params)[o][0]:
                self.retype(nm, dict(callee.params)[o])       # a still untyped empty container gets the callee's type
        pre, terms = [], []
        for n in names:            # Python evaluates the arguments in the order they are written
            if n in callee.fixed:
                if n in given:
                    e = given[n]
                    if not (isinstance(e, ast.Constant) and e.value == callee.fixed[n] and type(e.value) is type(callee.fixed[n])):
                        self.fail(node, "argument `%s` differs from the value fixed for the translated callee" % n)
                elif a[n].default is inspect.Parameter.empty or a[n].default != callee.fixed[n]:
                    self.fail(node, "default of `%s` differs from the value fixed for the translated callee" % n)
        order = [n for n, _ in sorted(((n, (e.lineno, e.col_offset)) for n, e in given.items()), key=lambda z: z[1])]
        vals = {}
        if receiver is not None:
            p, x, t = receiver
            pre += p
            vals[list(a)[0]] = self.coerce(node, x, t, dict(callee.params)[list(a)[0]])
        for n in order:
            if n in callee.fixed:
                continue
            if n in callee.unused:
                p, x, t = self.expr(given[n], alias_ok=True)     # evaluated (it may raise), then dropped
                pre += p
                continue
            # a callee cannot keep an argument; it can only hand it back in its result
            no_alias = not _contains_kind(callee.ret, ("list", "set", "dict", "struct")) or getattr(callee, "ret_fresh", False)
            p, x, t = self.expr(given[n], alias_ok=n in outs or no_alias)
            if n not in outs and _contains_kind(t, ("list", "set", "dict", "struct")) \
                    and any(isinstance(y, ast.Name) and y.id in onames for y in ast.walk(given[n])):
                self.fail(node, "an object passed for a mutated parameter also occurs in another (container) argument")
            pre += p
            vals[n] = self.coerce(given[n], x, t, dict(callee.params)[n])
        for n, t in callee.params:
            if n not in vals:
                d = a[n].default
                if d is inspect.Parameter.empty:
                    self.fail(node, "missing argument `%s`" % n)
                x, tx = lean_const(d)
                vals[n] = self.coerce(node, x, tx, t)
            terms.append(vals[n])
        extra = []
        if callee.set_order:
            if not self.spec.set_order:
                self.fail(node, "the callee iterates sets in an unknown order (`set_order`), the caller's Spec does not")
            extra.append("ord")
        for oq in callee.opaque:
            mine = [o for o in self.spec.opaque if o.obj is oq.obj]
            if not mine:
                self.fail(node, "the callee's opaque callee `%s` is not declared for this function" % oq.name)
            extra.append(mine[0].name)
        call = " ".join([callee.name] + (["fuel"] if callee.fuel else []) + extra + terms)
        rt = callee.lean_ret()
        if callee.monadic or recursive:
            r = self.bind(pre, call, rt)
        elif outs:
            r = self.fresh()
            pre.append("let %s := %s" % (r, call))
        else:
            return pre, "(" + call + ")", callee.ret
        if not outs:
            return pre, r, callee.ret
        # the new values of the mutated arguments come back after the result
        n = len(outs) + (0 if callee.ret == NONE else 1)
        comps = ["%s%s%s" % (r, ".2" * k, ".1" if k < n - 1 else "") for k in range(n)] if n > 1 else [r]
        for o, c in zip(onames, comps[(0 if callee.ret == NONE else 1):]):
            pre.append("%s := %s" % (self.ident(o), c))
        if callee.ret == NONE:
            return pre, "()", NONE
        return pre, comps[0], callee.ret

    def args(self, node, lo, hi=None):
        if node.keywords or not lo <= len(node.args) <= (hi or lo):
            self.fail(node, "argument list of this call")
        return node.args

    def builtin_call(self, node, name):
        if name == "len":
            pre, x, t = self.expr(self.args(node, 1)[0], alias_ok=True)
            if t == STR or t[0] in ("list", "dict", "set"):
                return pre, "(pyLen %s)" % x, INT
        elif name == "str":
            pre, x, t = self.expr(self.args(node, 1)[0])
            if t == STR:
                return pre, x, STR
            if t == INT:
                return pre, "(pyStrInt %s)" % x, STR
        elif name in ("tuple", "list"):
            pre, x, t = self.iterable(self.args(node, 1)[0])
            return pre, x, Lst(t)
        elif name == "map":
            fn, xs = self.args(node, 2)
            pre, x, t = self.iterable(xs)
            v = self.fresh()
            self.push()
            self.scopes[-1][v] = t
            call = ast.Call(func=fn, args=[ast.Name(id=v, ctx=ast.Load())], keywords=[])
            ast.copy_location(call, node)
            ast.fix_missing_locations(call)
            pe, e, te = self.expr(call)
            self.scopes.pop()
            if pe:
                self.fail(node, "map() of a function that can raise (the iterator is lazy)")
            return pre, "(List.map (fun %s => %s) %s)" % (v, e, x), Lst(te)
        elif name == "range":
            a = self.args(node, 1, 3)
            pre, terms = [], []
            for e in a:
                p, x, t = self.expr(e)
                if t != INT:
                    self.fail(node, "range() of a non-int")
                pre += p
                terms.append(x)
            if len(a) == 3:
                s = a[2]
                neg = isinstance(s, ast.UnaryOp) and isinstance(s.op, ast.USub)
                c = s.operand if neg else s
                if not (isinstance(c, ast.Constant) and isinstance(c.value, int) and not isinstance(c.value, bool)
                        and c.value != 0):
                    self.fail(node, "range() step that is not a non-zero constant")
            if len(a) == 1:
                terms = ["(0 : Int)"] + terms
            if len(terms) == 2:
                terms.append("(1 : Int)")
            return pre, "(pyRange %s)" % " ".join(terms), Lst(INT)
        elif name == "enumerate":
            start = None
            if len(node.keywords) == 1 and node.keywords[0].arg == "start" and len(node.args) == 1:
                start = node.keywords[0].value
            elif not node.keywords and len(node.args) == 2:
                start = node.args[1]
            else:
                self.args(node, 1)
            pre, x, t = self.iterable(node.args[0])
            if start is None:
                return pre, "(pyEnumerate %s)" % x, Lst(Tup(INT, t))
            p2, st, ts = self.expr(start)
            if ts != INT:
                self.fail(node, "enumerate() start of type %s" % (ts,))
            return pre + p2, "(pyEnumerateFrom %s %s)" % (x, st), Lst(Tup(INT, t))
        elif name in ("set", "frozenset"):
            if not node.args and not node.keywords:
                return [], "[]", Set(UNK)
            pre, x, t = self.iterable(self.args(node, 1)[0], unordered_ok=True)
            if t == UNK:
                return pre, "[]", Set(UNK)
            self.hashable(node, t)
            return pre, "(pySetOfList %s)" % x, Set(t)
        elif name == "dict":
            if not node.args and not node.keywords:
                return [], "[]", Dict(UNK, UNK)
            pre, x, t = self.iterable(self.args(node, 1)[0])
            if isinstance(self.args(node, 1)[0], ast.Name) and self.lookup(node.args[0].id)[0] == "dict":
                d = self.lookup(node.args[0].id)
                return pre, self.ident(node.args[0].id), d        # dict(d): a copy
            if t[0] != "tuple" or len(t) != 3:
                self.fail(node, "dict() of something that is not a sequence of pairs")
            self.hashable(node, t[1])
            return pre, "(pyDictOfList %s)" % x, Dict(t[1], t[2])
        elif name == "sorted":
            key = None
            if len(node.keywords) == 1 and node.keywords[0].arg == "key" and len(node.args) == 1:
                key = node.keywords[0].value
            else:
                self.args(node, 1)
            # without a key the result is determined by the ELEMENTS (a total order on int/str): a set may be sorted;
            # with a key, elements with equal keys keep their input order: not on a set
            pre, x, t = self.iterable(node.args[0], unordered_ok=key is None)
            if key is None:
                if t not in (INT, STR):
                    self.fail(node, "sorted() of elements of type %s (only int / str)" % (t,))
                return pre, "(pySorted %s)" % x, Lst(t)
            v = self.fresh()
            self.push()
            self.scopes[-1][v] = t
            call = ast.Call(func=key, args=[ast.Name(id=v, ctx=ast.Load())], keywords=[])
            ast.copy_location(call, node)
            ast.fix_missing_locations(call)
            pe, e, te = self.expr(call)
            self.scopes.pop()
            if pe or te not in (INT, STR):
                self.fail(node, "sorted() with a key that can raise or is not int / str")
            return pre, "(pySortedBy (fun %s => %s) %s)" % (v, e, x), Lst(t)
        elif name in ("any", "all"):
            arg = self.args(node, 1)[0]
            f = "List.any" if name == "any" else "List.all"
            if isinstance(arg, ast.GeneratorExp) and len(arg.generators) == 1 and not arg.generators[0].is_async:
                g = arg.generators[0]
                pre, xs, telt = self.iterable(g.iter, unordered_ok=True)
                self.push()
                pat = self.bind_target(g.target, telt, loopvar=False)
                conds = [self.pure_test(c) for c in g.ifs]
                pe, c = self.test(arg.elt)
                self.pop()
                if pe:
                    self.fail(node, "any()/all() over elements that can raise (evaluation stops early)")
                if conds:
                    xs = "(List.filter (fun %s => %s) %s)" % (pat, " && ".join(conds), xs)
                return pre, "(%s %s (fun %s => %s))" % (f, xs, pat, c), BOOL
            pre, x, t = self.iterable(arg, unordered_ok=True)
            v = self.fresh()
            return pre, "(%s %s (fun %s => %s))" % (f, x, v, self.truthy(node, v, t)), BOOL
        elif name == "next":
            # next(iter(xs)) on an ordered collection: its first element, StopIteration when empty
            arg = self.args(node, 1)[0]
            if (isinstance(arg, ast.Call) and isinstance(arg.func, ast.Name) and arg.func.id == "iter"
                    and self.lookup("iter") is None and not arg.keywords and len(arg.args) == 1):
                pre, x, t = self.iterable(arg.args[0])
                return pre, self.bind(pre, "pyNext %s" % x, t), t
        elif name == "zip":
            a, b = self.args(node, 2)
            pre, x, tx = self.iterable(a)
            p2, y, ty = self.iterable(b)
            return pre + p2, "(List.zip %s %s)" % (x, y), Lst(Tup(tx, ty))
        elif name == "sum":
            pre, x, t = self.iterable(self.args(node, 1)[0], unordered_ok=True)
            if t == INT:
                return pre, "(pySum %s)" % x, INT
        elif name in ("min", "max"):
            a, b = self.args(node, 2)
            pre, x, tx = self.expr(a)
            p2, y, ty = self.expr(b)
            if tx == INT and ty == INT:
                return pre + p2, "(%s %s %s)" % ("Min.min" if name == "min" else "Max.max", x, y), INT
        elif name == "abs":
            pre, x, t = self.expr(self.args(node, 1)[0])
            if t == INT:
                return pre, "((Int.natAbs %s : Nat) : Int)" % x, INT
        elif name == "bool":
            pre, c = self.test(self.args(node, 1)[0])
            return pre, c, BOOL
        elif name == "int":
            pre, x, t = self.expr(self.args(node, 1)[0])
            if t == INT:
                return pre, x, INT
        self.fail(node, "builtin call outside the supported ones/types")

    def const_str(self, node):
        """the value of a str-constant expression (literal or module-level constant), else None"""
        if isinstance(node, ast.Constant) and isinstance(node.value, str):
            return node.value
        if isinstance(node, ast.Name) and self.lookup(node.id) is None and node.id not in self.nassign:
            try:
                v = self.resolve_global(node.id)
            except KeyError:
                return None
            return v if isinstance(v, str) else None
        return None

    def method_call(self, node):
        f = node.func
        m = f.attr
        if m == "format" and isinstance(f.value, ast.Constant) and isinstance(f.value.value, str):
            return self.format_call(node, f.value.value)
        pre, r, tr = self.expr(f.value, alias_ok=True)
        if tr[0] == "struct" and tr[3] is not None:
            fn = getattr(tr[3], m, None)
            fn = getattr(fn, "__func__", fn)
            if fn is self.spec.fn:
                return self.spec_call(node, self.spec, recursive=True, receiver=(pre, r, tr))
            if id(fn) in self.module_specs and self.module_specs[id(fn)].fn is fn:
                return self.spec_call(node, self.module_specs[id(fn)], receiver=(pre, r, tr))
            self.fail(node, "method of a structure that is not translated earlier in this module")
        if tr == STR and not node.args and not node.keywords and m in ("split", "strip", "lstrip", "rstrip"):
            if m == "split":
                return pre, "(pySplitWs %s)" % r, Lst(STR)
            return pre, "(py%sWs %s)" % (m.capitalize(), r), STR
        if tr[0] == "set" and m in ("union", "intersection", "difference", "issubset", "issuperset", "isdisjoint"):
            a, = self.args(node, 1)
            p1, x, tx = self.iterable(a, unordered_ok=True)
            te = self.join(node, tr[1], tx)
            if _has_unk(te):
                self.fail(node, "set method between two empty collections")
            r = self.coerce(node, r, tr, Set(te))
            fn = {"union": "pySetUpdate", "intersection": "pySetInter", "difference": "pySetDiff",
                  "issubset": "pySetSubset", "isdisjoint": "pySetDisjoint"}.get(m)
            if m == "issuperset":
                return pre + p1, "(List.all %s (fun x_ => List.contains %s x_))" % (x, r), BOOL
            return pre + p1, "(%s %s %s)" % (fn, r, x), (BOOL if m.startswith("is") else Set(te))
        if tr[0] in ("set", "list", "dict") and m == "copy" and not node.args and not node.keywords:
            return pre, r, tr
        if tr == STR:
            if m == "replace":
                a, b = self.args(node, 2)
                p1, x, tx = self.expr(a)
                p2, y, ty = self.expr(b)
                if tx == STR and ty == STR:
                    return pre + p1 + p2, "(pyReplace %s %s %s)" % (r, x, y), STR
            elif m == "split":
                a, = self.args(node, 1)
                if not self.const_str(a):
                    self.fail(node, "split() whose separator is not a non-empty str constant")
                p1, x, tx = self.expr(a)
                return pre + p1, "(pySplit %s %s)" % (r, x), Lst(STR)
            elif m in ("rstrip", "lstrip", "strip"):
                a, = self.args(node, 1)
                p1, x, tx = self.expr(a)
                if tx == STR:
                    return pre + p1, "(py%s %s %s)" % (m.capitalize(), r, x), STR
            elif m in ("startswith", "endswith"):
                a, = self.args(node, 1)
                p1, x, tx = self.expr(a)
                if tx == STR:
                    return pre + p1, "(py%s %s %s)" % (m.capitalize(), r, x), BOOL
            elif m == "join":
                a, = self.args(node, 1)
                p1, x, tx = self.iterable(a)
                if tx == STR:
                    return pre + p1, "(pyJoin %s %s)" % (r, x), STR
        elif tr[0] == "dict":
            if m == "get":
                a = self.args(node, 1, 2)
                p1, k, tk = self.expr(a[0])
                k = self.coerce(node, k, tk, tr[1])
                if len(a) == 1 or (isinstance(a[1], ast.Constant) and a[1].value is None):
                    return pre + p1, "(pyDictGet? %s %s)" % (r, k), Opt(tr[2])
                p2, d, td = self.expr(a[1])
                return pre + p1 + p2, "(pyDictGetD %s %s %s)" % (r, k, self.coerce(node, d, td, tr[2])), tr[2]
        self.fail(node, "method `%s` on %s" % (m, tr))

    def format_call(self, node, fmt):
        """'…{}…{name}…'.format(a, b, name=c): only auto-numbered `{}` and `{name}` fields, no conversions/specs"""
        import string
        if node.keywords and any(k.arg is None for k in node.keywords):
            self.fail(node, "format(**kw)")
        vals, pre = {}, []
        for i, e in enumerate(node.args):          # arguments are evaluated first, left to right
            p, x, t = self.expr(e)
            pre += p
            vals[i] = (e, x, t)
        for k in node.keywords:
            p, x, t = self.expr(k.value)
            pre += p
            vals[k.arg] = (k.value, x, t)
        parts, auto = [], 0
        try:
            fields = list(string.Formatter().parse(fmt))
        except ValueError:
            self.fail(node, "malformed format string")
        for lit, name, spec, conv in fields:
            if lit:
                parts.append(lean_str(lit))
            if name is None:
                continue
            if spec or conv is not None:
                self.fail(node, "format field with a conversion or a format spec")
            if name == "":
                key, auto = auto, auto + 1
            elif name.isidentifier():
                key = name
            else:
                self.fail(node, "format field `{%s}` (only `{}` and `{name}` are translated)" % name)
            if key not in vals:
                self.fail(node, "format field without an argument (IndexError/KeyError at run time)")
            e, x, t = vals[key]
            parts.append(self.str_of(e, x, t))
        return pre, ("(" + " ++ ".join(parts) + ")") if parts else lean_str(""), STR

    # ----------------------------------------------------------------------------------------------- statements
    def block(self, stmts, scope=True):
        if scope:
            self.push()
        out = []
        for k, s in enumerate(stmts):
            m = getattr(self, "s_" + type(s).__name__, None)
            if m is None:
                self.fail(s, "statement form %s" % type(s).__name__)
            # flow narrowing: `if x is None: <leaves the block>` — the REST of the block runs with x not None
            if (isinstance(s, ast.If) and not s.orelse and self.leaves(s.body) and self.static_test(s.test) is None
                    and stmts[k + 1:]):
                nt = self.none_test(s.test)
                if nt is not None and nt[1]:
                    name = nt[0]
                    v = self.ident(name)
                    t_opt = self.lookup(name)
                    ln = self.block(s.body)
                    self.push()
                    self.scopes[-1][name] = t_opt[1]
                    ls = self.block(stmts[k + 1:], scope=False)
                    self.pop()
                    out.append("-- " + ast.unparse(s).split("\n")[0] + "   (the rest of the block: %s is not None)" % name)
                    out += ["match %s with" % v, "| none =>"] + _ind(ln) + ["| some %s =>" % v] + _ind(ls)
                    break
            lines = m(s)
            if lines:
                out.append("-- " + ast.unparse(s).split("\n")[0])
                out += lines
        if scope:
            self.pop()
        return out or ["pure ()"]

    @staticmethod
    def leaves(stmts):
        """does control always leave the enclosing block (return / raise / continue / break)"""
        if not stmts:
            return False
        s = stmts[-1]
        if isinstance(s, (ast.Return, ast.Raise, ast.Continue, ast.Break)):
            return True
        if isinstance(s, ast.If):
            return bool(s.orelse) and _Fn.leaves(s.body) and _Fn.leaves(s.orelse)
        return False

    def is_fresh(self, node):
        """does the expression build a NEW container (so that binding it to a mutated name creates no alias)"""
        if isinstance(node, (ast.List, ast.ListComp, ast.Set, ast.SetComp, ast.Dict, ast.DictComp, ast.BinOp)):
            return True
        if isinstance(node, ast.Subscript):
            return isinstance(node.slice, ast.Slice)
        if isinstance(node, ast.IfExp):
            return self.is_fresh(node.body) and self.is_fresh(node.orelse)
        if isinstance(node, ast.Call):
            f = node.func
            if isinstance(f, ast.Name) and self.lookup(f.id) is None:
                if f.id in ("list", "set", "dict", "sorted", "deque", "array", "frozenset"):
                    return True
                try:
                    obj = self.resolve_global(f.id)
                except KeyError:
                    return False
                sp = self.spec if obj is self.spec.fn else self.module_specs.get(id(obj))
                return sp is not None and getattr(sp, "ret_fresh", False)
            if isinstance(f, ast.Attribute) and f.attr in ("union", "intersection", "difference", "copy", "split"):
                return True
        return False

    def assign_name(self, node, name, term, t):
        """`name = term` → let / let mut / :="""
        if name in self.spec.fixed or name in self.loopvars:
            self.fail(node, "assignment to a fixed parameter or loop variable")
        old = self.lookup(name)
        if old is not None:
            return ["%s := %s" % (self.ident(name), self.coerce(node, term, t, old))]
        self.dead.discard(name)
        self.scopes[-1][name] = t
        mut = "mut " if self.nassign.get(name, 0) > 1 else ""
        if _has_unk(t):
            # an empty display: its element type is fixed by the first add/append/membership test (`retype`); the
            # declaration is completed at the end of the translation
            if t[0] not in ("list", "set", "dict"):
                self.fail(node, "cannot infer the type of `%s` (annotate it: `%s: List[T] = []`)" % (name, name))
            self.pending.append((name, self.scopes[-1]))
            return ["let %s%s : @@T%d@@ := %s" % (mut, self.ident(name), len(self.pending) - 1, term)]
        return ["let %s%s : %s := %s" % (mut, self.ident(name), lean_type(t), term)]

    def s_Assign(self, node):
        if len(node.targets) != 1:
            self.fail(node, "chained assignment")
        return self.assign_to(node, node.targets[0], node.value, None)

    def s_AnnAssign(self, node):
        if node.value is None:
            return []          # a bare annotation has no run-time effect
        if not isinstance(node.target, ast.Name):
            self.fail(node, "annotated assignment to a non-name")
        return self.assign_to(node, node.target, node.value, self.annotation(node.annotation))

    def assign_to(self, node, target, value, ann):
        if (isinstance(target, ast.Name) and isinstance(value, ast.Call) and isinstance(value.func, ast.Attribute)
                and value.func.attr in ("popleft", "pop") and isinstance(value.func.value, ast.Name)):
            return self.pop_stmt(node, target.id, value)
        in_stmt = isinstance(value, ast.Call) and isinstance(target, ast.Name)
        if in_stmt and isinstance(value.func, ast.Name) and self.lookup(value.func.id) is None:
            try:
                obj = self.resolve_global(value.func.id)
            except KeyError:
                obj = None
            sp = self.spec if obj is self.spec.fn else self.module_specs.get(id(obj))
            if sp is not None and sp.fn is obj and sp.outparams:
                pre, x, t = self.spec_call(value, sp, recursive=sp is self.spec, in_stmt=True)
                return pre + self.assign_name(node, target.id, x, t)
        pre, x, t = self.expr(value)
        if isinstance(target, ast.Name) and target.id in self.mutated and t[0] in ("list", "set", "dict") \
                and not self.is_fresh(value):
            self.fail(node, "a mutated container is bound to a value that may be shared with another name")
        if isinstance(target, ast.Name) and target.id in self.nested_mutated:
            # the containers INSIDE it are changed in place (`d[k].add(e)`): each must be a new object of its own
            if isinstance(value, ast.DictComp):
                inner = [value.value]
            elif isinstance(value, ast.Dict):
                inner = list(value.values)
            else:
                inner = None
            if inner is None or not all(self.is_fresh(v) for v in inner):
                self.fail(node, "a dict whose elements are changed in place must be built from new containers "
                                "(`{k: set() for k in …}`)")
        if isinstance(target, ast.Name):
            if ann is not None and self.lookup(target.id) is None:
                x, t = self.coerce(node, x, t, ann), ann
            return pre + self.assign_name(node, target.id, x, t)
        if isinstance(target, ast.Tuple) and all(isinstance(e, ast.Name) for e in target.elts):
            if t[0] != "tuple" or len(t) - 1 != len(target.elts) or len({e.id for e in target.elts}) != len(target.elts):
                self.fail(node, "tuple assignment from %s" % (t,))
            tmp = [self.fresh() for _ in target.elts]
            out = pre + ["let (%s) := %s" % (", ".join(tmp), x)]
            for e, v, te in zip(target.elts, tmp, t[1:]):
                out += self.assign_name(node, e.id, v, te)
            return out
        if isinstance(target, ast.Subscript) and isinstance(target.value, ast.Name):
            name = target.value.id
            tl = self.lookup(name)
            if tl is not None and tl[0] == "dict" and name not in self.iterating and not isinstance(target.slice, ast.Slice):
                p2, i, ti = self.expr(target.slice)      # Python: value first, then the key
                if _has_unk(tl):
                    tl = Dict(ti, t)
                    self.hashable(node, ti)
                    self.retype(name, tl)
                if _contains_kind(t, ("list", "set", "dict")) and not self.is_fresh(value):
                    self.fail(node, "a container that may be shared is stored in a dict")
                v = self.ident(name)
                return pre + p2 + ["%s := pyDictSet %s %s %s" % (v, v, self.coerce(node, i, ti, tl[1]),
                                                                 self.coerce(node, x, t, tl[2]))]
            if tl is None or tl[0] != "list" or name in self.iterating or isinstance(target.slice, ast.Slice):
                self.fail(node, "item assignment")
            p2, i, ti = self.expr(target.slice)
            if ti != INT:
                self.fail(node, "item assignment with a non-int index")
            # Python evaluates the right-hand side first, then the index
            self.effect = True
            v = self.ident(name)
            return pre + p2 + ["%s ← pySetItem %s %s %s" % (v, v, i, self.coerce(node, x, t, tl[1]))]
        self.fail(node, "assignment target")

    def retype(self, name, t):
        """an empty display whose element type becomes known at its first use (`xs = set()` … `xs.add(e)`)"""
        for sc in reversed(self.scopes):
            if name in sc:
                sc[name] = t
                return

    def pop_stmt(self, node, target, call):
        """`x = xs.popleft()` / `x = xs.pop(0)` / `x = xs.pop()` on a local list used as a queue/stack"""
        name = call.func.value.id
        tl = self.lookup(name)
        if tl is None or tl[0] != "list" or _has_unk(tl) or name in self.iterating or call.keywords:
            self.fail(node, "pop on something that is not a local list")
        if call.func.attr == "popleft" and not call.args:
            f = "pyPopLeft"
        elif call.func.attr == "pop" and not call.args:
            f = "pyPop"
        elif call.func.attr == "pop" and len(call.args) == 1 and isinstance(call.args[0], ast.Constant) \
                and call.args[0].value == 0 and not isinstance(call.args[0].value, bool):
            f = "pyPopLeft"
        else:
            self.fail(node, "pop with a computed index")
        self.effect = True
        r = self.fresh()
        v = self.ident(name)
        return ["let %s ← %s %s" % (r, f, v), "%s := %s.2" % (v, r)] + self.assign_name(node, target, "%s.1" % r, tl[1])

    def s_While(self, node):
        """`while c: body` → at most `fuel` rounds; PyErr.fuel if the loop has not ended by then"""
        if node.orelse:
            self.fail(node, "while-else")
        self.effect = True
        flag = "w%d_" % (len([k for k in self.loopkinds]) + 1) + self.fresh()
        pre, c = self.test(node.test)
        self.loopkinds.append(("while", flag))
        self.iterating.append(None)
        body = self.block(node.body)
        self.iterating.pop()
        self.loopkinds.pop()
        return (["let mut %s := false" % flag, "for _ in List.replicate fuel () do"]
                + _ind(pre + ["if !%s then" % c] + _ind(["%s := true" % flag, "break"]) + body)
                + ["if !%s then" % flag] + _ind(["throw PyErr.fuel"]))

    def s_AugAssign(self, node):
        if not isinstance(node.target, ast.Name) or self.lookup(node.target.id) is None:
            self.fail(node, "augmented assignment to anything but a bound local")
        if node.target.id in self.mutated:
            self.fail(node, "augmented assignment to a mutated list (in-place extend)")
        e = ast.BinOp(left=ast.Name(id=node.target.id, ctx=ast.Load()), op=node.op, right=node.value)
        ast.copy_location(e, node)
        ast.fix_missing_locations(e)
        pre, x, t = self.expr(e)
        if self.lookup(node.target.id)[0] == "list":
            self.fail(node, "`+=` on a list (in-place; aliasing)")
        return pre + self.assign_name(node, node.target.id, x, t)

    def s_Expr(self, node):
        v = node.value
        if isinstance(v, ast.Constant) and isinstance(v.value, str):
            return []          # docstring
        if isinstance(v, ast.Call) and isinstance(v.func, ast.Name) and self.lookup(v.func.id) is None:
            try:
                obj = self.resolve_global(v.func.id)
            except KeyError:
                obj = None
            sp = self.spec if obj is self.spec.fn else self.module_specs.get(id(obj))
            if sp is not None and sp.fn is obj:
                # a call for its effect on the mutated arguments (the result, if any, is dropped)
                pre, x, t = self.spec_call(v, sp, recursive=sp is self.spec, in_stmt=True)
                return pre + ["pure ()"]
            for oq in self.spec.opaque:
                if oq.obj is obj:          # a bare call of an opaque callee: bound, result dropped
                    pre, x, t = self.opaque_call(v, oq)
                    return pre + ["pure ()"]
        if (isinstance(v, ast.Call) and isinstance(v.func, ast.Attribute) and isinstance(v.func.value, ast.Name)
                and v.func.attr in ("append", "extend") and len(v.args) == 1 and not v.keywords):
            name = v.func.value.id
            tl = self.lookup(name)
            if tl is None or tl[0] != "list" or name in self.iterating:
                self.fail(node, "append/extend on something that is not a local list (or is being iterated)")
            if v.func.attr == "append":
                pre, x, t = self.expr(v.args[0])
                if _has_unk(tl):
                    tl = Lst(t)
                    self.retype(name, tl)
                if _contains_kind(t, ("list", "set", "dict")) and not self.is_fresh(v.args[0]) and not (
                        isinstance(v.args[0], ast.Name) and v.args[0].id not in self.mutated
                        and v.args[0].id not in dict(self.spec.params) and name not in self.nested_mutated):
                    self.fail(node, "a container that may be shared is appended to a list")
                x = "[%s]" % self.coerce(node, x, t, tl[1])
            else:
                pre, x, t = self.iterable(v.args[0])
                if _has_unk(tl):
                    tl = Lst(t)
                    self.retype(name, tl)
                x = self.coerce(node, x, Lst(t), tl)
            return pre + ["%s := %s ++ %s" % (self.ident(name), self.ident(name), x)]
        if (isinstance(v, ast.Call) and isinstance(v.func, ast.Attribute) and isinstance(v.func.value, ast.Subscript)
                and isinstance(v.func.value.value, ast.Name) and not isinstance(v.func.value.slice, ast.Slice)
                and v.func.attr in ("add", "append") and len(v.args) == 1 and not v.keywords):
            # `d[k].add(e)` / `d[k].append(e)`: the container stored under k is replaced by the extended one (KeyError
            # when k is missing).  Sound because every container stored in `d` is a NEW one (checked where it is
            # stored) and is never handed out (reads of d[k] only feed iteration / `in` / len / a callee that cannot
            # keep it)
            name = v.func.value.value.id
            tl = self.lookup(name)
            if tl is None or tl[0] != "dict" or name in self.iterating or name in dict(self.spec.params) \
                    or tl[2][0] != {"add": "set", "append": "list"}[v.func.attr]:
                self.fail(node, "in-place change of an element of something that is not a local dict of sets/lists")
            pk, k, tk = self.expr(v.func.value.slice)
            pe, e, te = self.expr(v.args[0])
            if _has_unk(tl[2]):
                tl = Dict(tl[1], (tl[2][0], te))
                self.retype(name, tl)
            if _contains_kind(te, ("list", "set", "dict")):
                self.fail(node, "a container stored inside a container of a dict")
            self.effect = True
            n = self.ident(name)
            f = "pySetAdd" if v.func.attr == "add" else "pyListAppend"
            return pk + pe + ["%s ← pyDictModify %s %s (fun c_ => %s c_ %s)"
                              % (n, n, self.coerce(node, k, tk, tl[1]), f, self.coerce(node, e, te, tl[2][1]))]
        if (isinstance(v, ast.Call) and isinstance(v.func, ast.Attribute) and isinstance(v.func.value, ast.Name)
                and v.func.attr in ("add", "update") and len(v.args) == 1 and not v.keywords):
            name = v.func.value.id
            tl = self.lookup(name)
            if tl is None or tl[0] != "set" or name in self.iterating:
                self.fail(node, "add/update on something that is not a local set (or is being iterated)")
            if v.func.attr == "add":
                pre, x, t = self.expr(v.args[0])
                f = "pySetAdd"
            else:
                pre, x, t = self.iterable(v.args[0], unordered_ok=True)
                f = "pySetUpdate"
                if t == UNK:
                    return pre or ["pure ()"]
            if _has_unk(tl):
                tl = Set(t)
                self.retype(name, tl)
            self.hashable(node, tl[1])
            x = self.coerce(node, x, t, tl[1]) if f == "pySetAdd" else self.coerce(node, x, Lst(t), Lst(tl[1]))
            return pre + ["%s := %s %s %s" % (self.ident(name), f, self.ident(name), x)]
        if (isinstance(v, ast.Call) and isinstance(v.func, ast.Attribute) and isinstance(v.func.value, ast.Name)
                and v.func.attr == "setdefault" and len(v.args) == 2 and not v.keywords):
            name = v.func.value.id
            tl = self.lookup(name)
            if tl is None or tl[0] != "dict" or _has_unk(tl) or name in self.iterating:
                self.fail(node, "setdefault on something that is not a local dict")
            p1, k, tk = self.expr(v.args[0])
            p2, d, td = self.expr(v.args[1])
            if _contains_kind(td, ("list", "set", "dict")) and not self.is_fresh(v.args[1]):
                self.fail(node, "a container that may be shared is stored in a dict")
            n = self.ident(name)
            return p1 + p2 + ["%s := pyDictSetDefault %s %s %s" % (n, n, self.coerce(node, k, tk, tl[1]),
                                                                   self.coerce(node, d, td, tl[2]))]
        self.fail(node, "expression statement (only append/extend/add/update/setdefault on a local container and calls "
                        "of translated functions are translated)")

    def s_Pass(self, node):
        return ["pure ()"]

    def s_Break(self, node):
        if self.loopkinds and self.loopkinds[-1][0] == "while":
            return ["%s := true" % self.loopkinds[-1][1], "break"]
        return ["break"]

    def s_Continue(self, node):
        return ["continue"]

    def s_Return(self, node):
        if node.value is None:
            x, t = "none", NONE
            pre = []
        else:
            pre, x, t = self.expr(node.value, alias_ok=True, in_return=True)
        outs = [self.ident(p) for p in self.spec.outparams]
        if self.spec.ret == NONE and t == NONE:
            return pre + ["return (%s)" % ", ".join(outs)]
        return pre + ["return %s" % self.with_outs(self.coerce(node, x, t, self.spec.ret))]

    def with_outs(self, term):
        outs = [self.ident(p) for p in self.spec.outparams]
        return "(%s)" % ", ".join([term] + outs) if outs else term

    def s_Raise(self, node):
        if node.exc is None or node.cause is not None:
            self.fail(node, "re-raise / raise-from")
        e = node.exc.func if isinstance(node.exc, ast.Call) else node.exc
        if not isinstance(e, ast.Name) or self.lookup(e.id) is not None:
            self.fail(node, "raise of a computed exception")
        try:
            cls = self.resolve_global(e.id)
        except KeyError:
            self.fail(node, "unknown exception class")
        if not (isinstance(cls, type) and issubclass(cls, BaseException)):
            self.fail(node, "raise of something that is not an exception class")
        self.effect = True
        if cls.__module__ == "builtins":
            if cls.__name__ not in _BUILTIN_ERRS:
                self.fail(node, "builtin exception class without a PyErr constructor")
            return ["throw PyErr.%s" % cls.__name__]
        return ['throw (PyErr.user "%s")' % cls.__name__]

    def s_If(self, node):
        st = self.static_test(node.test)
        if st is not None:        # decided by a fixed parameter: the dead branch is not translated
            live = node.body if st else node.orelse
            note = ["-- (test decided at translation time: %s; the other branch is not translated)" % st]
            return note + (self.block(live, scope=False) if live else ["pure ()"])
        nt = self.none_test(node.test)
        if nt is not None:
            name, none_first = nt
            t_opt = self.lookup(name)
            none_b, some_b = (node.body, node.orelse) if none_first else (node.orelse, node.body)
            v = self.ident(name)
            ln = self.block(none_b) if none_b else ["pure ()"]
            self.push()
            self.scopes[-1][name] = t_opt[1]
            ls = self.block(some_b, scope=False) if some_b else ["pure ()"]
            self.scopes.pop()
            return ["match %s with" % v, "| none =>"] + _ind(ln) + ["| some %s =>" % v] + _ind(ls)
        pre, c = self.test(node.test)
        out = pre + ["if %s then" % c] + _ind(self.block(node.body))
        if node.orelse:
            if len(node.orelse) == 1 and isinstance(node.orelse[0], ast.If) and self.static_test(node.orelse[0].test) is None \
                    and self.none_test(node.orelse[0].test) is None:
                self.push()
                inner = self.s_If(node.orelse[0])
                self.pop()
                # an elif whose test needs a raising sub-expression cannot be flattened
                if inner and inner[0].startswith("if "):
                    return out + ["else " + inner[0]] + inner[1:]
                return out + ["else"] + _ind(inner)
            out += ["else"] + _ind(self.block(node.orelse))
        return out

    def s_For(self, node):
        if node.orelse:
            self.fail(node, "for-else")
        pre, xs, t = self.iterable(node.iter, unordered_ok=self.accumulates_only(node))
        self.push()
        names = [n.id for n in ast.walk(node.target) if isinstance(n, ast.Name)]
        pat = self.bind_target(node.target, t, loopvar=True)
        self.loopvars += names
        it = node.iter.id if isinstance(node.iter, ast.Name) else None
        self.iterating.append(it)
        self.loopkinds.append(("for", None))
        body = self.block(node.body)
        self.loopkinds.pop()
        self.iterating.pop()
        self.pop()
        return pre + ["for %s in %s do" % (pat, xs)] + _ind(body)

    def accumulates_only(self, loop):
        """Is the result of this `for` independent of the ORDER of the iteration?  Accepted shape: the body consists
        of `t.add(e)` / `t.update(e)` on sets, `pass`, `continue`, and `if c:` over such statements, where no `c`/`e`
        reads a name the loop changes, and nothing in the body can raise (checked when the body is translated: the
        caller only uses this for set-typed iterables, and a raising body then fails below)."""
        changed = set()
        reads = []

        def ok(stmts):
            for s in stmts:
                if isinstance(s, (ast.Pass, ast.Continue)):
                    continue
                if isinstance(s, ast.If):
                    reads.append(s.test)
                    if not ok(s.body) or not ok(s.orelse):
                        return False
                    continue
                if (isinstance(s, ast.Expr) and isinstance(s.value, ast.Call) and isinstance(s.value.func, ast.Attribute)
                        and s.value.func.attr in ("add", "update") and isinstance(s.value.func.value, ast.Name)
                        and len(s.value.args) == 1 and not s.value.keywords):
                    tl = self.lookup(s.value.func.value.id)
                    if tl is None or tl[0] != "set":
                        return False
                    changed.add(s.value.func.value.id)
                    reads.append(s.value.args[0])
                    continue
                return False
            return True
        if not ok(loop.body):
            return False
        for e in reads:
            for n in ast.walk(e):
                if isinstance(n, ast.Name) and n.id in changed:
                    return False
                if isinstance(n, (ast.Subscript, ast.BinOp)) or (isinstance(n, ast.Call) and not (
                        isinstance(n.func, ast.Name) and n.func.id in ("len", "str", "tuple"))):
                    return False          # anything that could raise (indexing, division, calls): refuse
        return True

    # ------------------------------------------------------------------------------------------------ function
    @staticmethod
    def terminates(stmts):
        if not stmts:
            return False
        s = stmts[-1]
        if isinstance(s, (ast.Return, ast.Raise)):
            return True
        if isinstance(s, ast.If):
            return bool(s.orelse) and _Fn.terminates(s.body) and _Fn.terminates(s.orelse)
        return False

    def translate(self):
        self.prepass()
        for p, t in self.spec.params:
            self.scopes[0][p] = t
        head = []
        for p, t in self.spec.params:
            if self.nassign.get(p):
                head.append("let mut %s := %s" % (self.ident(p), self.ident(p)))
        body = self.node.body
        single = None
        stmts = [s for s in body if not (isinstance(s, ast.Expr) and isinstance(s.value, ast.Constant))]
        if (len(stmts) == 1 and isinstance(stmts[0], ast.Return) and stmts[0].value is not None and not head
                and not self.spec.fuel and not self.spec.outparams):
            pre, x, t = self.expr(stmts[0].value, alias_ok=True, in_return=True)
            if not pre:
                single = self.coerce(stmts[0], x, t, self.spec.ret)
        # does every `return` hand out a NEW container (callers may bind the result to a name they mutate)
        self.spec.ret_fresh = all(
            r.value is None or self.is_fresh(r.value)
            or (isinstance(r.value, ast.Name) and r.value.id in self.mutated and r.value.id not in dict(self.spec.params))
            for r in ast.walk(self.node) if isinstance(r, ast.Return)) or not _contains_kind(self.spec.ret, ("list", "set", "dict"))
        if single is None:
            self.scopes = [dict(self.scopes[0])]
            self.effect, self.tmp, self.dead, self.pending = bool(self.spec.fuel), 0, set(), []
            self.ord_sites = 0
            lines = head + self.block(body, scope=False)
            if not self.terminates(body):
                if self.spec.ret == NONE:
                    lines.append("return (%s)" % ", ".join(self.ident(p) for p in self.spec.outparams))
                elif self.spec.ret[0] == "opt":
                    lines.append("return %s" % self.with_outs("none"))
                else:
                    raise Unsupported("%s: control can reach the end of the function (returns None) but the declared "
                                      "result type is not Optional" % self.spec.name)
            for k, (name, sc) in enumerate(self.pending):
                if _has_unk(sc[name]):
                    raise Unsupported("%s: cannot infer the element type of `%s` (annotate it: `%s: List[T] = []`)"
                                      % (self.spec.name, name, name))
                lines = [ln.replace("@@T%d@@" % k, lean_type(sc[name])) for ln in lines]
            if self.recursive:
                lines = ["match fuel with", "| 0 => throw PyErr.fuel", "| fuel + 1 => do"] + _ind(lines)
        self.spec.monadic = self.effect
        ret = lean_type(self.spec.lean_ret(), paren=self.effect)
        params = (" (fuel : Nat)" if self.spec.fuel else "") \
            + (" (ord : Nat → {α : Type} → List α → List α)" if self.spec.set_order else "") \
            + "".join(" (%s : %s)" % (o.name, o.lean_type()) for o in self.spec.opaque) \
            + "".join(" (%s : %s)" % (self.ident(p), lean_type(t)) for p, t in self.spec.params)
        mod = getattr(self.spec.fn, "__module__", "?")
        qual = getattr(self.spec.fn, "__qualname__", self.spec.name)
        fixed = "".join(", %s=%r" % kv for kv in sorted(self.spec.fixed.items()))
        out = ["/-- translated from the source text of `%s.%s`%s -/" % (mod, qual, (" with" + fixed[1:]) if fixed else "")]
        if single is not None:
            out.append("def %s%s : %s :=" % (self.spec.name, params, ret))
            out.append("  " + single)
        elif self.effect:
            if self.recursive:
                out.append("def %s%s : Except PyErr %s :=" % (self.spec.name, params, ret))
            else:
                out.append("def %s%s : Except PyErr %s := do" % (self.spec.name, params, ret))
            out += _ind(lines)
        else:
            out.append("def %s%s : %s := Id.run do" % (self.spec.name, params, ret))
            out += _ind(lines)
        return out


def translate_function(spec, module_specs=None, structs=None):
    """Lean source lines of one definition"""
    if structs is None:
        structs = _struct_classes([spec])
    return _Fn(spec, module_specs or {}, structs).translate()


def _struct_classes(specs):
    """python class -> Struct type, for every Struct with a `pyclass` mentioned in the Specs"""
    found = {}
    for sp in specs:
        for t in [t for _, t in sp.params] + [sp.ret]:
            _structs_of(t, found)
    return {t[3]: t for t in found.values() if t[3] is not None}


def translate_module(specs, namespace, imports=(), preamble=()):
    """Text of a whole Lean file: the translations of `specs` (in this order; a function may call earlier ones).
    `preamble`: Lean lines placed before the namespace (the selftest declares its sample structures there)."""
    out = ["/- GENERATED by harness/common/py2lean.py from the current source text of /repo. Do not edit.",
           "   Accepted Python subset and semantic assumptions: see the docstring of py2lean.py and TRANSLATOR.md. -/",
           "import Verif.Common.PyRt"]
    out += ["import %s" % i for i in imports]
    out += ["", "set_option linter.unusedVariables false", ""] + list(preamble) + ["namespace %s" % namespace,
                                                                                   "open Verif.PyRt", ""]
    done = {}
    structs = _struct_classes(specs)
    for sp in specs:
        out += translate_function(sp, done, structs)
        out.append("")
        done[id(sp.fn)] = sp
    out.append("end %s" % namespace)
    return "\n".join(out) + "\n"
