"""Small functions that exercise every construct and runtime function of py2lean; used only by py2lean_selftest.py
(the translated Lean is run against CPython on random inputs).  Annotations are the selftest's source of Spec types."""
from typing import Dict, List, Optional, Tuple

SEP = '@'
TWO = 'ab'
LIMIT = 3
SMALL_INTS = {'s_repeat', 's_ranges'}      # selftest: no huge ints for these (memory)


class SampleError(Exception):
    pass


def s_replace(s: str, a: str, b: str) -> str:
    return s.replace(a, b)


def s_split1(s: str) -> List[str]:
    return s.split(SEP)


def s_split2(s: str) -> List[str]:
    return s.split(TWO)


def s_split3(s: str) -> List[str]:
    return s.split('aa')


def s_strips(s: str, cs: str) -> Tuple[str, str, str]:
    return (s.rstrip(cs), s.lstrip(cs), s.strip(cs))


def s_affix(s: str, p: str) -> Tuple[bool, bool, bool]:
    return (s.startswith(p), s.endswith(p), p in s)


def s_join(sep: str, parts: List[str]) -> str:
    return sep.join(parts)


def s_join_chars(s: str) -> str:
    return SEP.join(c for c in s if c != 'a')


def s_str_int(i: int) -> str:
    return str(i) + ':' + str(-i)


def s_index(s: str, xs: List[int], i: int) -> Tuple[str, int]:
    return (s[i], xs[i])


def s_slices(s: str, xs: List[int], a: int, b: int) -> Tuple[str, List[int], List[int], str]:
    return (s[a:b], xs[a:], xs[:b], s[:])


def s_repeat(xs: List[int], s: str, n: int) -> Tuple[List[int], str, List[int]]:
    return (xs * n, s * n, [7] * n)


def s_ranges(a: int, b: int) -> List[int]:
    return list(range(a)) + list(range(a, b)) + list(range(a, b, 2)) + list(range(b, a, -1)) + list(range(a, b, -3))


def s_enum_zip(xs: List[int], ys: List[str]) -> List[Tuple[int, int, str]]:
    out: List[Tuple[int, int, str]] = []
    for i, x in enumerate(xs):
        out.append((i, x, ''))
    for x, y in zip(xs, ys):
        out.append((x, len(y), y))
    return out


def s_arith(a: int, b: int) -> Tuple[int, int, int, int, int, int, int]:
    return (a + b * 2 - 1, a // 7, a % 7, a // -3, a % -3, min(a, b) - max(a, b), abs(a) + sum([a, b]))


def s_divmod(a: int, b: int) -> Tuple[int, int]:
    return (a // b, a % b)


def s_compare(a: int, b: int, s: str, t: str) -> List[bool]:
    return [a < b, a <= b, a > b, a >= b, a == b, a != b, s == t, s != t, not a < b, a < b and s == t,
            a < b or s == t]


def s_truth(s: str, xs: List[int], i: int, o: Optional[str], b: bool) -> List[bool]:
    out: List[bool] = []
    if s:
        out.append(True)
    else:
        out.append(False)
    out.append(True if xs else False)
    out.append(True if i else False)
    out.append(True if o else False)
    out.append(True if o is None else False)
    out.append(True if o is not None else False)
    out.append(True if (s and not xs) or b else False)
    out.append(bool(xs))
    return out


def s_narrow(o: Optional[str], p: Optional[int]) -> str:
    r = 'none' if o is None else o + '!'
    if p is not None:
        r = r + str(p + 1)
    else:
        r = r + '?'
    if p is None:
        return r
    else:
        return r + str(p)


def s_dict(d: Dict[str, int], k: str) -> Tuple[Optional[int], int, bool, int, List[str]]:
    return (d.get(k), d.get(k, -1), k in d, d[k], [x for x in d])


def s_setitem(xs: List[int], i: int, v: int) -> List[int]:
    ys = [x + 1 for x in xs]
    ys[i] = v
    ys.append(v)
    ys.extend(xs)
    ys[0] = ys[-1] + ys[i]
    return ys


def s_loop(xs: List[int]) -> Tuple[int, int, List[int]]:
    total = 0
    count = 0
    seen: List[int] = []
    for x in xs:
        if x < 0:
            continue
        if x > 100:
            break
        total += x
        count = count + 1
        if x in seen:
            total -= 1
        else:
            seen.append(x)
    return (total, count, seen)


def s_find(xs: List[int], v: int) -> Optional[int]:
    for i, x in enumerate(xs):
        if x == v:
            return i
    return None


def s_falloff(xs: List[int]) -> Optional[int]:
    if xs:
        if xs[0] > LIMIT:
            return xs[0]
    elif LIMIT == 3:
        return -1


def s_raise(xs: List[int], s: str) -> int:
    if not xs:
        raise ValueError('empty')
    acc = 0
    for x in xs:
        if x == 13:
            raise SampleError('unlucky ' + s)
        acc = acc * 2 + x
    if s == 'k':
        raise KeyError(s)
    return acc + xs[acc]


def s_condexpr(xs: List[int], i: int, j: int) -> int:
    return xs[i] if i < j else (xs[j] if j != 0 else 0)


def s_nested(xss: List[List[int]]) -> List[int]:
    out: List[int] = []
    for xs in xss:
        m = 0
        for x in xs:
            if x > m:
                m = x
        out.append(m)
    return out


def s_tuple_assign(a: int, b: int) -> Tuple[int, int]:
    x, y = (b, a)
    x, y = (y + 1, x)
    return (x, y)


def s_param_assign(s: str, n: int) -> str:
    s = s.rstrip('\n')
    while_ = n
    if n < 0:
        n = -n
    return s * min(n, 3) + str(while_)


def s_call(s: str, n: int) -> str:
    return s_param_assign(s, n=n) + s_str_int(n)


def s_mapcall(xs: List[int]) -> List[str]:
    return list(map(s_str_int, xs)) + list(map(str, xs))


def s_comp_raise(xs: List[int], ys: List[int]) -> List[int]:
    return [ys[x] for x in xs if x != 2]


def s_optlist(xs: List[Optional[int]]) -> List[int]:
    return [0 if x is None else x + 1 for x in xs]


def s_unicode(s: str) -> List[str]:
    out: List[str] = []
    for c in s:
        if c == 'é' or c == '\x1f' or c == ' ' or c == "'" or c == '"' or c == '\t':
            out.append(c + c)
    return out


# ---- functions the translator must REFUSE (py2lean.Unsupported); checked by the selftest
def u_alias(xs: List[int]) -> List[int]:
    ys = [x for x in xs]
    zs = ys
    ys.append(1)
    return zs


def u_alias_container(xs: List[int]) -> List[List[int]]:
    ys = [x for x in xs]
    out = [ys]
    ys.append(1)
    return out


def u_mutated_param(xs: List[int]) -> int:
    xs.append(1)
    return len(xs)


def u_while(n: int) -> int:
    while n > 0:
        n -= 1
    return n


def u_try(xs: List[int]) -> int:
    try:
        return xs[0]
    except IndexError:
        return 0


def u_loopvar_after(xs: List[int]) -> int:
    x = 0
    for x in xs:
        pass
    return x


def u_inner_block(b: bool) -> int:
    if b:
        y = 1
    else:
        y = 2
    return y


def u_fstring(n: int) -> str:
    return f'{n}'


def u_format(n: int) -> str:
    return '<{}>'.format(n)


def u_float(n: int) -> int:
    return int(n / 2)


def u_iter_mutate(xs: List[int]) -> List[int]:
    ys = [x for x in xs]
    for y in ys:
        ys.append(y)
    return ys


def u_lower(s: str) -> str:
    return s.lower()


def u_split_ws(s: str) -> List[str]:
    return s.split()


def u_or_value(s: str, t: str) -> str:
    return s or t


def u_global_obj(s: str) -> int:
    return len(Dict)


def u_flow_narrow(o: Optional[int]) -> int:
    if o is None:
        return 0
    return o + 1


def u_chained(a: int, b: int, c: int) -> bool:
    return a < b < c


def u_surrogate(s: str) -> bool:
    return s == '\ud800'
