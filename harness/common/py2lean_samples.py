"""Small functions that exercise every construct and runtime function of py2lean; used only by py2lean_selftest.py
(the translated Lean is run against CPython on random inputs).  Annotations are the selftest's source of Spec types."""
from collections import deque
from typing import Dict, List, NamedTuple, Optional, Set, Tuple

SEP = '@'
TWO = 'ab'
LIMIT = 3
SMALL_INTS = {'s_repeat', 's_ranges', 's_while', 's_recursion', 's_collatz', 's_fuel_call', 's_rec_out', 's_nested_add',
              's_ord_reach', 's_ord_call'}
# selftest: Spec options of samples — opaque callees (passed the translated helper itself), call-shape assumptions,
# parameters only read in an unevaluated message; samples named s_ord_* take the unknown set order `ord`
OPAQUE = {'s_opq_use': ['s_opq_helper']}
ASSUME = {'s_opq_use': {'names': True}}
UNUSED = {'s_opq_fail': ['cols', 'names']}
FUEL = 400           # selftest: the fuel handed to functions translated with explicit fuel


class SampleError(Exception):
    pass


def s_replace(s: str, a: str, b: str) -> str:
    return s.replace(a, b)


def s_split1(s: str) -> List[str]:
    return s.split(SEP)


def s_split2(s: str) -> List[str]:
    return s.split(TWO)


def s_split3(s: str) -> List[str]:
    return s.split('aa')


def s_strips(s: str, cs: str) -> Tuple[str, str, str]:
    return (s.rstrip(cs), s.lstrip(cs), s.strip(cs))


def s_affix(s: str, p: str) -> Tuple[bool, bool, bool]:
    return (s.startswith(p), s.endswith(p), p in s)


def s_join(sep: str, parts: List[str]) -> str:
    return sep.join(parts)


def s_join_chars(s: str) -> str:
    return SEP.join(c for c in s if c != 'a')


def s_str_int(i: int) -> str:
    return str(i) + ':' + str(-i)


def s_index(s: str, xs: List[int], i: int) -> Tuple[str, int]:
    return (s[i], xs[i])


def s_slices(s: str, xs: List[int], a: int, b: int) -> Tuple[str, List[int], List[int], str]:
    return (s[a:b], xs[a:], xs[:b], s[:])


def s_repeat(xs: List[int], s: str, n: int) -> Tuple[List[int], str, List[int]]:
    return (xs * n, s * n, [7] * n)


def s_ranges(a: int, b: int) -> List[int]:
    return list(range(a)) + list(range(a, b)) + list(range(a, b, 2)) + list(range(b, a, -1)) + list(range(a, b, -3))


def s_enum_zip(xs: List[int], ys: List[str]) -> List[Tuple[int, int, str]]:
    out: List[Tuple[int, int, str]] = []
    for i, x in enumerate(xs):
        out.append((i, x, ''))
    for x, y in zip(xs, ys):
        out.append((x, len(y), y))
    return out


def s_arith(a: int, b: int) -> Tuple[int, int, int, int, int, int, int]:
    return (a + b * 2 - 1, a // 7, a % 7, a // -3, a % -3, min(a, b) - max(a, b), abs(a) + sum([a, b]))


def s_divmod(a: int, b: int) -> Tuple[int, int]:
    return (a // b, a % b)


def s_compare(a: int, b: int, s: str, t: str) -> List[bool]:
    return [a < b, a <= b, a > b, a >= b, a == b, a != b, s == t, s != t, not a < b, a < b and s == t,
            a < b or s == t]


def s_truth(s: str, xs: List[int], i: int, o: Optional[str], b: bool) -> List[bool]:
    out: List[bool] = []
    if s:
        out.append(True)
    else:
        out.append(False)
    out.append(True if xs else False)
    out.append(True if i else False)
    out.append(True if o else False)
    out.append(True if o is None else False)
    out.append(True if o is not None else False)
    out.append(True if (s and not xs) or b else False)
    out.append(bool(xs))
    return out


def s_narrow(o: Optional[str], p: Optional[int]) -> str:
    r = 'none' if o is None else o + '!'
    if p is not None:
        r = r + str(p + 1)
    else:
        r = r + '?'
    if p is None:
        return r
    else:
        return r + str(p)


def s_dict(d: Dict[str, int], k: str) -> Tuple[Optional[int], int, bool, int, List[str]]:
    return (d.get(k), d.get(k, -1), k in d, d[k], [x for x in d])


def s_setitem(xs: List[int], i: int, v: int) -> List[int]:
    ys = [x + 1 for x in xs]
    ys[i] = v
    ys.append(v)
    ys.extend(xs)
    ys[0] = ys[-1] + ys[i]
    return ys


def s_loop(xs: List[int]) -> Tuple[int, int, List[int]]:
    total = 0
    count = 0
    seen: List[int] = []
    for x in xs:
        if x < 0:
            continue
        if x > 100:
            break
        total += x
        count = count + 1
        if x in seen:
            total -= 1
        else:
            seen.append(x)
    return (total, count, seen)


def s_find(xs: List[int], v: int) -> Optional[int]:
    for i, x in enumerate(xs):
        if x == v:
            return i
    return None


def s_falloff(xs: List[int]) -> Optional[int]:
    if xs:
        if xs[0] > LIMIT:
            return xs[0]
    elif LIMIT == 3:
        return -1


def s_raise(xs: List[int], s: str) -> int:
    if not xs:
        raise ValueError('empty')
    acc = 0
    for x in xs:
        if x == 13:
            raise SampleError('unlucky ' + s)
        acc = acc * 2 + x
    if s == 'k':
        raise KeyError(s)
    return acc + xs[acc]


def s_condexpr(xs: List[int], i: int, j: int) -> int:
    return xs[i] if i < j else (xs[j] if j != 0 else 0)


def s_nested(xss: List[List[int]]) -> List[int]:
    out: List[int] = []
    for xs in xss:
        m = 0
        for x in xs:
            if x > m:
                m = x
        out.append(m)
    return out


def s_tuple_assign(a: int, b: int) -> Tuple[int, int]:
    x, y = (b, a)
    x, y = (y + 1, x)
    return (x, y)


def s_param_assign(s: str, n: int) -> str:
    s = s.rstrip('\n')
    while_ = n
    if n < 0:
        n = -n
    return s * min(n, 3) + str(while_)


def s_call(s: str, n: int) -> str:
    return s_param_assign(s, n=n) + s_str_int(n)


def s_mapcall(xs: List[int]) -> List[str]:
    return list(map(s_str_int, xs)) + list(map(str, xs))


def s_comp_raise(xs: List[int], ys: List[int]) -> List[int]:
    return [ys[x] for x in xs if x != 2]


def s_optlist(xs: List[Optional[int]]) -> List[int]:
    return [0 if x is None else x + 1 for x in xs]


def s_unicode(s: str) -> List[str]:
    out: List[str] = []
    for c in s:
        if c == 'é' or c == '\x1f' or c == ' ' or c == "'" or c == '"' or c == '\t':
            out.append(c + c)
    return out


# ---- round 2: sets, dicts, out-parameters, fuel, narrowing, formatting, whitespace, sorting
def s_set_ops(xs: List[int], ys: List[int], v: int) -> Tuple[Set[int], Set[int], Set[int], Set[int], List[bool], int, List[int]]:
    a = set(xs)
    b = {y for y in ys if y != 0}
    c = set()
    c.add(v)
    c.update(ys)
    c.add(v)
    e = {v, 1, 1}
    flags = [v in a, v not in b, a == b, a != set(xs + [v]), a <= c, a >= e, a.issubset(xs), a.isdisjoint(b),
             bool(a), a.issuperset(e)]
    return (a | b, a & b, a - b, a.union(ys).difference(e).intersection(c), flags, len(a) + len(c), sorted(a | e))


def s_set_loop(xs: List[int], ys: List[int]) -> Tuple[Set[int], bool, int, Set[str]]:
    src = set(xs)
    keep = set(ys)
    out = set()
    strs = set()
    for x in src:
        if x in keep:
            out.add(x)
            continue
        elif x > 0:
            strs.update([str(x), 'p'])
        out.add(-1)
    return (out, any(x > 3 for x in src), sum(x for x in src if x < 50), strs)


def s_dict_ops(ks: List[str], v: int, k: str) -> Tuple[Dict[str, int], List[Tuple[str, int]], List[str], List[int], Dict[str, int], Dict[int, str], int]:
    d = {}
    for i, x in enumerate(ks):
        d[x] = i
    d.setdefault(k, v)
    d.setdefault('a', -1)
    e = {x: len(x) for x in ks if x != k}
    f = dict((n, s) for s, n in d.items())
    g = {'a': 1, k: 2, 'a': 3}
    d[k] = d[k] + g[k]
    return (d, list(e.items()), list(d.keys()), list(d.values()), e, f, g['a'])


def s_outparam(s: str, n: int, parts: List[str], m: List[int]) -> int:
    parts.append(s)
    m.extend([n] * len(s))
    if n > 3:
        m[0] = n
        return len(m)
    m.append(len(parts))
    return n


def s_outparam_none(x: int, seen: Set[int], d: Dict[int, int]) -> None:
    seen.add(x)
    d[x] = d.get(x, 0) + 1


def s_call_outparam(xs: List[int], s: str) -> Tuple[List[str], List[int], int, Set[int], Dict[int, int]]:
    parts: List[str] = []
    m = [0]
    seen = set()
    d = {}
    total = 0
    for x in xs:
        r = s_outparam(s, x, parts, m)
        total += r
        s_outparam_none(x, seen, d)
        s_outparam(s, len(m), parts, m)
    return (parts, m, total, seen, d)


def s_while(n: int, xs: List[int]) -> Tuple[int, int]:
    i = 0
    acc = 0
    while i < n:
        i += 1
        if i == 7:
            continue
        j = 0
        while j < len(xs):
            if xs[j] == 13:
                break
            acc += xs[j]
            j += 1
        if acc > 100:
            break
    return (i, acc)


def s_collatz(n: int) -> int:
    steps = 0
    while n > 1:
        if n % 2 == 0:
            n = n // 2
        else:
            n = 3 * n + 1
        steps += 1
        if steps > 60:
            return -1
    return steps


def s_recursion(n: int, xs: List[int]) -> int:
    if n <= 0 or not xs:
        return 0
    return xs[0] + s_recursion(n - 1, xs[1:]) + s_recursion(n - 3, xs)


def s_rec_out(n: int, out: List[int]) -> None:
    if n > 0:
        out.append(n)
        s_rec_out(n - 2, out)
        out.append(-n)


def s_fuel_call(n: int) -> Tuple[int, List[int]]:
    acc: List[int] = []
    s_rec_out(n, acc)
    return (s_collatz(n) + s_recursion(n, acc), acc)


def s_queue(xs: List[int]) -> Tuple[List[int], int]:
    agenda = deque(xs)
    order: List[int] = []
    stack = [0]
    while agenda:
        x = agenda.popleft()
        order.append(x)
        if x > 4 and x < 8:
            agenda.extend([x - 3, x - 4])
            stack.append(x)
    top = stack.pop()
    return (order, top + len(stack))


def s_next_iter(xs: List[int], d: Dict[str, int]) -> Tuple[int, str]:
    return (next(iter(xs)), next(iter(d)))


def s_flow_narrow(o: Optional[int], xs: List[Optional[int]]) -> int:
    if o is None:
        return 0
    total = o + 1
    for x in xs:
        if x is None:
            continue
        total += x
        if total > 50:
            break
    return total


def s_narrow_raise(o: Optional[str], n: int) -> str:
    if n > 5:
        if o is None:
            raise SampleError('none')
        return o + '!'
    return 'small'


def s_static_none(s: str, n: int) -> int:
    if s is None:
        return -1
    return n if n is not None else 0


def s_format(a: str, n: int) -> List[str]:
    return ['<{}:{}>'.format(n, a), '{x}-{y}{{}}'.format(x=a, y=n), f'{a}{n}', f'{{{n + 1}}} {a}',
            'plain'.format(), '{} {}'.format(a, a), f'']


def s_split_ws(s: str) -> Tuple[List[str], str, str, str]:
    return (s.split(), s.strip(), s.lstrip(), s.rstrip())


def s_sorted(xs: List[int], ss: List[str]) -> Tuple[List[int], List[str], List[str], List[int], List[int]]:
    return (sorted(xs), sorted(ss), sorted(ss, key=len), sorted(xs, key=abs), sorted(set(xs)))


def s_str_order(a: str, b: str) -> List[bool]:
    return [a < b, a <= b, a > b, a >= b]


def s_any_all(xs: List[int], ss: List[str]) -> List[bool]:
    return [any(x > 2 for x in xs), all(x > 2 for x in xs), any(xs), all(ss), any(s == 'a' for s in ss if s),
            all(x in xs for x in [1, 2])]


def s_comp2(xss: List[List[int]], ss: List[str]) -> Tuple[List[int], List[Tuple[str, str]], Set[int]]:
    return ([x + 1 for xs in xss if xs for x in xs if x != 2], [(s, c) for s in ss for c in s],
            {x for xs in xss for x in xs})


def s_enum_start(xs: List[str], k: int) -> List[Tuple[int, str]]:
    out: List[Tuple[int, str]] = []
    for i, x in enumerate(xs, 1):
        out.append((i, x))
    return out + list(enumerate(xs, start=k))


class SCount(NamedTuple):
    gold: int
    test: int

    def add(self, other: 'SCount') -> 'SCount':
        return SCount(self.gold + other.gold, self.test + other.test)


class SPair(NamedTuple):
    left: SCount
    name: str

    def add(self, other: 'SPair') -> 'SPair':
        return SPair(self.left.add(other.left), name=self.name + other.name)


def s_struct(a: SPair, b: SCount) -> SPair:
    c = SPair(b, 'x').add(a)
    return c.add(SPair(SCount(c.left.test, 1), a.name))


# ---- round 3: opaque callees, unused parameters, call-shape assumptions, unknown set order, d[k].add
def s_opq_helper(k: str, v: Optional[int]) -> int:
    if v is None:
        raise KeyError(k)
    return v + len(k)


def s_opq_fail(cols: List[int], names: List[str]) -> None:
    raise SampleError('{} != {}'.format(len(cols), len(names)))


def s_opq_use(names: List[str], vals: List[Optional[int]]) -> List[int]:
    if names:
        if len(names) != len(vals):
            s_opq_fail(vals, names)
        out = [s_opq_helper(n, v) for n, v in zip(names, vals)]
    else:
        out = [0]
    s_opq_helper('x', 1)
    return out


def s_ord_reach(adj: Dict[int, Set[int]], start: int) -> Set[int]:
    seen = set()
    agenda = [start]
    while agenda:
        x = agenda.pop()
        if x not in seen:
            seen.add(x)
            agenda.extend(y for y in adj.get(x, []) if y not in seen)
    return seen


def s_ord_pairs(xs: Set[int], ys: Set[int]) -> Set[Tuple[int, int]]:
    out: List[Tuple[int, int]] = []
    for x in xs:
        for y in ys:
            if x < y:
                out.append((x, y))
    return set(out)


def s_ord_call(adj: Dict[int, Set[int]], starts: List[int]) -> List[Set[int]]:
    comps = []
    for s in starts:
        c = s_ord_reach(adj, s)
        comps.append(c)
    return comps


def s_nested_add(nodes: List[int], edges: List[Tuple[int, int]]) -> Dict[int, Set[int]]:
    g = {n: set() for n in nodes}
    for a, b in edges:
        g[a].add(b)
        g[b].add(a)
    return g


def s_identity(xs: List[int]) -> List[int]:
    return xs


def s_outparam2(s: str, a: List[int], b: List[int]) -> int:
    a.append(1)
    b.append(2)
    return len(s)


# ---- functions the translator must REFUSE (py2lean.Unsupported); checked by the selftest
def u_alias(xs: List[int]) -> List[int]:
    ys = [x for x in xs]
    zs = ys
    ys.append(1)
    return zs


def u_alias_container(xs: List[int]) -> List[List[int]]:
    ys = [x for x in xs]
    out = [ys]
    ys.append(1)
    return out


def u_try(xs: List[int]) -> int:
    try:
        return xs[0]
    except IndexError:
        return 0


def u_loopvar_after(xs: List[int]) -> int:
    x = 0
    for x in xs:
        pass
    return x


def u_inner_block(b: bool) -> int:
    if b:
        y = 1
    else:
        y = 2
    return y


def u_float(n: int) -> int:
    return int(n / 2)


def u_iter_mutate(xs: List[int]) -> List[int]:
    ys = [x for x in xs]
    for y in ys:
        ys.append(y)
    return ys


def u_lower(s: str) -> str:
    return s.lower()


def u_or_value(s: str, t: str) -> str:
    return s or t


def u_global_obj(s: str) -> int:
    return len(Dict)


def u_chained(a: int, b: int, c: int) -> bool:
    return a < b < c


def u_surrogate(s: str) -> bool:
    return s == '\ud800'


def u_alias_rebind(xs: List[int]) -> List[int]:
    zs = xs
    zs.append(1)
    return xs


def u_alias_call(xs: List[int]) -> List[int]:
    ys = s_identity(xs)
    ys.append(1)
    return xs


def u_return_outparam(xs: List[int]) -> List[int]:
    xs.append(1)
    return xs


def u_outparam_twice(s: str) -> int:
    m = [0]
    s_outparam2(s, m, m)
    return len(m)


def u_outparam_in_expr(s: str) -> int:
    m = [0]
    parts: List[str] = []
    return 1 + s_outparam(s, 2, parts, m)


def u_outparam_rebound(xs: List[int]) -> None:
    xs = xs + [1]
    xs.append(2)


def u_set_list(xs: List[int]) -> List[int]:
    return list(set(xs))


def u_set_loop_order(xs: List[int]) -> List[int]:
    out: List[int] = []
    for x in set(xs):
        out.append(x)
    return out


def u_set_loop_dep(xs: List[int]) -> Set[int]:
    out = set()
    for x in set(xs):
        if len(out) < 2:
            out.add(x)
    return out


def u_set_join(xs: List[str]) -> str:
    return ','.join(set(xs))


def u_set_next(xs: List[int]) -> int:
    return next(iter(set(xs)))


def u_sorted_key_set(xs: List[str]) -> List[str]:
    return sorted(set(xs), key=len)


def u_set_of_lists(xss: List[List[int]]) -> int:
    return len({xs for xs in xss})


def u_dict_eq(a: Dict[str, int], b: Dict[str, int]) -> bool:
    return a == b


def u_list_of_sets_eq(xs: List[int]) -> bool:
    return [set(xs)] == [set(xs)]


def u_format_spec(n: int) -> str:
    return '{:>3}'.format(n)


def u_format_index(n: int) -> str:
    return '{0}{0}'.format(n)


def u_fstring_conv(s: str) -> str:
    return f'{s!r}'


def u_fstring_spec(n: int) -> str:
    return f'{n:03d}'


def u_format_bool(b: bool) -> str:
    return '{}'.format(b)


def u_any_raise(xs: List[int]) -> bool:
    return any(xs[i] > 0 for i in range(3))


def u_while_else(n: int) -> int:
    while n > 0:
        n -= 1
    else:
        n = 5
    return n


def u_comp3(xsss: List[List[List[int]]]) -> List[int]:
    return [x for xss in xsss for xs in xss for x in xs]


def u_sorted_tuples(xs: List[Tuple[int, int]]) -> List[Tuple[int, int]]:
    return sorted(xs)


def u_untyped_empty(n: int) -> int:
    xs = []
    return len(xs) + n


def u_dict_store_shared(xs: List[int]) -> Dict[str, List[int]]:
    d = {}
    d['a'] = xs
    return d


def u_pop_index(xs: List[int], i: int) -> int:
    ys = list(xs)
    y = ys.pop(i)
    return y


def u_ord_missing(adj: Dict[int, Set[int]], start: int) -> Set[int]:
    return s_ord_reach(adj, start)


def u_nested_shared(nodes: List[int], xs: Set[int]) -> Dict[int, Set[int]]:
    g = {n: xs for n in nodes}
    g[0].add(1)
    return g


def u_nested_param(g: Dict[int, Set[int]]) -> None:
    g[0].add(1)
