"""Generic check flow (DESIGN §2.2).

A property harness is a module `harness.cNN` exposing a `Check` subclass instance
named `CHECK`.  This module runs: tables → build → audit → corpus+generated cases
on the implementation → direct oracle → correspondence with the Lean driver →
classification against known_findings.json → failing-input search → report.
"""
import glob
import hashlib
import json
import os
import random
import sys
import time
import traceback

from . import leanrun, paths, tables


class Check:
    pid = "C00"
    level = "proof"
    props_modules = None      # default ["Verif.<pid>.Props"]
    driver = None             # default "Verif/<pid>/Driver.lean"
    build_targets = None      # default props_modules + driver module
    lean_files = None         # files scanned for forbidden tokens; default lean/Verif/<pid>/*.lean
    quick_cases = 500
    thorough_cases = 10000
    search_budget = {"quick": 2000, "thorough": 50000}
    rule = ""
    assumptions = []
    trusted_base = []

    # ---- to override
    def cases(self, rng, tier, n):
        """yield JSON-serialisable case dicts"""
        return []

    def impl(self, case):
        """run the real code; return a canonical JSON-able observation"""
        raise NotImplementedError

    def model_request(self, case):
        """JSON request for the driver, or None when the model does not cover this case"""
        return None

    def model_expected(self, case, impl_res):
        """what the driver's answer is compared with"""
        return impl_res

    def model_compare(self, case, expected, answer):
        """None if equal, else a description"""
        if canon(expected) == canon(answer):
            return None
        return {"expected_from_impl": expected, "model": answer}

    def oracle(self, case, impl_res):
        """direct evaluation of the property on the implementation; list of failure dicts
        {'clause':..., 'detail':...}"""
        return []

    def classify(self, case, failure):
        """id of the known finding this failure is an instance of, or None"""
        return None

    def nontrivial_key(self, case, impl_res):
        """hashable key for distinct non-trivial cases; None = trivial"""
        return json.dumps(case, sort_keys=True)

    def stats(self, case, impl_res, counters):
        k = case.get("kind", "case") if isinstance(case, dict) else "case"
        counters["kind:" + str(k)] = counters.get("kind:" + str(k), 0) + 1

    def search_cases(self, rng, tier, n, seeds):
        """extra cases for the failing-input search; `seeds` are the disagreeing cases"""
        return self.cases(rng, tier, n)

    def shrink(self, case, still_fails):
        """optional delta-debugging; returns a smaller failing case"""
        return case

    def setup(self):
        pass

    def teardown(self):
        pass

    def extra_evidence(self):
        return {}


def canon(x):
    return json.dumps(x, sort_keys=True, ensure_ascii=True)


def load_findings():
    fn = os.path.join(paths.VERIF, "known_findings.json")
    if not os.path.exists(fn):
        return []
    with open(fn, encoding="utf-8") as f:
        return json.load(f).get("findings", [])


def load_corpus(pid):
    out = []
    for fn in sorted(glob.glob(os.path.join(paths.CORPUS, pid, "*.json"))):
        with open(fn, encoding="utf-8") as f:
            d = json.load(f)
        cases = d["cases"] if isinstance(d, dict) and "cases" in d else [d]
        for c in cases:
            out.append((os.path.relpath(fn, paths.VERIF), c.get("case", c) if isinstance(c, dict) else c))
    return out


def write_replay(pid, seed, k, payload):
    os.makedirs(paths.REPLAYS, exist_ok=True)
    fn = os.path.join(paths.REPLAYS, "%s-%s-%d.json" % (pid, seed, k))
    with open(fn, "w", encoding="utf-8") as f:
        json.dump(payload, f, indent=1, sort_keys=True, default=str)
    return os.path.relpath(fn, paths.VERIF)


class CaseTimeout(BaseException):
    """Raised by the per-case alarm: the implementation (or the oracle) did not come back in time."""


_TIMEOUTS_SEEN = [0]


def _case_limit(check):
    """Seconds one implementation run / oracle evaluation of one case may take.  A change that makes the real code loop
    for ever (or blow up exponentially) must become a verdict with the case as replay, not a hanging check; after three
    time-outs the limit drops so that shrinking and the rest of the run stay bounded."""
    # generous: one "case" may be a whole battery (C20's integration block runs a sub-check with thousands of items)
    default = 300.0 if _TIER[0] == "quick" else 1200.0
    base = float(getattr(check, "case_timeout", 0) or os.environ.get("VERIF_CASE_TIMEOUT", default))
    if _TIMEOUTS_SEEN[0] == 0:
        return base
    return max(10.0, base / 5.0) if _TIMEOUTS_SEEN[0] < MAX_TIMEOUTS else max(3.0, base / 20.0)


_TIER = ["quick"]


MAX_TIMEOUTS = 5   # after that many cases without an answer the case loop stops: the verdict and its replay exist


class CaseMemory(BaseException):
    """Raised by the per-case watchdog: the process grew beyond the per-case memory limit."""


def _rss_bytes():
    try:
        with open("/proc/self/statm") as f:
            return int(f.read().split()[1]) * 4096
    except Exception:
        return 0


class _limited(object):
    """Context manager: a one-second watchdog (SIGALRM, main thread only; no-op elsewhere) that raises CaseTimeout once
    `seconds` have passed and CaseMemory once this process's resident size exceeds VERIF_CASE_MEM_GB (default 8), so that
    an endless loop or an exponential blow-up of the real code becomes a verdict with the case as replay.  (An rlimit is
    not used: it would be inherited by the child processes some harnesses start — Lean drivers, stand-in processors.)"""
    def __init__(self, seconds):
        self.seconds = seconds
        self.armed = False
        self.mem = int(float(os.environ.get("VERIF_CASE_MEM_GB", 8)) * (1 << 30))

    def _fire(self, signum, frame):
        if time.time() - self.t0 >= self.seconds:
            raise CaseTimeout()
        if _rss_bytes() > self.mem:
            raise CaseMemory()

    def __enter__(self):
        try:
            import signal
            import threading
            if threading.current_thread() is threading.main_thread():
                self.t0 = time.time()
                self.old = signal.signal(signal.SIGALRM, self._fire)
                signal.setitimer(signal.ITIMER_REAL, min(1.0, self.seconds), 1.0)
                self.armed = True
        except Exception:
            self.armed = False
        return self

    def __exit__(self, *exc):
        if self.armed:
            import signal
            signal.setitimer(signal.ITIMER_REAL, 0)
            signal.signal(signal.SIGALRM, self.old)
        return False


def _limit_memory():
    return None


def _unlimit_memory(old):
    return None


def _safe_impl(check, case):
    lim = _case_limit(check)
    try:
        with _limited(lim):
            return check.impl(case), None
    except CaseTimeout:
        _TIMEOUTS_SEEN[0] += 1
        return None, {"clause": "the implementation does not come back on this input (no answer within the per-case time limit)",
                      "detail": "no result after %.0f s" % lim}
    except (MemoryError, CaseMemory):
        import gc
        gc.collect()
        return None, {"clause": "the implementation exhausts memory on this input",
                      "detail": "the process grew beyond the per-case memory limit"}
    except Exception as e:   # an exception escaping the harness's own mapping
        return None, {"clause": "harness: unexpected exception from implementation run",
                      "detail": "%s: %s" % (type(e).__name__, e),
                      "trace": traceback.format_exc()[-1500:]}


class _Crashed(object):
    """Marks 'the implementation runner itself crashed' (≠ a legitimate None result)."""
    def __repr__(self):
        return "<implementation runner crashed>"

    def __bool__(self):
        return False


CRASHED = _Crashed()


def evaluate(check, case):
    """impl + oracle on one case → (impl_res, failures)"""
    res, crash = _safe_impl(check, case)
    if crash is not None:
        return CRASHED, [crash]
    try:
        with _limited(_case_limit(check)):
            fails = list(check.oracle(case, res) or [])
    except CaseTimeout:
        _TIMEOUTS_SEEN[0] += 1
        fails = [{"clause": "the implementation does not come back on this input (the direct oracle, which calls the real "
                            "code, got no answer within the per-case time limit)", "detail": "time limit"}]
    except (MemoryError, CaseMemory):
        fails = [{"clause": "the implementation exhausts memory on this input", "detail": "memory limit reached in the oracle's calls"}]
    except Exception as e:
        fails = [{"clause": "harness: oracle raised", "detail": "%s: %s" % (type(e).__name__, e),
                  "trace": traceback.format_exc()[-1500:]}]
    return res, fails


def run(check, tier, seed):
    t0 = time.time()
    pid = check.pid
    props_modules = check.props_modules or ["Verif.%s.Props" % pid]
    driver = check.driver or "Verif/%s/Driver.lean" % pid
    driver_mod = driver[:-5].replace("/", ".")
    targets = check.build_targets or (props_modules + [driver_mod])
    lean_files = list(check.lean_files or sorted(glob.glob(os.path.join(paths.LEAN, "Verif", pid, "*.lean"))))
    if getattr(check, "translations", None) is not None:
        # the translation layer: runtime library, its lemmas and the regenerated file are scanned for forbidden tokens too
        for fn in (sorted(glob.glob(os.path.join(paths.LEAN, "Verif", "Common", "PyRt*.lean")))
                   + [os.path.join(paths.LEAN, "Verif", "Generated", "Trans%s.lean" % pid)]):
            if fn not in lean_files:
                lean_files.append(fn)
    findings = [f for f in load_findings() if f.get("property") == pid]
    known_ids = {f["id"] for f in findings if f.get("status") == "known"}
    _TIER[0] = tier
    n_cases = check.quick_cases if tier == "quick" else check.thorough_cases
    rng = random.Random(seed)
    broken = []            # proof obligations / correspondence that no longer check
    log = []

    # 1. tables
    try:
        changed = tables.generate()
    except Exception as e:
        print("INFRA-ERROR: tables: %s" % e)
        traceback.print_exc()
        return 2
    try:
        changed = tables.generate_for(check) or changed
        if changed:
            log.append("Generated/Tables.lean changed")
    except Exception as e:
        # The per-property table reads the constants the model mirrors from the live code objects.  If an object it
        # pins is gone or has another shape, the tie "model constants = code constants" no longer checks: that is a
        # broken obligation (reported, with a failing-input search), not an infrastructure error.  The previously
        # generated table stays in place for the build.
        broken.append({"pins": "harness/%s.py tables() cannot read the pinned constants from the code: %s: %s"
                               % (pid.lower(), type(e).__name__, str(e)[:500])})
        log.append("tables() failed: %s" % e)
    try:
        if tables.generate_translations(check):
            log.append("Generated/Trans%s.lean changed" % pid)
    except Exception as e:
        # The translator (harness/common/py2lean.py) could not translate the current source text of a function the
        # property's Translated.lean ties to the model: the tie "translated source = model" no longer checks.  A broken
        # obligation (reported, with a failing-input search), not an infrastructure error; the previous translation
        # stays in place for the build.
        broken.append({"translation": "harness/%s.py translations() cannot translate the current source: %s: %s"
                                      % (pid.lower(), type(e).__name__, str(e)[:500])})
        log.append("translations() failed: %s" % e)

    # 2. build
    build_ok, build_log, build_s = leanrun.lake_build(targets)
    if not build_ok:
        for b in leanrun.broken_theorems(build_log, props_modules) or ["lake build failed"]:
            broken.append({"theorem": b})
        log.append("lake build failed:\n" + build_log[-3000:])

    # 3. audit
    aud = {"obligations": 0, "discharged": 0, "bad": [], "missing": [], "theorems": []}
    forb = leanrun.forbidden_tokens(lean_files)
    if build_ok:
        try:
            aud = leanrun.audit(pid, props_modules)
        except Exception as e:
            broken.append({"theorem": "audit failed: %s" % e})
        for q, ax in aud["bad"]:
            broken.append({"theorem": "%s uses axioms %s" % (q, ax)})
        for q in aud["missing"]:
            broken.append({"theorem": "%s: no #print axioms output" % q})
    for h in forb:
        broken.append({"theorem": "forbidden token " + h})
    checker = None
    if build_ok and tier == "thorough":
        try:
            ok, out = leanrun.leanchecker(props_modules)
            checker = "ok" if ok else "FAILED"
            if not ok:
                broken.append({"theorem": "leanchecker rejected %s: %s" % (props_modules, out[-500:])})
        except Exception as e:
            checker = "not run: %s" % e
    if build_ok and aud["obligations"] == 0:
        broken.append({"theorem": "no theorems found in %s" % props_modules})

    # 4./5. cases: corpus first, then generated
    check.setup()
    _mem_old = _limit_memory()
    try:
        all_cases = [(src, c) for src, c in load_corpus(pid)]
        n_corpus = len(all_cases)
        for c in check.cases(rng, tier, n_cases):
            all_cases.append(("gen", c))
        counters = {}
        nontrivial = set()
        results = []
        oracle_fail = []      # (idx, failure)
        loop_t0 = time.time()
        loop_budget = float(os.environ.get("VERIF_CASE_LOOP_BUDGET", 600 if tier == "quick" else 10800))
        for idx, (src, case) in enumerate(all_cases):
            if oracle_fail and time.time() - loop_t0 > loop_budget:
                # far beyond any run on the unchanged tree (quick tiers take 1–2 minutes): the real code has become
                # pathologically slow on the generated inputs; failures have been seen, so stop and report them
                log.append("case loop stopped after %.0f s (budget %.0f s) at case %d of %d"
                           % (time.time() - loop_t0, loop_budget, idx, len(all_cases)))
                del all_cases[idx:]
                break
            if _TIMEOUTS_SEEN[0] >= MAX_TIMEOUTS:
                # the real code no longer comes back on several inputs: stop evaluating, keep what was seen
                log.append("case loop stopped after %d time-outs at case %d of %d" % (MAX_TIMEOUTS, idx, len(all_cases)))
                del all_cases[idx:]
                break
            res, fails = evaluate(check, case)
            results.append(res)
            for f in fails:
                oracle_fail.append((idx, f))
            try:
                check.stats(case, None if res is CRASHED else res, counters)
                k = check.nontrivial_key(case, None if res is CRASHED else res)
                if k is not None:
                    nontrivial.add(hashlib.sha1(str(k).encode("utf-8", "replace")).digest())
            except Exception:
                pass

        _unlimit_memory(_mem_old)   # the Lean driver is a child process: lift the limit before starting it
        _mem_old = None
        # correspondence
        disagreements = []
        reqs = []
        req_idx = []
        for idx, (src, case) in enumerate(all_cases):
            if results[idx] is CRASHED:
                continue
            r = check.model_request(case)
            if r is not None:
                reqs.append(r)
                req_idx.append(idx)
        model_ran = False
        if reqs:
            try:
                answers = leanrun.run_driver(driver, reqs)
                model_ran = True
                for idx, ans in zip(req_idx, answers):
                    case = all_cases[idx][1]
                    d = check.model_compare(case, check.model_expected(case, results[idx]), ans)
                    if d is not None:
                        disagreements.append((idx, d))
            except Exception as e:
                broken.append({"correspondence": "driver did not run: %s" % str(e)[:1500]})
        if disagreements:
            broken.append({"correspondence": "%d of %d cases disagree between model and implementation"
                           % (len(disagreements), len(reqs))})

        # 6. classify
        violations = []        # (case, failure)
        known_seen = {}
        n_known = 0
        for idx, f in oracle_fail:
            case = all_cases[idx][1]
            fid = None
            try:
                fid = check.classify(case, f)
            except Exception:
                fid = None
            if fid is not None and fid in known_ids:
                known_seen.setdefault(fid, (case, f))
                n_known += 1
            else:
                violations.append((case, f, all_cases[idx][0]))

        # failing-input search when something is broken but no violation seen yet
        searched = 0
        if broken and not violations:
            budget = check.search_budget.get(tier, 2000)
            srng = random.Random(seed * 7919 + 13)
            seeds = [all_cases[i][1] for i, _ in disagreements[:50]]
            try:
                for case in check.search_cases(srng, tier, budget, seeds):
                    searched += 1
                    res, fails = evaluate(check, case)
                    bad = [f for f in fails if not (check.classify(case, f) in known_ids)]
                    if bad:
                        violations.append((case, bad[0], "search"))
                        break
                    if searched >= budget:
                        break
            except Exception as e:
                log.append("search raised: %s" % e)

        # 7. report
        exit_code = 0
        for fid, (case, f) in sorted(known_seen.items()):
            what = next((x.get("what", "") for x in findings if x.get("id") == fid), "")
            print("KNOWN-FINDING: property=%s %s %s" % (pid, fid, what))
        k = 0
        reported = set()
        for case, f, src in violations:
            key = str(f.get("clause"))
            if key in reported:
                continue
            reported.add(key)
            shrink_deadline = time.time() + float(os.environ.get("VERIF_SHRINK_BUDGET", 120))

            def _still_fails(c, _key=key, _deadline=shrink_deadline):
                if time.time() > _deadline:      # shrinking is a convenience: never let it run away
                    return False
                return any(str(ff.get("clause")) == _key and not (check.classify(c, ff) in known_ids)
                           for ff in evaluate(check, c)[1])
            try:
                small = check.shrink(case, _still_fails)
            except Exception:
                small = case
            res, fails = evaluate(check, small)
            payload = {"property": pid, "seed": seed, "tier": tier, "source": src, "case": small,
                       "implementation_returned": (None if res is CRASHED else res), "failures": fails, "broken": broken}
            path = write_replay(pid, seed, k, payload)
            k += 1
            print("VIOLATION property=%s replay=%s" % (pid, path))
            exit_code = 1
            if k >= 5:
                break
        if broken and not violations:
            payload = {"property": pid, "seed": seed, "tier": tier, "broken": broken,
                       "disagreements": [{"case": all_cases[i][1], "diff": d} for i, d in disagreements[:5]],
                       "searched": searched, "log": log,
                       "note": "a proof obligation or the model/implementation correspondence no longer "
                               "checks; no input on which the property fails was found"}
            path = write_replay(pid, seed, k, payload)
            print("VIOLATION property=%s replay=%s no-failing-input-found" % (pid, path))
            exit_code = 1

        # evidence
        samples = [all_cases[i][1] for i in range(n_corpus, min(len(all_cases), n_corpus + 3))]
        if not samples:
            samples = [c for _, c in all_cases[:3]]
        cov = {
            "obligations": aud["obligations"],
            "discharged": aud["discharged"],
            "checker_cmd": "cd lean && lake build %s && lake env lean Audit/%s.lean  (#print axioms on every theorem)"
                           % (" ".join(targets), pid),
            "trusted_base": ["Lean 4.33.0 kernel", "axioms allowed: propext, Classical.choice, Quot.sound"]
                            + list(check.trusted_base),
            "theorems": aud["theorems"],
            "evaluations": len(all_cases) + searched,
            "distinct_nontrivial": len(nontrivial),
            "rule": check.rule,
            "samples": samples,
            "programs": len(reqs),
            "disagreements_checked": len(disagreements),
            "model_ran": model_ran,
            "corpus_cases": n_corpus,
            "oracle_failures_known": {k_: 1 for k_ in known_seen},
            "distribution": counters,
            "leanchecker": checker,
            "build_ok": build_ok,
            "build_s": round(build_s, 1),
            "broken": broken,
            "search_evaluations": searched,
        }
        cov.update(check.extra_evidence() or {})
        ev = {
            "property_id": pid, "tier": tier, "seed": seed, "level": check.level,
            "coverage": cov, "assumptions": list(check.assumptions),
            "wall_s": round(time.time() - t0, 2), "violations": k if exit_code else 0,
        }
        os.makedirs(paths.EVIDENCE, exist_ok=True)
        with open(os.path.join(paths.EVIDENCE, "%s.json" % pid), "w", encoding="utf-8") as f:
            json.dump(ev, f, indent=1, sort_keys=True, default=str)
        print("%s tier=%s seed=%s: %d theorems (%d audited ok), %d cases (%d corpus), %d model comparisons, "
              "%d disagreements, %d oracle failures (%d known), %.1fs"
              % (pid, tier, seed, aud["obligations"], aud["discharged"], len(all_cases), n_corpus, len(reqs),
                 len(disagreements), len(oracle_fail), n_known, time.time() - t0))
        return exit_code
    finally:
        _unlimit_memory(_mem_old)
        check.teardown()


def replay(check, path):
    with open(path, encoding="utf-8") as f:
        payload = json.load(f)
    if "case" not in payload:
        print("replay file names a broken obligation, no input:", json.dumps(payload.get("broken"), indent=1))
        return 1
    case = payload["case"]
    check.setup()
    try:
        res, fails = evaluate(check, case)
        print("case:", json.dumps(case)[:2000])
        print("implementation:", json.dumps(res, default=str)[:2000])
        req = check.model_request(case)
        if req is not None and res is not CRASHED:
            driver = check.driver or "Verif/%s/Driver.lean" % check.pid
            try:
                ans = leanrun.run_driver(driver, [req])[0]
                print("model:", json.dumps(ans)[:2000])
            except Exception as e:
                print("model: driver failed:", e)
        for f in fails:
            print("FAIL:", json.dumps(f, default=str)[:2000])
        return 1 if fails else 0
    finally:
        check.teardown()
