import os
import sys

VERIF = os.path.dirname(os.path.dirname(os.path.dirname(os.path.abspath(__file__))))
LEAN = os.path.join(VERIF, "lean")
REPO = os.environ.get("VERIF_REPO", "/repo")
EVIDENCE = os.environ.get("VERIF_EVIDENCE_DIR") or os.path.join(VERIF, "evidence")
REPLAYS = os.environ.get("VERIF_REPLAYS_DIR") or os.path.join(VERIF, "replays")
CORPUS = os.path.join(VERIF, "corpus")
GUARD = "DELPH_IN_PYDELPHIN_VERIF"


def ensure_repo_on_path():
    """Import delphin from /repo's working tree, never from site-packages."""
    os.environ.setdefault(GUARD, "1")
    if REPO not in sys.path:
        sys.path.insert(0, REPO)
    sys.dont_write_bytecode = True
    import delphin
    f = os.path.abspath(delphin.__path__[0] if hasattr(delphin, '__path__') else delphin.__file__)
    if not f.startswith(os.path.abspath(REPO) + os.sep):
        raise RuntimeError("delphin imported from %s, not from %s" % (f, REPO))
