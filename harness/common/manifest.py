"""Regenerate MANIFEST.json from the per-property declarations below (keeps it valid at all times)."""
import json
import os

from . import paths

PROPS = ["C%02d" % i for i in range(1, 21)]

from .claims import CLAIMS  # pid -> dict(text, note, technique, design_ref)


def build():
    checks = []
    na = []
    for pid in PROPS:
        c = CLAIMS.get(pid)
        if not c:
            na.append({"property_id": pid,
                       "reason": "check not built yet in this round (no model/theorems committed); "
                                 "nothing is claimed for it"})
            continue
        checks.append({
            "property_id": pid,
            "quick_cmd": "./check %s --tier quick" % pid,
            "thorough_cmd": "./check %s --tier thorough" % pid,
            "evidence_file": "evidence/%s.json" % pid,
            "replay_cmd_template": "./check replay {path}",
            "engine": "lean4-model+correspondence",
            "level_claimed": {"category": "proof", "text": c["text"], "design_ref": c["design_ref"]},
            "level_note": c["note"],
            "technique": c["technique"],
        })
    man = {
        "version": 1,
        "setup_cmd": "./setup.sh",
        "hooks": {
            "guard": paths.GUARD,
            "enable": "export %s=1 (set by ./check); no hook is currently needed: every observation point is public API" % paths.GUARD,
            "baseline_off_cmd": "cd /repo && env -u %s /venv/bin/python -m pytest -ra -q -p no:cacheprovider --timeout=900 --continue-on-collection-errors" % paths.GUARD,
            "source_commits": [],
            "add_only": True,
        },
        "engines": [{
            "name": "lean4-model+correspondence",
            "path": "lean/ (Lean 4 library Verif: models, theorems, drivers), harness/ (Python correspondence + oracle), check",
            "serves_properties": [c["property_id"] for c in checks],
            "kind_free_text": "machine-checked proof in Lean 4 over hand-written executable models; the models are tied to "
                              "/repo by a differential correspondence run through line-protocol drivers, by tables "
                              "regenerated from the live Python objects on every run, and — for the functions listed "
                              "in TRANSLATOR.md — by Lean definitions regenerated from the Python source text on every "
                              "run (harness/common/py2lean.py) and proved equal to the model functions",
        }],
        "checks": checks,
        "notes": "See DESIGN.md. Exit codes: 0 held, 1 VIOLATION, 2 infrastructure error/time-out. "
                 "Known findings are listed in known_findings.json.",
        "not_applicable": na,
    }
    with open(os.path.join(paths.VERIF, "MANIFEST.json"), "w", encoding="utf-8") as f:
        json.dump(man, f, indent=1)
        f.write("\n")
    return man


if __name__ == "__main__":
    m = build()
    print("claimed:", [c["property_id"] for c in m["checks"]])
