"""Per-property claims that go into MANIFEST.json (edit here, then `python -m harness.common.manifest`)."""
CLAIMS = {}


def claim(pid, text, note, technique, design_ref):
    CLAIMS[pid] = dict(text=text, note=note, technique=technique, design_ref=design_ref)


claim("C08",
      text="24 Lean 4 theorems (incl. pins of the date regexes and constants read from the code objects) over a model of tsdb.escape/unescape/split/join/cast/format and itsdb.Row state the encoding "
           "clauses for every string, record, integer and date-time: unescape∘escape = id and escape∘unescape = id on the image, "
           "unescape succeeds exactly on well-escaped text, no raw newline/delimiter in an escaped value, injectivity, "
           "split∘join = id modulo ''/None (with and without the trailing newline), exactly n-1 delimiters, join injective; "
           "cast(format(i)) = i for every Int; parseDate(formatDate t) = t for every calendar-valid instant with year 1000-9999 "
           "(through the two date regexes, _date_fix and the strptime acceptance model); row access by index (any sign), slice "
           "(any start/stop/step), name and iteration all equal the cast of the stored raw data. The model is tied to the code by "
           "running both on >10k generated inputs per run (exhaustive over the special alphabet up to length 4/5, every documented "
           "date spelling of boundary instants) and by escape/month tables regenerated from the live module. 'All documented date spellings "
           "denote the same instants' is proved for an explicit spelling family (spellings_agree: order DMY/YMD, day absent/plain/"
           "zero-padded, month numeric plain/padded or a three-letter name in all 8 letter cases, year 4 digits or 2 digits for "
           "1993-2092 in DMY order, time absent/HH:MM/HH:MM:SS bare or parenthesised after one or more spaces), compositionally "
           "through the two date regexes, _date_fix and the strptime acceptance model. The float clause is outside any model "
           "(CPython repr) and is decided by a direct oracle only.",
      note="Trusted: Lean kernel + propext/Classical.choice/Quot.sound; the hand-written model (validated only on generated "
           "inputs); Python harness and its naive oracle. Not modelled: float repr, non-ASCII int()/date spellings ('unmodelled' "
           "answers are not compared), the strptime library (acceptance model compared on all generated spellings).",
      technique="Lean 4 proof over executable model + differential correspondence with the Python implementation",
      design_ref="DESIGN.md §5 C08")

claim("C16",
      text="Proved in Lean 4 (17 theorems, incl. c16_pins: the UDF regex text, flags and group order, field tuples, format strings, constants, operation names and defaults of the anchored functions read from the live code) for all trees of the model of delphin.derivation: from_string(to_udf(t)) returns the "
           "tree (UDX) or the tree without head marks and types (plain UDF) for every WF tree accepted by the top check, every "
           "indentation — end to end, including the character-level emulation of _udf_re.finditer (terminal alternative first, "
           "node header, branch end, root) proved to yield exactly the expected match list on serialized text (scan_serialized), "
           "the explicit stack of _from_string, entity decoding, integer parsing and token recovery; parsing text written at one "
           "indentation and writing it at another gives the original's text (udf_text_roundtrip); the dictionary round trip at "
           "full strength (head mark and type on any node including the top) and its stability; terminals, preterminals and "
           "internals partition the nodes; in the rebuilt tree every terminal and non-root node names as its parent the node it "
           "was appended to (parent_spec); a derivation returned by from_dict has no root below the top when every entry below "
           "the top carries an id.",
      note="The model (incl. the regex emulation) is tied to the code only by the correspondence run, which compares the driver's "
           "scan with the real _udf_re.finditer match list, and fromString/toDict/fromDict/navigation lists with the real "
           "functions, on every generated text. Scores are carried as printed text; '{:g}', non-ASCII int()/float() spellings, "
           "negative token ids, object identity, is_head() and parent pointers set by _from_dict are checked by the direct oracle "
           "only. WF/DictOK/Shape restrict to what the formats can express.",
      technique="Lean 4 proof over executable model + differential correspondence with the Python implementation",
      design_ref="DESIGN.md §5 C16")

claim("C07",
      text="Proved in Lean 4 (36 theorems incl. c07_pins) for all inputs of the model (shared semantic core Verif/Common/Sem.lean): is_connected equals "
           "connectivity of the predication/label/variable graph (BFS correctness, start-independent); the intrinsic-variable "
           "tests equal their definitions; is_well_formed is exactly the conjunction; the scope map partitions the predications "
           "by label and the top label is the resolved top; conjoin yields exactly the connected components of the label "
           "equalities; descendants and representatives terminate on every MRS (fuel sufficiency) and every representative is a "
           "member of its scope; for DMRS with distinct node ids the top scope is the unique scope containing the node whose id "
           "is top (code after the F07 fix). Existence of a representative is proved only under acyclicity of the in-scope "
           "blocking relation; the unrestricted clause is false of the code (F08: decide-checked counter-example, known finding). "
           "Round 5, the DMRS half: DMRS.arguments/scopal_arguments/descendants/representatives are modelled (MOD links skipped, H/HEQ as "
           "handle-typed scopal edges, KeyError/AssertionError outcomes) and proved: dmrsSameScopeIff (two nodes share a scope iff their "
           "ids are connected by EQ links, for cycles, parallel links and self loops), dmrsTopScopeClass (the top scope is the class of "
           "the node whose ID is top even when other nodes compare equal), dmrsDescendantsTerminate, dmrsRepresentativesTerminate, "
           "dmrsDescendantsTotal, dmrsRepresentativesSubset.",
      note="plausibly_scopes has no definition in the property; it is modelled line by line, compared with the code, and re-stated "
           "naively in the oracle. Assumed: variables are (sort, canonical id); EP ids distinct (proved when every ARG0 has a sort "
           "other than '_'; otherwise the driver answers 'unmodelled'); Python set order and the recursion limit are not modelled; "
           "node order inside a conjoined DMRS scope is Python set order, so the DMRS descendants/representatives functions take the scope map the real d.scopes() returned as a parameter (also compared, as a partition, with the model's own scopes); id-based oracle clauses are judged only when the real EP ids are pairwise distinct (the property's input space). Tie: 4.7k model/implementation comparisons per quick "
           "run, 141k per thorough run. Trusted: Lean kernel + 3 standard axioms, the hand-written model, harness and oracle.",
      technique="Lean 4 proof over executable model + differential correspondence with the Python implementation",
      design_ref="DESIGN.md §5 C07")

claim("C18",
      text="Lean 4 theorems over a model of edm.compute including triple extraction from EDS and DMRS structures prove, for all "
           "lists with None entries and unequal lengths, both flag settings and all weights, that the scores are the zero-safe "
           "ratios of the weighted sums of gold, test and multiset-intersection triple counts over exactly the counted pairs; the "
           "Counter formula is proved equal to an independently defined multiset intersection. Proved consequences for "
           "non-negative weights: scores in [0,1], no division by zero, identical lists score 1 when they contain a positively "
           "weighted triple, exchanging gold and test swaps precision and recall, invariance under injective renaming and under "
           "reordering of nodes and links. The model is tied to the code by exact comparison of _accumulate totals and Fraction "
           "scores on 4.4k cases per quick run (42k thorough).",
      note="Trusted: Lean kernel + propext/Classical.choice/Quot.sound; the hand-written model (validated on generated inputs "
           "only); the Python harness and its naive oracle; the injective spelling of EDS ids. Not modelled: IEEE float rounding "
           "(oracle only, 1e-9 relative against the exact rational). Outside the property's input space (duplicate ids, links "
           "starting at no node, negative weights): correspondence only.",
      technique="Lean 4 proof over executable model + differential correspondence with the Python implementation",
      design_ref="DESIGN.md §5 C18")

claim("C04",
      text="Proved (28 theorems in three props modules, incl. pins of the module constants and the constants of 25 anchored functions) over a hand-written Lean model of dmrs.from_mrs and mrs.from_dmrs (on the shared semantic core), for all MRSs "
           "with pairwise distinct EP identifiers: every link is justified by the source (role of the start predication; target "
           "is the argument's predication or the first representative of the selected scope; EQ/NEQ by label identity, H for a "
           "handle constraint, HEQ for a direct label; MOD/EQ between representatives of one scope) with no well-formedness "
           "hypothesis; node/top/index shape; preservation of the predication sequence by the round trip; totality when the top "
           "scope has a representative, with a kernel-checked counter-example (F08, known finding) for well-formed input without "
           "one. Round 2, for every choice of scope labels by conjoin: the round trip preserves top and index "
           "(same predication by position), the MRS coming back has distinct EP ids, non-scopal arguments, scopal arguments with "
           "their handle constraints and label sharing are preserved per position. Round 3: the second conversion is stable (same "
           "nodes, top, index, set of links; second_conversion_stable) from hypotheses on the source MRS alone, the positional "
           "agreement of representatives (RepsAgree) being now a theorem (repsAgree_of_space) and no longer a run-time flag. Round 4: the single variable map (roundtrip_iso_partial: "
           "there is an injective, sort-preserving f with IsoVia f (strip m) m2, mapping labels, arguments role by role, handle "
           "constraints, top, index and intrinsic-variable properties) is proved for the whole named in-space class: roundtrip_iso — for every MRS satisfying InSpace (15 decidable "
           "hypotheses evaluated per generated case: BaseIdsDistinct, RolesOk, IVSorts, RstrLinked, ScopesHeld, HandleSorts, TopOk, "
           "QeqOnly, ArgsLinked, NoCargRole, OneConstraint, NoConstrainedLabel, HolesOnce, QuantBody, QuantHead) and every choice of "
           "scope labels, MRS→DMRS→MRS equals strip m renamed by one injective sort-preserving variable map, holes and "
           "quantifier-bound variables included; roundtrip_iso_needs_O1 (decide-checked) shows that without QuantHead (each "
           "quantifier binds the first representative of its restriction) no such map exists because the quantifier is rebound. The "
           "direct oracle on the real code (mrs.is_isomorphic plus an independent bijection search) decides the same clause on every "
           "generated case.",
      note="The stability theorem holds under BaseIdsDistinct, RolesOk (no role named MOD), IVSorts (x/e/i/p/u), RstrLinked, "
           "ScopesHeld (every scope connected by EQ links: fails exactly on the F08 class) and NoDescArg (no predication takes a "
           "scopal descendant of a scope-mate as non-scopal argument: false on about 1% of generated in-space cases, which are "
           "covered by second_conversion_stable_partial with the RepsAgree flag evaluated by the driver); all are decidable and "
           "evaluated on every generated case. Not proved: the single variable bijection "
           "with strip m (oracle on generated well-formed inputs with qeq constraints, quantifiers binding the head of their "
           "restriction). Set iteration order in conjoin is a parameter of the model; warnings are not "
           "observed. Trusted: Lean kernel + 3 standard axioms, the hand-written model (4k comparisons per quick run), harness, oracle.",
      technique="Lean 4 proof over executable model + differential correspondence with the Python implementation",
      design_ref="DESIGN.md §5 C04")

claim("C05",
      text="Proved for the Lean model of eds.from_mrs (18 theorems, incl. c05_pins: module constants, the variable regex and the constants/defaults of 22 anchored functions read from the live code; _mrs_get_top, _mrs_args_to_basic_deps, _mrs_to_nodes, "
           "find_predicate_modifiers, make_ids_unique, on the shared model of MRS/_uniquify_ids/scope.representatives/"
           "_connected_components): one node per predication in order with its data (any configuration, incl. a user-supplied "
           "predicate-modifier function); every edge ends at a node and is a BV edge quantifier→quantifiee, an edge justified "
           "by an argument (intrinsic variable, label, or hcons-constrained hole), or, with predicate modifiers on, an ARG1 edge "
           "between two same-label predications not connected in the graph without modifiers; a top, when present, is a node; "
           "node ids are pairwise distinct for both unique_ids settings (LKB-style ids; the unique_ids=True result is an "
           "injective renaming of the other); a quantifier of a quantified predication has exactly one BV edge, to that "
           "predication; totality: no error and no warning in all four configurations for well-formed input in which every "
           "selected scope has a representative (HasReps) — without HasReps totality is false of the code (F08: decide-checked "
           "counter-example, known finding); the result satisfies the native EDS codec's expressibility precondition.",
      note="Hypotheses forced and shown necessary by decide-checked counter-examples: NoReserved (no ARG0 of sort '_'/'q'), the "
           "intrinsic-variable property, at most one quantifier per variable (for 'exactly one BV edge'), HasReps (for "
           "totality). Input space of the oracle = is_well_formed plus at most one quantifier per variable, variables of an "
           "alphabetic sort. Native/JSON/PENMAN round trip of the result: direct oracle only. A user function is represented by "
           "the mapping it returns.",
      technique="Lean 4 proof over executable model + differential correspondence with the Python implementation",
      design_ref="DESIGN.md §5 C05")

claim("C12",
      text="Proved in Lean 4 (56 theorems in two props modules, incl. pins of the source constants) for all profiles, schemas, filter outcomes and flag combinations of the model of "
           "commands.mkprof: a profile made from a source profile holds, per copied relation, exactly the selected rows in order, "
           "with cells unchanged up to the field default and by-name remapping under a different schema; uncopied relations are "
           "empty; the skeleton/full file-presence rules hold; in-place refresh preserves rows; text input gives one item per line "
           "with the '*' mark handled; a well-formed source never fails. The filter clause is proved exactly under 'no identical "
           "rows adjacent among the satisfying rows'; that hypothesis is shown necessary with decide-checked counter-examples "
           "(F20, known finding: _tsql_distinct merges adjacent identical rows). Round 2: exact cell content for text input (i-id = "
           "line number unless given, i-wf = 0 iff the line starts with '*', i-length = word count against the generated isspace "
           "table, duplicate ids rejected, header handling per delimiter); refresh is total and preserves rows without a success "
           "hypothesis; the join plan (pivots, reachability in the key-sharing graph) is modelled and the all-rows fallback is "
           "characterised (no key path from the table to a relation of the filter ⇒ all rows copied). Round 4, by composition with the "
           "neighbouring models (imported, not edited): the filter IS C11's select on the source database (selectC; select_star_grouped "
           "derived from C11's join theorems: the rows of the copied relation in stored order, once per satisfying joined tuple; "
           "selectRowsC_exact_partial, selectRowsC_fallback, mkprofDbC_filtered end to end) and the writing side IS C09's "
           "write/write_database with C08 records (refreshC_preserves from writeDb_readRaw; writeC_reads_back, mkprofDbC_relation).",
      note="Only compared, not proved: the tie between the model and commands.mkprof (2.7k generated cases per quick run, 30k "
           "thorough). The harness's nested-loop evaluator is the ORACLE only since round 4 (it remains a model parameter only in the "
           "driver's fallback for malformed filter text and one unmodelled date spelling; counts in coverage.model_paths; text-input "
           "cases use the round-1 model); re.search stays a parameter as in C11; files are row lists "
           "with logical mtimes, gzip is the identity; schemas key-consistent with plain identifiers; "
           "no date literals in filters; source and destination directories distinct.",
      technique="Lean 4 proof over executable model + differential correspondence with the Python implementation",
      design_ref="DESIGN.md §5 C12")

claim("C09",
      text="Lean theorems (45, incl. pins of the source constants) over an executable model of tsdb.write/_get_paths/write_database (raw and typed/autocast sources, the latter through C08's cast/format) prove, for all histories and all "
           "start states (including both physical forms with arbitrary mtimes), that the read equals the last overwrite followed "
           "by the accepted later appends, and that exactly one file exists after any accepted write, compressed iff requested "
           "and non-empty (so stale data cannot resurface). They also prove that failed writes change nothing, that "
           "write_database (in place or not, with or without a new schema) gives every written relation exactly the pre-call "
           "source records remade by column name, and that no file remains for unwritten target-schema relations. The results "
           "are lifted to records through C08's split/join round trip. Round 2 (31 theorems in all): the relations file written by "
           "write_database/initialize_database is read back as exactly the target schema (names, datatypes, flags, comments) for "
           "schemas over identifiers, incl. one-character relation names, proved at line level against a hand-coded model of the "
           "two _parse_schema patterns; the stored text is split at \\n only in both physical forms, so string values containing "
           "CR, NUL, VT, FF etc. survive, proved for all strings. Round 5: the relations file is modelled as CHARACTER text (the "
           "str.splitlines and white-space sets incl. their Unicode members): readSchema (writeSchema s) = s for an explicit decidable "
           "predicate schemaOkB whose clauses are each shown necessary by a decide-checked witness (schemaOk_clauses_needed), text "
           "stability, and written_database_reopens (the written directory's relations text is exactly writeSchema target; re-opening "
           "yields the target schema); the raw, autocast and three column-selecting reading interfaces are model functions proved to "
           "return the projection/cast of the raw read (getitem_reads_open, autocast_is_cast_of_raw, select_is_projection, "
           "select_cast_is_projection_then_cast, select_auto_is_projection) and compared with the code after every step.",
      note="The model abstracts the file system: a relation is two optional line lists with logical mtimes, gzip is the identity, "
           "no crash points. Tied to the code by the correspondence run (4209 cases quick incl. exhaustive histories up to length "
           "3 over 6 start states; 34085 thorough). 'A rejected request changes nothing' holds in the model by construction; on "
           "the real code it is checked by a byte digest after every rejected step. The equivalence schemaOkB <-> round trip is "
           "established on 16 witnesses only (the direction schemaOkB -> round trip is proved); the word-character class is ASCII. 'Preserves every record' is read modulo the documented "
           "replacement of an empty cell by Field.default. Relation names dot-free. Typed (autocast) sources are modelled through the C08 cast/format and generated with falsy and edge values (0, 0.0, -1, epoch dates, '0' strings); cases with float columns are decided by the direct oracle only.",
      technique="Lean 4 proof over executable model + differential correspondence with the Python implementation",
      design_ref="DESIGN.md §5 C09")

claim("C10",
      text="Proved in Lean (27 theorems, incl. c10_pins: literals, operators, built-in calls and defaults of 34 anchored functions plus the FieldMapper key tables read from the live code by AST) for all inputs, for the model of the repaired itsdb.Table and TestSuite: every table "
           "operation (append, extend, item and slice assignment with any slice/step, update, clear, commit, reload, reopen) "
           "refines the same operation on a plain Python list, keeping the bookkeeping invariant, and this lifts by induction to "
           "all histories (same list, same stored relation, same exception), for plain and compressed files. Length, every "
           "integer index, iteration, selection and slicing with arbitrary start/stop/step (slice_spec) are answered from the "
           "abstract list; extended-slice assignment is Python's (ValueError on length mismatch, positions outside the range "
           "untouched); commit never fails, stores exactly the list, is idempotent and keeps the physical form; reload returns "
           "the committed state; process, with any buffer size, leaves every produced row exactly once shown and stored, and a "
           "later commit adds nothing. Round 4: FieldMapper (map/cleanup, parse-id = max(prev+1, i-id), one parse row then one row per "
           "result then per edge, the final run group) and TestSuite.process with _add_row flushes are modelled (Mapper.lean) and the "
           "last clause is proved on that model for every schema, item list, response script, buffer size and gzip flag: "
           "processM_exactly_once, processM_synchronized (memory = disk, in_transaction false everywhere, commit afterwards changes "
           "nothing), processM_unaffected_kept (a table outside the affected set keeps its pending rows exactly once), "
           "parse_ids_distinct, process_phase_is_prefix_run.",
      note="The model is tied to the code only by the correspondence run on generated histories (bounded-exhaustive ≤2 ops from a "
           "24-op menu on plain and gzip tables, random and long histories, process with a scripted processor; full query set "
           "after every step). Assumed: a relation file is a list of rows; gzip is a flag; the record codec is the identity on "
           "the generated typed values; the process model is compared with the real code item by item through the callback "
           "parameter (what each of six tables shows, file content and pending flag before each item's rows are added); not modelled: "
           "tokens, result flags, edges with daughters, a run without end, transfer/generate tasks keyed by parse-id. Seven defects found here were "
           "repaired in /repo (F03 F04 F05 F31 F32 F34 F52).",
      technique="Lean 4 proof over executable model (refinement to a list) + differential correspondence with the Python implementation",
      design_ref="DESIGN.md §5 C10")

claim("C11",
      text="Proved for all inputs of the model of tsql (53 theorems in two props modules, incl. pins: the 20 lexer classes in order, operator table, function constants, defaults): the hash join equals the nested-loop comprehension (order and "
           "multiplicity); each join step keeps exactly the pairs that agree on every shared key name; select is the left-deep "
           "nested-loop join filtered by the condition and projected in order; every returned row is justified by one witness "
           "row per relation satisfying the condition; the single-relation case is stored order and multiplicity; '*' emits "
           "every non-key column and each key name exactly once; comparisons and '~' never match empty fields and '!~' always "
           "does; a literal/column type mismatch never yields rows; whenever the planner answers, the join order is valid, "
           "contains every required relation with its keys, and every other planned relation is a linking relation with more "
           "than one key that closed a gap (planJoins_valid); for the core schema item/run/parse/result a plan exists for every "
           "non-empty set of required relations with at most one linking relation; the query parser inverts the printer on every "
           "normal-form condition tree and every full select with repeated 'where' (conjunction) with a concrete fuel bound "
           "(3 per token); a character-level model of the 20 ordered lexer classes returns the printer's tokens on their "
           "rendering (lex_render), giving characters → query (lex_then_parse). Round 4: the lexer theorem covers the whole condition "
           "alphabet (lex_spelled / lex_spelled_then_parse under the decidable word predicate spells: both quote styles, all date "
           "spellings, signed integers, regex literals, qualified identifiers); precedence_and_associativity (and over or, n-ary flat, "
           "not takes everything to its right) for every unparenthesised condition; one theorem per operator on empty fields "
           "(empty_eq … empty_nre, two-valued) and not_is_not_folded. Round 5, composition with C08 (imported, not edited): the model "
           "runs end to end on RAW cells with C08's cast (Compose.lean: castDB, selectRaw, selectText; literal step int() = C08.castInt, "
           "dates = C08.parseDate) with 14 theorems (empty_raw_cell, integer_spellings: 01 = 1, cells_are_cast_values, "
           "selectRaw_bridge: every theorem about select carries over to raw files, selectRaw_sound).",
      note="Parameters of the model, exercised only on the real code: re.search (shipped as a truth table), floats, and the inputs C08 "
           "itself declares unmodelled (non-ASCII digits, int() spellings such as 1_0, now/:today) — the composed answer is then "
           "'unmodelled' and counted. The lexer model (ASCII) is compared with the real lexer on every generated text and on stress "
           "texts; the lexer theorem renders one blank after each token (tight and multi-blank layouts: correspondence). General plan existence beyond the core schema is not proved (false for tree-linked "
           "schemas needing two links: decide-checked counter-example; the property says 'at most one linking relation'). Row "
           "order of joins whose plan depends on Python set iteration is compared as a multiset. The relational oracle judges "
           "only tree-linked schemas; cyclic key graphs are model-vs-code only.",
      technique="Lean 4 proof over executable model + differential correspondence with the Python implementation",
      design_ref="DESIGN.md §5 C11")

claim("C17",
      text="Proved in Lean, core only, for every identifier normaliser (30 theorems, incl. pins: the whitespace set of parents.split(), the normalisers of the wrappers, defaults): every hierarchy produced by the constructor "
           "followed by any sequence of accepted and rejected update/__setitem__ calls satisfies the invariant WF "
           "(history_invariant). From WF: children are the inverse of parents, ancestors/descendants are exactly the transitive "
           "closure of parents and mutually inverse, the graph is acyclic, every node other than the top has the top as ancestor "
           "(rooted, full strength after the F02 fix), no parent is an ancestor of another parent, subsumes is a partial order up "
           "to the normaliser with the top greatest, compatible is symmetric and equals 'a common descendant-or-self exists', "
           "every query is invariant under spellings the normaliser identifies, and the update loop never exhausts its fuel.",
      note="The model is a hand transcription of hierarchy.py (repaired code). It is tied to the code only by the correspondence run "
           "(quick 1659 histories, thorough ~20k, full query set after every call). Atomicity ('a rejected update changes "
           "nothing') is true of the pure model by construction and is not a theorem: it is checked on the real code by re-asking "
           "the full query set and snapshotting _hier/_loer/_data after every rejected call (1656 rejections per quick run come "
           "after a partial insert). Assumed: string identifiers, ASCII for the lower-casing wrappers.",
      technique="Lean 4 proof over executable model (invariant by induction over histories) + differential correspondence",
      design_ref="DESIGN.md §5 C17")

claim("C20",
      text="Lean 4 theorems (61 = 32 + 29 of the integration layer lean/Verif/Integration; incl. pins: codec capabilities and frames, format-name constants, defaults, caught exceptions, converter probe on 36 pairs) over a model of commands.convert (format-name parsing, codec and converter selection, per-item "
           "error isolation, and the header + joiner.join(parts) + footer assembly with its indent and -lines paths) prove, for "
           "every item list including N = 0, for every codec module, with and without indentation and -lines, that the "
           "assembled text is read back by the target family's document reader as exactly the converted items in order. The side "
           "conditions on the HEADER/JOINER/FOOTER constants are discharged by decide on a table regenerated from the live codec "
           "modules, so a changed constant breaks the proof. The converter table (identity iff representations agree; defined "
           "exactly for mrs→dmrs, dmrs→mrs, mrs→eds) is proved. Relative to the per-item round-trip hypotheses that C01–C03 establish "
           "(RoundTrips, WritesItems, stated over an opaque item codec), loads(convert(items)) is exactly the N converted "
           "structures in order (loads_convert) and transcoding to another format of the same representation and back "
           "reproduces the structures up to what both formats carry (transcode_there_and_back, transcode_identity_on_common). Integration layer (29 theorems): the pipeline composes — for every MRS satisfying named decidable hypotheses on the source only, the outputs of the C04 dmrs.from_mrs and C05 eds.from_mrs models satisfy the hypotheses of C02's and C03's round-trip theorems (mrs_dmrs_expressible, mrs_eds_expressible; F38's hypothesis holds for every from_mrs output; SimpleDMRS needs NoUSort = F11, with a counter-example theorem), so decode(encode(from_mrs m)) = from_mrs m for SimpleDMRS, DMRX, DMRS-JSON, native EDS and EDS-JSON; the composed model of convert(simplemrs → simpledmrs/dmrx/dmrsjson/eds/edsjson) on the encoder's own text equals the target encoder applied to the conversion and is read back by the target decoder, for single items and documents; C04's MRS→DMRS→MRS theorems still apply after a codec round trip.",
      note="Items are opaque texts in the model; that each real item text satisfies the stated item predicate is checked on every "
           "generated conversion, not proved. That the real codecs read each item back correctly, the same-representation "
           "transcoding clause, the reading side (files, streams, TSQL selection) and the export-only block clause are decided by "
           "the direct oracle on the real code only. Kept out of the generators: DMRS nodes of type 'u' (F11), mutual non-scopal "
           "arguments in one scope (F08), newlines inside strings. The integration layer is tied to the real code by its own correspondence block in every run (real from_mrs + real codecs' string APIs + commands.convert vs the composed model, field by field; the Lean hypothesis predicates vs a Python restatement) and a direct oracle (decode(encode(from_mrs(m))) == from_mrs(m); convert == frame(encode ∘ converter ∘ decode)); adapters between the islands' types are proved mutually inverse; alignments other than character spans and EDS identifier choices depending on Python set order are answered 'unmodelled'.",
      technique="Lean 4 proof over executable model + generated constant tables + differential correspondence",
      design_ref="DESIGN.md §5 C20")

claim("C03",
      text="Proved for all graphs and all (properties, lnk, show_status, indent) (30 theorems, incl. c03_pins: the 13 lexer token classes, JSON framing, signatures and the load skeletons of 47 anchored functions read from the live code): the native decoder run on the "
           "encoder's token stream followed by anything returns the graph (exact top detection by the 2–3 token look-ahead, node "
           "loop, property and edge blocks, constant escaping, alignments) and stops after the closing brace; re-encoding "
           "reproduces the text; multi-graph documents are read graph by graph; suppression removes exactly properties plus type "
           "(native) or alignment; status markers are exactly non-reachability from the top (BFS correctness); the JSON dictionary "
           "form returns the same top and multiset of nodes in span order; the PENMAN triple form returns the graph for graphs "
           "connected from the top. The main native clause carries the forced hypothesis that no untyped node has properties "
           "(F38, known finding, decide-checked counter-example).",
      note="Round 4: the native EDS lexer is modelled at character level (13 pinned classes) and the theorems hold at TEXT level for "
           "both layouts, all option vectors and multi-graph documents (lexer_reads_encoder_text, native_roundtrip_text, "
           "docs_roundtrip_text, reencode_stable_text) under the decidable predicate lexOKb (symbols non-empty, free of blanks, line "
           "breaks and `: , < ( [ ] { }`, not starting with `|` or `#`). That the character model equals the regex engine is compared "
           "on every generated, damaged and stress text. The json and penman libraries "
           "are identity parameters; the oracle goes through their real text. Upper/lower case modelled for ASCII. Duplicate node "
           "ids, dangling edge targets and non-symbol strings are outside the theorems (correspondence only); F40 (known finding): EDS-PENMAN loses a predicate that equals a node identifier (penman writes the :instance triple as an inverted edge) — the Lean model has penman as an identity parameter and cannot exhibit it, the PENMAN oracle judges such graphs and the classifier recognises exactly that class. Node ids colliding with property values, constants, types, role names and numeric ids are part of every run.",
      technique="Lean 4 proof over executable model + differential correspondence with the Python implementation",
      design_ref="DESIGN.md §5 C03")

claim("C01",
      text="For the models of the MRS codecs it is proved (34 theorems, incl. five pin theorems over 105 constant lists / 777 constants read from the live code: both lexers' token tables, escapes, predicate/variable regexes, MRX tag and attribute names, JSON keys, defaults), for all inputs: (a) escaping/unescaping and the "
           "double-quoted-string scanner are exact inverses and the scanner stops exactly at the closing quote; (b) "
           "Lnk(str(l)) = l for all kinds; (c) SimpleMRS: the recursive-descent decoder run on the encoder's token list followed "
           "by any further tokens returns top, index, EPs, hcons, icons unchanged — lnk/surface removed exactly when lnk=False — "
           "and exactly the remaining tokens (hence multi-item documents); the decoded variables carry each variable's property "
           "list (first-mention rule) or the empty map when properties are off; re-encoding the decoded structure gives the same "
           "tokens (stability); at character level the model of the SimpleMRS lexer run on the single-line rendering of the "
           "encoder's tokens returns those tokens, so lex∘render∘toks then parse is the identity view (text round trip); (d) "
           "MRS-JSON dictionary round trip and stability for character-span alignments; (e) MRX ElementTree round trip "
           "(xml.etree as identity parameter); (f) Indexed MRS token round trip for a covering SEM-I with CARG at any position in "
           "the synopsis (repaired lookup F33/F50/F53): same predications and arguments, with remainder.",
      note="Round 4: the Indexed MRS round trip states the decoded property maps explicitly (indexed_roundtrip, "
           "indexed_same_properties) under the decidable SEM-I predicate propsCover (each written value is subsumed by the declared "
           "one) instead of a matching hypothesis; the Indexed MRS lexer is modelled at character level (indexed_lex_render, "
           "indexed_text_roundtrip); the indented SimpleMRS layout is proved at text level (simplemrs_lex_indented, "
           "simplemrs_text_roundtrip_indented). Not proved: the indented Indexed MRS and MRX layouts; MRX/JSON text level (library "
           "parameters, side-checked per case). The models (incl. the SimpleMRS and Indexed MRS lexer models) are tied to the code by correspondence on generated cases: real lexer tokens of real encoder "
           "text, decoded structures, re-encodings, element trees and dictionaries; long multi-item documents (>1024 and >2048 "
           "lexer tokens, item boundaries at every offset around the buffer size) and a purity clause (state across calls, "
           "fresh disagreeing SEM-I per case) run in every tier. Case folding is ASCII. U+2029 is treated as a line separator.",
      technique="Lean 4 proof over executable model + differential correspondence with the Python implementation",
      design_ref="DESIGN.md §5 C01")

claim("C02",
      text="Proved for the Lean model (36 theorems, incl. c02_pins: the 15 SimpleDMRS lexer token classes, format strings, DMRX tag/attribute names, JSON keys, PENMAN role formats, predicate regexes, Lnk formats, look-ahead sizes and the defaults of all four codecs, 60 constant lists read from the live code). SimpleDMRS at TEXT level (round 4: character-level model of the 15-class lexer, lexText (render ts) = ts, decodeText (encodeText d) = view d for single-line and indented layouts and multi-graph documents under the decidable string predicate lexOK, and text-level stability) on top of the token-level encode/decode round trip with arbitrary remainder for "
           "all option settings and the list API, under the explicit expressibility predicate, and stability of re-encoding; the "
           "F11 hypothesis 'no node of type u' is isolated as _partial, with a counter-example theorem (known finding). "
           "DMRS-JSON: dictionary round trip and dict-level stability. DMRX: tree round trip with no predicate hypothesis "
           "(create∘split = id proved for normalised surface predicates and for abstract predicates) and tree-level stability. "
           "The suppression views: properties=false removes type and properties in DMRX and JSON, only properties in "
           "SimpleDMRS; lnk=false removes alignment and surface. The node-0 top-link normalisation lemmas. DMRS-PENMAN: "
           "fromTriples (toTriples d) = viewP d for graphs connected from the top, with the bijective renumbering from 10000 "
           "(top first, consecutive).",
      note="Compared, not proved: that the character model equals the regex engine (the pinned patterns and the correspondence on every text incl. ~770 stress texts tie it), that render equals the format-string encoder text character for character, the digit and white-space classes beyond ASCII digits and the fixed blank list, and the file API. Assumed as parameters and checked by "
           "side oracles: xml.etree, json, penman (up to node order; literal PENMAN text stability is not demanded, graph "
           "equality each round is), ASCII case mapping. Every tier runs long multi-graph documents for every codec "
           "(>1024 and >2048 lexer tokens; >16 KiB and >64 KiB texts through the string, stream and file APIs), a purity clause (15 "
           "interleaved encode/dumps calls over indent settings and APIs must repeat exactly), an object-churn clause (structures "
           "rebuilt after others were dropped must encode as before: state keyed by object identity) and non-ASCII predicates, roles, "
           "property names and values (model comparison guarded where Python's case mapping differs from the ASCII model).",
      technique="Lean 4 proof over executable model + differential correspondence with the Python implementation",
      design_ref="DESIGN.md §5 C02")

claim("C15",
      text="Lean 4 theorems (22, incl. pins: the lexer pattern, group numbers, layout constants, list type names, format strings) over a model of delphin.tdl/tfs prove, for all inputs, the token-level round trip of the whole "
           "term grammar: parse (toks x ++ rest) = ok (canon x, rest) for nested conjunctions, AVMs with dotted paths, cons "
           "lists (closed, open, dotted, empty), diff lists, coreferences, strings, regexes and docstrings; the round trip of "
           "every top-level item kind (type definitions, addenda incl. docstring-only, lexical rules with affix patterns, letter "
           "sets and wild cards at character level, environments, includes, comments) and of arbitrary item sequences with "
           "nested environments; that the second formatting yields the same tokens outside finding F44 (known: a one-term "
           "Conjunction wrapper around a one-feature AVM, decide-checked counter-example); docstring escape idempotence and "
           "exact lexer scanning for every docstring text and indentation; case-insensitive path access; invariance of the "
           "expanded feature list.",
      note="Proved at token level with explicit linear fuel bounds; parse_file is stated for the driver's own fuel (|tokens|+1 items, 6·|tokens|+10 per definition); fuel independence on arbitrary malformed token lists is not proved (an exhausted budget is a distinct, never-observed answer). Structures built by histories of public mutators (set/del/re-set with dotted paths and letter case, append/terminate, add/&, normalize) are generated, modelled and compared with the same structure built in one go. Not modelled: line layout/widths, the regex lexer for "
           "non-docstring tokens, tabs and other white space in docstrings, non-ASCII case folding; these are tied by comparing, "
           "on ~2.7k generated cases per quick run, the real lexer's tokens on the real formatter's text, the real parse results, "
           "the second format, expanded features and constructor results, and parser errors on mutated token streams. Text layout "
           "stability is decided by a direct oracle. Five defects found by this check were repaired in /repo (F41-F43, F45, F46).",
      technique="Lean 4 proof over executable model + differential correspondence with the Python implementation",
      design_ref="DESIGN.md §5 C15")

claim("C06",
      text="For the Lean model of is_isomorphic/_vf2 (28 theorems, incl. c06_pins: names and constants of 15 anchored functions and defaults read from the live code; repaired code: antiparallel edge labels merged, self-loop labels "
           "compared, properties of CARG-bearing predications compared): is_isomorphic never raises; its True is exactly "
           "isomorphism of the two encoding graphs — a bijection on variables and predications preserving the node-label entry "
           "(normalised predicate, constant, properties when requested) and all role, scope and constraint edges in both "
           "directions. Both directions are proved: soundness (search invariant 'injective partial isomorphism') and "
           "completeness of the backtracking search with its candidate selection and every feasibility test (no extra "
           "hypotheses, no fuel bound). Hence it is reflexive (unconditionally), symmetric and transitive, and depends only on "
           "the isomorphism class of the encoding graphs. Bag comparison satisfies both counting identities for any predicate, "
           "and under is_isomorphic a bag compared with a shuffled list of isomorphic copies of itself is entirely shared. Round 4, the encoding side: _make_mrs_isograph is characterised as a replay of an explicit write list (mkIsoGraph_eq_writes); is_isomorphic m (rename σ m) = True for every renaming injective on the variables (isIsomorphic_renamed), likewise for every permutation of RELS/HCONS/ICONS (isIsomorphic_reordered) and both at once, under named decidable hypotheses (NamesOK, SimpleIds, rowsOK, NoParallel) evaluated on every generated case; a True verdict implies equal multisets of predication node labels (faithful_labels_partial) and a single changed predicate, constant or compared property value gives False (single_label_change_rejected). Round 5, the property's first sentence as a theorem: with MRSIso defined without any graph (a variable bijection and a pairing of predications preserving normalised predicates, constants, compared properties, labels, role-labelled arguments, handle and individual constraints as multisets), isIsomorphic_iff_mrsIso: InSpace p m1 → InSpace p m2 → (is_isomorphic = True ↔ MRSIso) ∧ (= False ↔ ¬MRSIso), with both directions (isIsomorphic_imp_mrsIso, mrsIso_imp_isIsomorphic), not_mrsIso_rejected and mrsIso_passes_size_checks; InSpace is nine decidable clauses (NamesOK, NoParallel, disjoint edge-label alphabets, distinct blank-free upper-case roles per predication, label decoding, clean edge labels) evaluated by the driver on both structures of every case (1716 of 1783 compared pairs inside in a quick run).",
      note="Clean edge labels (no role starting with '--' or containing ' --') are assumed for soundness, symmetry and "
           "transitivity; a decide-checked counter-example shows the assumption is necessary. Nothing of the property's clauses is left open for the model inside InSpace; "
           "outside it (lower-case roles, unknown constraint relations) and on the real code everything is decided by the oracle "
           "(exhaustive MRS-level bijection search ≤7 predications, invariance checks ≤40, colour-refinement certificate). The model is tied to the code by comparing the graph, the augmented graph, the returned "
           "mapping (candidate and backtracking order) and the verdict on every generated pair. Input space: distinct intrinsic "
           "variables, no parallel constraints, alphanumeric role names.",
      technique="Lean 4 proof over executable model (soundness + completeness of the matcher) + differential correspondence + exhaustive oracle",
      design_ref="DESIGN.md §5 C06")

claim("C19",
      text="Proved in Lean (18 theorems, incl. pins of 29 constant groups: cmdargs, version thresholds, line prefixes, response keys, termini, S-expression reader constants), for a state-machine model of delphin/ace.py (interact/send/_result_lines/receive/_open/"
           "close for the parser, transferer and generator with both protocols; repaired code) talking to a scripted child with "
           "an arbitrary exit schedule and arbitrary race-oracle stream: one response per input in order, each recording its "
           "input, built only from lines the processor wrote for that input; no hang and no exception; unserved or unanswered "
           "inputs give empty results; after an observed end-of-stream later sent inputs run under a strictly larger run id (new "
           "child, new run record); refused inputs (blank parser input, text without a bracketed MRS) are reported as skipped and "
           "change nothing; close() ends the last run record and returns the child's exit status. With the default protocol every "
           "line a response is built from is a complete line the processor wrote for that input, and a response has no results "
           "when no complete content line arrived (default_results_from_complete_lines; repaired code, F54). Termini are pinned "
           "to a table generated from the live module.",
      note="The theorems assume the processor answers completely while alive and writes nothing after a terminator (a decide-checked "
           "counter-example shows this is needed). Pipes, buffering, reaping and time are not modelled: each observation of a "
           "dying child consumes one oracle bit; the harness forces three exit-visibility schedules on the real code with a "
           "scripted stand-in (harness/standins/fakeace.py) so that model traces are replayable, and checks free races with the "
           "direct oracle only, every interaction under a hard timeout. The 'unmodelled' outcome marks S-expression shapes "
           "outside the model. Six defects found here were repaired in /repo (F18 F19 F47 F48 F49 F54). Inputs and answers up to 200 000 characters (pipe-buffer boundaries 4096/8192/65536) are part of every run.",
      technique="Lean 4 proof over a state-machine model + scripted stand-in processor + differential correspondence",
      design_ref="DESIGN.md §5 C19")

claim("C13",
      text="Proved for the Lean model of delphin.repp (30 theorems, incl. c13_pins: the template regex, escapes, mask sentinels, loader prefix characters, constants and defaults of the anchored functions read from the live code), for every template, match list, program and input: the string "
           "built by the offset-tracking loop of _REPPRule._apply/_process_match equals ordered regex substitution (no hypothesis "
           "on the template: groups in any order, repeated, unmatched optional groups, escapes); the tracked/untracked split "
           "loses nothing of the template; groups, iterative groups reach a fixpoint of their body exactly when one is reached "
           "after finitely many rounds (fuel irrelevance), external groups apply only when active, include splicing, a module "
           "with no applicable rule returns its input; the trace is a chain whose last element equals apply; a mask rule by "
           "itself changes neither string nor maps. Round 2 (26 theorems in all): the loader (_parse_repp_module and helpers: "
           "rule/mask lines, #n definitions and calls incl. use-before-define in the module-global namespace, >external calls, "
           "<file includes, : and @ lines, error enums) is modelled line by line; proved of it: loading text with an include "
           "equals loading the text with the file's lines spliced in, in every parser state (inside groups and included files "
           "too), and load ∘ render = id on well-formed operation trees; programs WITH masks: under any mask a rule rewrites "
           "exactly the non-blocked matches, a blocked match is left alone, an all-blocked step is the identity, and mask-free "
           "programs coincide with the round-1 semantics.",
      note="The regex engine is a parameter of the model: the harness ships the match lists returned by the rule's own compiled "
           "pattern (validity — ordered, non-overlapping, inside the string — checked on every list). Compared on generated "
           "cases: model vs delphin.repp on all verbose trace steps; direct oracle re.sub in order with iteration until "
           "unchanged. stdlib re instead of regex; the loader model is compared with the real loader on every generated program text and on "
           "raw/damaged line lists; mask blocking is compared step by step incl. mask arrays; round 4 links the loaded "
           "module to the executable operation tree in the model (Link.applyText; apply_text_main, apply_text_include = splice, "
           "apply_text_of_tree), the driver runs every program from its rendered TEXT and the harness's own tree is only compared; "
           "argument types of the documented signature (active as list/tuple/set/generator/iterator, modules as other Mappings) are part "
           "of the purity battery; non-terminating iterative groups (length-increasing rules) are excluded; strings capped "
           "at 160 characters.",
      technique="Lean 4 proof over executable model (regex engine as parameter) + differential correspondence + re.sub oracle",
      design_ref="DESIGN.md §5 C13")

claim("C14",
      text="Proved at full strength for the repaired code (14 theorems, incl. c14_pins: DEFAULT_TOKENIZER, the YY regex, format pieces, constants and defaults read from the live code; no coverage hypothesis): both offset maps have one entry per "
           "output position plus two sentinels for rules, groups and after _mergemap; every carried-over character — outside all "
           "matches or through participating capture groups referenced in order — is attributed exactly to its original position "
           "by _process_match's accounting and through _mergemap composition for whole programs; every span lies within the "
           "original; the merge never raises; tokens are exactly the non-empty separator-free pieces in order; a token of "
           "contiguous carried-over characters satisfies original[from:to] == form; the YY lattice string round-trips for "
           "arbitrary form and surface text (incl. quotes and backslashes).",
      note="As for C13 (regex engine and tokenizer matches are parameters shipped from the real compiled patterns). Compared: "
           "startmap, endmap, tokens, lattice string and re-parse against the real code; an independent character-by-character "
           "provenance oracle composed through the whole program. The YY parser model covers lrules = ['null'] and no pos tags; "
           "provenance through groups is claimed only for in-order templates (the characterizable case of the property).",
      technique="Lean 4 proof over executable model (regex engine as parameter) + differential correspondence + provenance oracle",
      design_ref="DESIGN.md §5 C14")


# Final wording: each property's builder wrote claims/<Cnn>.json (text, note, theorem split) after the independent audit
# round; where such a file exists it replaces the text and note above (kept as the history of the build).
def _load_final_wording():
    import json as _json
    import os as _os
    root = _os.path.dirname(_os.path.dirname(_os.path.dirname(_os.path.abspath(__file__))))
    for _pid in sorted(CLAIMS):
        _fn = _os.path.join(root, "claims", _pid + ".json")
        if _os.path.exists(_fn):
            with open(_fn, encoding="utf-8") as _f:
                _d = _json.load(_f)
            CLAIMS[_pid]["text"] = _d["text"]
            CLAIMS[_pid]["note"] = _d["note"]
            if "theorems" in _d:
                CLAIMS[_pid]["theorems"] = _d["theorems"]


_load_final_wording()


# Properties whose check also carries a source-translation tie (TRANSLATOR.md): the technique says so.
def _mark_translated():
    import os as _os
    root = _os.path.dirname(_os.path.dirname(_os.path.dirname(_os.path.abspath(__file__))))
    for _pid in sorted(CLAIMS):
        if _os.path.exists(_os.path.join(root, "lean", "Verif", "Generated", "Trans%s.lean" % _pid)):
            CLAIMS[_pid]["technique"] += (" + Lean definitions regenerated from the Python source text of selected functions "
                                          "on every run (py2lean) and proved equal to the model functions")


_mark_translated()
