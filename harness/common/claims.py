"""Per-property claims that go into MANIFEST.json (edit here, then `python -m harness.common.manifest`)."""
CLAIMS = {}


def claim(pid, text, note, technique, design_ref):
    CLAIMS[pid] = dict(text=text, note=note, technique=technique, design_ref=design_ref)


claim("C08",
      text="Lean 4 theorems over a model of tsdb.escape/unescape/split/join/cast/format and itsdb.Row state the "
           "encoding clauses for every string, record and integer (unescape∘escape = id, no raw newline/delimiter, "
           "injectivity, rejection of malformed escapes, split∘join = id modulo ''/None, exactly n-1 delimiters, "
           "int round trip); the model is tied to the code by running both on >10k generated "
           "inputs per run (exhaustive over the special alphabet up to length 4/5) and by escape/month tables regenerated from the "
           "live module. The float clause is outside any model (CPython repr) and is decided by a direct oracle only.",
      note="Trusted: Lean kernel + propext/Classical.choice/Quot.sound; the hand-written model (validated only on generated "
           "inputs); Python harness and its naive oracle. Not modelled: float repr, non-ASCII int()/date spellings.",
      technique="Lean 4 proof over executable model + differential correspondence with the Python implementation",
      design_ref="DESIGN.md §5 C08")
