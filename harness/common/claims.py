"""Per-property claims that go into MANIFEST.json (edit here, then `python -m harness.common.manifest`)."""
CLAIMS = {}


def claim(pid, text, note, technique, design_ref):
    CLAIMS[pid] = dict(text=text, note=note, technique=technique, design_ref=design_ref)


claim("C08",
      text="Lean 4 theorems over a model of tsdb.escape/unescape/split/join/cast/format and itsdb.Row state the "
           "encoding clauses for every string, record and integer (unescape∘escape = id, no raw newline/delimiter, "
           "injectivity, rejection of malformed escapes, split∘join = id modulo ''/None, exactly n-1 delimiters, "
           "int round trip); the model is tied to the code by running both on >10k generated "
           "inputs per run (exhaustive over the special alphabet up to length 4/5) and by escape/month tables regenerated from the "
           "live module. The float clause is outside any model (CPython repr) and is decided by a direct oracle only.",
      note="Trusted: Lean kernel + propext/Classical.choice/Quot.sound; the hand-written model (validated only on generated "
           "inputs); Python harness and its naive oracle. Not modelled: float repr, non-ASCII int()/date spellings.",
      technique="Lean 4 proof over executable model + differential correspondence with the Python implementation",
      design_ref="DESIGN.md §5 C08")

claim("C16",
      text="Proved in Lean 4 for all trees of the model of delphin.derivation: the dictionary round trip at full strength "
           "(head mark and type on any node including the top); that the explicit stack of _from_string, run on the match "
           "list of a serialized tree at any indentation (UDF and UDX), rebuilds the tree exactly incl. entity decoding, "
           "integer parsing and token recovery; that re-serialization reproduces the text; that terminals, preterminals "
           "and internals partition the nodes. The end-to-end from_string(to_udf(t)) theorem is proved relative to one "
           "named lexical hypothesis (hscan), which the correspondence run compares with the real _udf_re.finditer match "
           "list on every generated text.",
      note="hscan (the character-level regex emulation yields the expected match list on serialized text) is not proved, only "
           "compared on generated texts. Scores are carried as printed text; '{:g}', parent pointers, is_head() and object "
           "identity are checked by the direct oracle only. WF/DictOK/Shape restrict to what the formats can express. "
           "Trusted: Lean kernel + 3 standard axioms, the hand-written model, the Python harness and oracle.",
      technique="Lean 4 proof over executable model + differential correspondence with the Python implementation",
      design_ref="DESIGN.md §5 C16")
