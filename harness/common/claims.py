"""Per-property claims that go into MANIFEST.json (edit here, then `python -m harness.common.manifest`)."""
CLAIMS = {}


def claim(pid, text, note, technique, design_ref):
    CLAIMS[pid] = dict(text=text, note=note, technique=technique, design_ref=design_ref)


claim("C08",
      text="19 Lean 4 theorems over a model of tsdb.escape/unescape/split/join/cast/format and itsdb.Row state the encoding "
           "clauses for every string, record, integer and date-time: unescape∘escape = id and escape∘unescape = id on the image, "
           "unescape succeeds exactly on well-escaped text, no raw newline/delimiter in an escaped value, injectivity, "
           "split∘join = id modulo ''/None (with and without the trailing newline), exactly n-1 delimiters, join injective; "
           "cast(format(i)) = i for every Int; parseDate(formatDate t) = t for every calendar-valid instant with year 1000-9999 "
           "(through the two date regexes, _date_fix and the strptime acceptance model); row access by index (any sign), slice "
           "(any start/stop/step), name and iteration all equal the cast of the stored raw data. The model is tied to the code by "
           "running both on >10k generated inputs per run (exhaustive over the special alphabet up to length 4/5, every documented "
           "date spelling of boundary instants) and by escape/month tables regenerated from the live module. The float clause is "
           "outside any model (CPython repr) and is decided by a direct oracle only; 'all documented date spellings denote the "
           "same instant' is decided by oracle + correspondence (the theorem covers the spelling format() produces).",
      note="Trusted: Lean kernel + propext/Classical.choice/Quot.sound; the hand-written model (validated only on generated "
           "inputs); Python harness and its naive oracle. Not modelled: float repr, non-ASCII int()/date spellings ('unmodelled' "
           "answers are not compared), the strptime library (acceptance model compared on all generated spellings).",
      technique="Lean 4 proof over executable model + differential correspondence with the Python implementation",
      design_ref="DESIGN.md §5 C08")

claim("C16",
      text="Proved in Lean 4 for all trees of the model of delphin.derivation: the dictionary round trip at full strength "
           "(head mark and type on any node including the top); that the explicit stack of _from_string, run on the match "
           "list of a serialized tree at any indentation (UDF and UDX), rebuilds the tree exactly incl. entity decoding, "
           "integer parsing and token recovery; that re-serialization reproduces the text; that terminals, preterminals "
           "and internals partition the nodes. The end-to-end from_string(to_udf(t)) theorem is proved relative to one "
           "named lexical hypothesis (hscan), which the correspondence run compares with the real _udf_re.finditer match "
           "list on every generated text.",
      note="hscan (the character-level regex emulation yields the expected match list on serialized text) is not proved, only "
           "compared on generated texts. Scores are carried as printed text; '{:g}', parent pointers, is_head() and object "
           "identity are checked by the direct oracle only. WF/DictOK/Shape restrict to what the formats can express. "
           "Trusted: Lean kernel + 3 standard axioms, the hand-written model, the Python harness and oracle.",
      technique="Lean 4 proof over executable model + differential correspondence with the Python implementation",
      design_ref="DESIGN.md §5 C16")

claim("C07",
      text="Proved in Lean 4 for all inputs of the model (shared semantic core Verif/Common/Sem.lean): is_connected equals "
           "connectivity of the predication/label/variable graph (BFS correctness, start-independent); the intrinsic-variable "
           "tests equal their definitions; is_well_formed is exactly the conjunction; the scope map partitions the predications "
           "by label and the top label is the resolved top; conjoin yields exactly the connected components of the label "
           "equalities; descendants and representatives terminate on every MRS (fuel sufficiency) and every representative is a "
           "member of its scope; for DMRS with distinct node ids the top scope is the unique scope containing the node whose id "
           "is top (code after the F07 fix). Existence of a representative is proved only under acyclicity of the in-scope "
           "blocking relation; the unrestricted clause is false of the code (F08: decide-checked counter-example, known finding).",
      note="plausibly_scopes has no definition in the property; it is modelled line by line, compared with the code, and re-stated "
           "naively in the oracle. Assumed: variables are (sort, canonical id); EP ids distinct (proved when every ARG0 has a sort "
           "other than '_'; otherwise the driver answers 'unmodelled'); Python set order and the recursion limit are not modelled; "
           "DMRS descendants/representatives are checked by the oracle only. Tie: 4.7k model/implementation comparisons per quick "
           "run, 141k per thorough run. Trusted: Lean kernel + 3 standard axioms, the hand-written model, harness and oracle.",
      technique="Lean 4 proof over executable model + differential correspondence with the Python implementation",
      design_ref="DESIGN.md §5 C07")

claim("C18",
      text="Lean 4 theorems over a model of edm.compute including triple extraction from EDS and DMRS structures prove, for all "
           "lists with None entries and unequal lengths, both flag settings and all weights, that the scores are the zero-safe "
           "ratios of the weighted sums of gold, test and multiset-intersection triple counts over exactly the counted pairs; the "
           "Counter formula is proved equal to an independently defined multiset intersection. Proved consequences for "
           "non-negative weights: scores in [0,1], no division by zero, identical lists score 1 when they contain a positively "
           "weighted triple, exchanging gold and test swaps precision and recall, invariance under injective renaming and under "
           "reordering of nodes and links. The model is tied to the code by exact comparison of _accumulate totals and Fraction "
           "scores on 4.4k cases per quick run (42k thorough).",
      note="Trusted: Lean kernel + propext/Classical.choice/Quot.sound; the hand-written model (validated on generated inputs "
           "only); the Python harness and its naive oracle; the injective spelling of EDS ids. Not modelled: IEEE float rounding "
           "(oracle only, 1e-9 relative against the exact rational). Outside the property's input space (duplicate ids, links "
           "starting at no node, negative weights): correspondence only.",
      technique="Lean 4 proof over executable model + differential correspondence with the Python implementation",
      design_ref="DESIGN.md §5 C18")

claim("C04",
      text="Proved over a hand-written Lean model of dmrs.from_mrs and mrs.from_dmrs (on the shared semantic core), for all MRSs "
           "with pairwise distinct EP identifiers: every link is justified by the source (role of the start predication; target "
           "is the argument's predication or the first representative of the selected scope; EQ/NEQ by label identity, H for a "
           "handle constraint, HEQ for a direct label; MOD/EQ between representatives of one scope) with no well-formedness "
           "hypothesis; node/top/index shape; preservation of the predication sequence by the round trip; totality when the top "
           "scope has a representative, with a kernel-checked counter-example (F08, known finding) for well-formed input without "
           "one. Isomorphism of the round trip and equality of the second conversion are decided by the direct oracle on the real "
           "code (mrs.is_isomorphic plus an independent bijection search; direct comparison).",
      note="Not proved: isomorphism of the round trip with the stripped source, top/index selecting the same predication, equality "
           "of the second conversion (oracle on generated well-formed inputs with qeq constraints, x/e/i/p/u IVs, quantifiers "
           "binding the head of their restriction). Set iteration order in conjoin is a parameter of the model; warnings are not "
           "observed. Trusted: Lean kernel + 3 standard axioms, the hand-written model (4k comparisons per quick run), harness, oracle.",
      technique="Lean 4 proof over executable model + differential correspondence with the Python implementation",
      design_ref="DESIGN.md §5 C04")

claim("C05",
      text="Proved for the Lean model of eds.from_mrs (_mrs_get_top, _mrs_args_to_basic_deps, _mrs_to_nodes, "
           "find_predicate_modifiers, make_ids_unique, on the shared model of MRS/_uniquify_ids/scope.representatives/"
           "_connected_components), for all MRSs with complete intrinsic variables and no ARG0 of sort '_'/'q': one node per "
           "predication in order with its data (any configuration, incl. a user-supplied predicate-modifier function); every "
           "edge ends at a node and is a BV edge quantifier→quantifiee, an edge justified by an argument (intrinsic variable, "
           "label, or hcons-constrained hole), or, with predicate modifiers on, an ARG1 edge between two same-label predications "
           "not connected in the graph without modifiers; a top, when present, is a node; EP ids and, with unique_ids=False, "
           "node ids are pairwise distinct. Totality is false of the code as stated (F08: decide-checked counter-example, known finding).",
      note="Not proved, checked by the direct oracle and the model/implementation comparison only: uniqueness of ids after "
           "make_ids_unique (unique_ids=True), totality and absence of warnings on well-formed input, 'exactly one BV edge' "
           "completeness, native/JSON/PENMAN round trip of the result. Assumed: input space = is_well_formed plus at most one "
           "quantifier per variable; canonical variable numerals; default representative_priority; a user function is represented "
           "by the mapping it returns; Python set order in make_ids_unique for shared ARG0s is outside the model ('unmodelled').",
      technique="Lean 4 proof over executable model + differential correspondence with the Python implementation",
      design_ref="DESIGN.md §5 C05")

claim("C12",
      text="Proved in Lean 4 (26 theorems) for all profiles, schemas, filter outcomes and flag combinations of the model of "
           "commands.mkprof: a profile made from a source profile holds, per copied relation, exactly the selected rows in order, "
           "with cells unchanged up to the field default and by-name remapping under a different schema; uncopied relations are "
           "empty; the skeleton/full file-presence rules hold; in-place refresh preserves rows; text input gives one item per line "
           "with the '*' mark handled; a well-formed source never fails. The filter clause is proved exactly under 'no identical "
           "rows adjacent among the satisfying rows'; that hypothesis is shown necessary with decide-checked counter-examples "
           "(F20, known finding: _tsql_distinct merges adjacent identical rows).",
      note="Only compared, not proved: the tie between the model and commands.mkprof (2.7k generated cases per quick run, 30k "
           "thorough); i-id and i-length values and the rejections for delimited text. Assumed: TSQL evaluation is a model "
           "parameter (per-row counts of satisfying joined tuples from the harness's nested-loop evaluator); files are row lists "
           "with logical mtimes, gzip is the identity, escaping left to C08/C09; schemas key-consistent with plain identifiers; "
           "no date literals in filters; source and destination directories distinct.",
      technique="Lean 4 proof over executable model + differential correspondence with the Python implementation",
      design_ref="DESIGN.md §5 C12")
