"""One import line per harness module that registers a table emitter with tables.register."""
