"""Self-test of the TRANSLATOR (trusted base): every sample function of py2lean_samples.py and every function a
property translates is translated, the Lean definition is evaluated (`lake env lean` on a scratch file) and the real
Python function is called on the same random inputs; the answers must be identical.

    cd /verif && PYTHONPATH=/repo /venv/bin/python -B -m harness.common.py2lean_selftest [N per function] [seed]

Not registered as a check; run by hand after a change to py2lean.py / PyRt.lean.  Prints the counts."""
import json
import os
import random
import subprocess
import sys
import typing

from . import paths, py2lean as P, py2lean_samples as S

paths.ensure_repo_on_path()

ALPHA = ["\\", "@", "s", "n", "\n", "a", "a", "b", "b", " ", "\t", "'", '"', "é", "\x1f", " ", "\U0001F600", "k"]


def t_of(h):
    if h is str:
        return P.STR
    if h is int:
        return P.INT
    if h is bool:
        return P.BOOL
    if h is type(None):
        return P.NONE
    if isinstance(h, type) and issubclass(h, tuple) and hasattr(h, "_fields"):
        hints = typing.get_type_hints(h)
        return P.Struct(h.__name__, {f: t_of(hints[f]) for f in h._fields}, h)
    o, a = typing.get_origin(h), typing.get_args(h)
    if o in (set, frozenset):
        return P.Set(t_of(a[0]))
    if o is list:
        return P.Lst(t_of(a[0]))
    if o is tuple:
        return P.Tup(*[t_of(x) for x in a])
    if o is dict:
        return P.Dict(t_of(a[0]), t_of(a[1]))
    if o is typing.Union and len(a) == 2 and a[1] is type(None):
        return P.Opt(t_of(a[0]))
    raise TypeError(h)


def gen(rng, t, small=False):
    k = t[0]
    if k == "str":
        n = rng.choice([0, 0, 1, 1, 2, 3, 5, 8])
        return "".join(rng.choice(ALPHA) for _ in range(n))
    if k == "int":
        r = rng.random() * (0.79 if small else 1)
        if r < 0.8:
            return rng.randint(-6, 8)
        if r < 0.9:
            return rng.choice([13, 100, 101, -100])
        return rng.choice([2 ** 31, -2 ** 63 - 1, 10 ** 20 + 7, -10 ** 19])
    if k == "bool":
        return rng.random() < 0.5
    if k == "opt":
        return None if rng.random() < 0.3 else gen(rng, t[1], small)
    if k == "list":
        return [gen(rng, t[1], small) for _ in range(rng.choice([0, 1, 2, 3, 4, 6]))]
    if k == "set":
        return {gen(rng, t[1], small) for _ in range(rng.choice([0, 1, 2, 3, 4, 6]))}
    if k == "struct":
        return t[3](*[gen(rng, ft, small) for _, ft in t[2]])
    if k == "tuple":
        return tuple(gen(rng, x, small) for x in t[1:])
    if k == "dict":
        d = {}
        for _ in range(rng.choice([0, 1, 2, 4])):
            d[gen(rng, t[1])] = gen(rng, t[2])
        return d
    raise TypeError(t)


def to_lean(v, t):
    k = t[0]
    if k == "str":
        return P.lean_str(v)
    if k == "int":
        return "(%d : Int)" % v
    if k == "bool":
        return "true" if v else "false"
    if k == "opt":
        return "(none : %s)" % P.lean_type(t) if v is None else "(some %s)" % to_lean(v, t[1])
    if k == "list":
        return "([%s] : %s)" % (", ".join(to_lean(x, t[1]) for x in v), P.lean_type(t))
    if k == "tuple":
        return "(%s)" % ", ".join(to_lean(x, tx) for x, tx in zip(v, t[1:]))
    if k == "dict":
        return "([%s] : %s)" % (", ".join("(%s, %s)" % (to_lean(a, t[1]), to_lean(b, t[2])) for a, b in v.items()),
                                P.lean_type(t))
    if k == "set":
        return "([%s] : %s)" % (", ".join(to_lean(x, t[1]) for x in v), P.lean_type(t))
    if k == "struct":
        return "(⟨%s⟩ : %s)" % (", ".join(to_lean(getattr(v, f), ft) for f, ft in t[2]), t[1])
    raise TypeError(t)


def canon(v, t):
    """the JSON value the Lean side prints for v : t"""
    k = t[0]
    if k == "str":
        return [ord(c) for c in v]
    if k in ("int", "bool"):
        return v
    if k == "none":
        return None
    if k == "opt":
        return None if v is None else [canon(v, t[1])]
    if k == "list":
        return [canon(x, t[1]) for x in v]
    if k == "tuple":
        return [canon(x, tx) for x, tx in zip(v, t[1:])]
    if k == "set":
        return sorted((canon(x, t[1]) for x in v), key=json.dumps)
    if k == "dict":        # insertion order is compared
        return [[canon(a, t[1]), canon(b, t[2])] for a, b in v.items()]
    if k == "struct":
        return [canon(getattr(v, f), ft) for f, ft in t[2]]
    raise TypeError(t)


def norm(g, t):
    """the Lean answer (parsed JSON) with every set sorted like `canon` does"""
    k = t[0]
    if g is None or k in ("str", "int", "bool", "none"):
        return g
    if k == "opt":
        return [norm(g[0], t[1])]
    if k == "list":
        return [norm(x, t[1]) for x in g]
    if k == "set":
        return sorted((norm(x, t[1]) for x in g), key=json.dumps)
    if k == "tuple":
        return [norm(x, tx) for x, tx in zip(g, t[1:])]
    if k == "dict":
        return [[norm(a, t[1]), norm(b, t[2])] for a, b in g]
    if k == "struct":
        return [norm(x, ft) for x, (_, ft) in zip(g, t[2])]
    raise TypeError(t)


def struct_preamble(specs):
    """Lean declarations (structure + JSON printer) of the NamedTuple classes the sample Specs mention"""
    found = {}
    for sp in specs:
        for t in [t for _, t in sp.params] + [sp.ret]:
            P._structs_of(t, found)
    out = []
    done = []

    def emit(t):
        if t[1] in done:
            return
        for _, ft in t[2]:
            if ft[0] == "struct":
                emit(ft)
        done.append(t[1])
        out.append("structure %s where" % t[1])
        out.extend("  %s : %s" % (f, P.lean_type(ft)) for f, ft in t[2])
        out.append("")
    for t in found.values():
        emit(t)
    return out, list(done), found


PRELUDE = r"""
class ToJ (α : Type) where
  toJ : α → String
open ToJ
instance : ToJ Char := ⟨fun c => toString c.toNat⟩
instance : ToJ Int := ⟨fun i => toString i⟩
instance : ToJ Bool := ⟨fun b => if b then "true" else "false"⟩
instance : ToJ Unit := ⟨fun _ => "null"⟩
instance {α} [ToJ α] : ToJ (List α) := ⟨fun xs => "[" ++ ", ".intercalate (xs.map toJ) ++ "]"⟩
instance {α} [ToJ α] : ToJ (Option α) := ⟨fun o => match o with | none => "null" | some x => "[" ++ toJ x ++ "]"⟩
class ToJs (α : Type) where
  toJs : α → List String
instance (priority := low) {α} [ToJ α] : ToJs α := ⟨fun x => [toJ x]⟩
instance {α β} [ToJ α] [ToJs β] : ToJs (α × β) := ⟨fun p => toJ p.1 :: ToJs.toJs p.2⟩
instance {α β} [ToJ α] [ToJs β] : ToJ (α × β) := ⟨fun p => "[" ++ ", ".intercalate (ToJs.toJs p) ++ "]"⟩
def errName : Verif.PyRt.PyErr → String
  | .user c => c
  | e => ((reprStr e).splitOn ".").getLast!
instance {α} [ToJ α] : ToJ (Except Verif.PyRt.PyErr α) :=
  ⟨fun r => match r with | .ok v => "{\"ok\": " ++ toJ v ++ "}" | .error e => "{\"err\": \"" ++ errName e ++ "\"}"⟩
"""


def ds_key_type(sp):
    return next(t[1] for _, t in sp.params if t[0] == "dict")


def run(specs, n, seed, label):
    rng = random.Random(seed)
    pre, snames, found = struct_preamble(specs)
    text = P.translate_module(specs, "Verif.Trans.SelfTest", preamble=pre)
    lines = [text, PRELUDE]
    for nm in snames:
        fields = [f for f, _ in found[nm][2]]
        lines.append("instance : ToJ %s := ⟨fun v => \"[\" ++ \", \".intercalate [%s] ++ \"]\"⟩"
                     % (nm, ", ".join("toJ v.%s" % f for f in fields)))
    lines.append("open Verif.Trans.SelfTest Verif.PyRt")
    expected = []
    rets = []
    chunk = []
    nchunks = 0

    def flush():
        nonlocal chunk, nchunks
        if chunk:
            lines.append("def results%d : List String := [\n  %s]" % (nchunks, ",\n  ".join(chunk)))
            lines.append("#eval results%d.forM (fun s => IO.println (\"R \" ++ s))" % nchunks)
            nchunks += 1
            chunk = []
    for sp in specs:
        for _ in range(n):
            gparams = getattr(sp, "gen_params", None)        # (unused parameters still get an argument in Python)
            if gparams is None:
                import inspect
                gparams = [(p, dict(sp.params).get(p, P.Lst(P.INT))) for p in inspect.signature(sp.fn).parameters
                           if p not in sp.fixed] if sp.unused else sp.params
            args = [gen(rng, t, sp.small_ints or sp.name in getattr(S, 'SMALL_INTS', ())) for _, t in gparams]
            if sp.assume:
                args = [(a or gen(rng, t, True) or a) if sp.assume.get(p) else a for a, (p, t) in zip(args, gparams)]
                if any(sp.assume.get(p) and not a for a, (p, t) in zip(args, gparams)):
                    continue
            ds = [a for a, (_, t) in zip(args, gparams) if t[0] == "dict" and a]
            if ds and rng.random() < 0.6:      # make `k in d` / d[k] succeed often
                args = [rng.choice(list(ds[0])) if t == ds_key_type(sp) else a for a, (_, t) in zip(args, gparams)]
            kw = dict(sp.fixed)
            try:
                import copy
                called = copy.deepcopy(args)
                res = sp.fn(*called, **kw)
                if sp.outparams:       # the result, then the new values of the mutated arguments
                    after = dict(zip([p for p, _ in gparams], called))
                    res = tuple(([] if sp.ret == P.NONE else [res]) + [after[p] for p in sp.outparams])
                    if len(res) == 1:
                        res = res[0]
                exp = canon(res, sp.lean_ret())
                if sp.monadic:
                    exp = {"ok": exp}
            except Exception as e:     # noqa: BLE001 — the exception class is the observation
                exp = {"err": type(e).__name__}
                if isinstance(e, RecursionError) and sp.fuel:
                    exp = {"err": "fuel"}      # unbounded recursion: Python gives up by its stack, the model by its fuel
                if not sp.monadic:
                    exp = {"err-but-translated-as-pure": type(e).__name__}
            expected.append((sp.name, args, exp))
            # the unknown set order: identity / reverse / a rotation that depends on the site — the Python result must
            # be the same SET whichever the translated function is given
            orders = ["(fun _ {_} l => l)", "(fun _ {_} l => l.reverse)", "(fun k {_} l => l.drop ((k + 1) % (l.length + 1)) ++ l.take ((k + 1) % (l.length + 1)))"]
            unused = set(sp.unused)
            chunk.append("toJ (%s)" % " ".join(
                [sp.name] + (["%d" % S.FUEL] if sp.fuel else [])
                + ([orders[len(expected) % 3]] if sp.set_order else [])
                + [o.name[:-2] for o in sp.opaque]
                + [to_lean(a, t) for a, (p, t) in zip(args, gparams) if p not in unused]))
            rets.append(sp.lean_ret())
            if len(chunk) >= 40:
                flush()
    flush()
    d = os.path.join(paths.LEAN, "Scratch")
    os.makedirs(d, exist_ok=True)
    fn = os.path.join(d, "SelfTest_%s_%d.lean" % (label, os.getpid()))
    with open(fn, "w", encoding="utf-8") as f:
        f.write("\n".join(lines) + "\n")
    p = subprocess.run(["lake", "env", "lean", fn], cwd=paths.LEAN, stdout=subprocess.PIPE, stderr=subprocess.STDOUT,
                       text=True, timeout=3000)
    got = [json.loads(ln[2:]) for ln in p.stdout.split("\n") if ln.startswith("R ")]
    if len(got) != len(expected):
        print(p.stdout[-3000:])
        raise SystemExit("%s: Lean answered %d of %d evaluations (see %s)" % (label, len(got), len(expected), fn))
    bad = 0
    per = {}
    errs = {}
    for (name, args, exp), g, rt in zip(expected, got, rets):
        if isinstance(g, dict) and "ok" in g:
            g = {"ok": norm(g["ok"], rt)}
        elif not isinstance(g, dict):
            g = norm(g, rt)
        c = per.setdefault(name, [0, 0])
        c[0] += 1
        if isinstance(exp, dict) and "err" in exp:
            errs[name] = errs.get(name, 0) + 1
        if json.dumps(exp, sort_keys=True) != json.dumps(g, sort_keys=True):
            c[1] += 1
            bad += 1
            if bad <= 10:
                print("MISMATCH %s%r\n   python: %s\n   lean:   %s" % (name, tuple(args), json.dumps(exp), json.dumps(g)))
    for name, (tot, b) in per.items():
        print("  %-16s %4d inputs, %3d raised, %d mismatches" % (name, tot, errs.get(name, 0), b))
    os.remove(fn)
    return len(expected), bad


def sample_specs():
    out = []
    for name, fn in vars(S).items():
        if isinstance(fn, type) and issubclass(fn, tuple) and hasattr(fn, "_fields") and fn.__module__ == S.__name__:
            st = t_of(fn)
            for mname, m in vars(fn).items():        # the NamedTuple's own methods
                if callable(m) and not mname.startswith("_") and hasattr(m, "__code__") and mname == "add":
                    h = typing.get_type_hints(m)
                    ps = [(p, st if p == "self" else t_of(h[p])) for p in m.__code__.co_varnames[:m.__code__.co_argcount]]
                    out.append(P.Spec(m, "%s_%s" % (name, mname), ps, t_of(h["return"])))
        if name.startswith("s_") and callable(fn):
            h = typing.get_type_hints(fn)
            unused = getattr(S, "UNUSED", {}).get(name, ())
            params = [(p, P.UNUSED if p in unused else t_of(h[p]))
                      for p in fn.__code__.co_varnames[:fn.__code__.co_argcount]]
            opq = []
            for hn in getattr(S, "OPAQUE", {}).get(name, ()):
                hf = getattr(S, hn)
                hh = typing.get_type_hints(hf)
                hp = [(p, t_of(hh[p])) for p in hf.__code__.co_varnames[:hf.__code__.co_argcount]]
                opq.append(P.Opaque(hf, hn + "_O", hp, t_of(hh["return"]), monadic=True))
            sp = P.Spec(fn, name, params, t_of(h["return"]), opaque=opq, assume=getattr(S, "ASSUME", {}).get(name),
                        set_order=name.startswith("s_ord_"))
            sp.gen_params = [(p, t_of(h[p])) for p in fn.__code__.co_varnames[:fn.__code__.co_argcount]]
            out.append(sp)
    return out


def refusals(done_specs=()):
    """every u_* sample must raise Unsupported (callees among the accepted samples count as translated)"""
    bad = 0
    done = {id(sp.fn): sp for sp in done_specs}
    names = [n for n in vars(S) if n.startswith("u_")]
    for name in names:
        fn = getattr(S, name)
        h = typing.get_type_hints(fn)
        params = [(p, t_of(h[p])) for p in fn.__code__.co_varnames[:fn.__code__.co_argcount]]
        try:
            P.translate_function(P.Spec(fn, name, params, t_of(h["return"])), done)
            print("  NOT REFUSED: %s" % name)
            bad += 1
        except P.Unsupported as e:
            if os.environ.get("PY2LEAN_VERBOSE"):
                print("  refused: %s" % e)
    print("refusals: %d of %d unsupported samples refused" % (len(names) - bad, len(names)))
    return bad


def property_specs():
    """the Spec lists the registered checks translate (their `translations()` argument), re-built here by name"""
    import importlib
    out = {}
    for pid in ("c08", "c01", "c02", "c03", "c07", "c09", "c10", "c13", "c14", "c17", "c18"):
        try:
            mod = importlib.import_module("harness." + pid)
        except Exception:      # noqa: BLE001
            continue
        f = getattr(mod.CHECK, "translation_specs", None)
        if f is not None:
            out[pid.upper()] = f()
    return out


def whitespace_table():
    """PyRt.pyWhitespaceCodes against CPython's str.isspace / str.split() for EVERY code point"""
    fn = os.path.join(paths.LEAN, "Scratch", "SelfTest_ws_%d.lean" % os.getpid())
    os.makedirs(os.path.dirname(fn), exist_ok=True)
    with open(fn, "w", encoding="utf-8") as f:
        f.write("import Verif.Common.PyRt\n#eval IO.println (\"R \" ++ toString Verif.PyRt.pyWhitespaceCodes)\n")
    p = subprocess.run(["lake", "env", "lean", fn], cwd=paths.LEAN, stdout=subprocess.PIPE, stderr=subprocess.STDOUT,
                       text=True, timeout=600)
    os.remove(fn)
    got = [json.loads(ln[2:]) for ln in p.stdout.split("\n") if ln.startswith("R ")]
    want = [c for c in range(0x110000) if not 0xD800 <= c <= 0xDFFF and chr(c).isspace()]
    want2 = [c for c in range(0x110000) if not 0xD800 <= c <= 0xDFFF and ("a" + chr(c) + "b").split() == ["a", "b"]]
    want3 = [c for c in range(0x110000) if not 0xD800 <= c <= 0xDFFF and (chr(c) + "b").strip() == "b"]
    ok = got == [want] and want == want2 == want3
    print("whitespace table: %d code points, %s CPython's isspace/split()/strip() on all 0x110000 code points"
          % (len(want), "equal to" if ok else "DIFFERENT FROM"))
    return 0 if ok else 1


def main():
    n = int(sys.argv[1]) if len(sys.argv) > 1 else 300
    seed = int(sys.argv[2]) if len(sys.argv) > 2 else 0
    total = bad = 0
    print("samples:")
    sspecs = sample_specs()
    t, b = run(sspecs, n, seed, "samples")
    total, bad = total + t, bad + b
    for pid, specs in property_specs().items():
        # specs that mention a caller-declared structure are skipped (no input generator / Lean import for them here)
        plain = [sp for sp in specs if "struct" not in repr((sp.params, sp.ret))]
        if len(plain) < len(specs):
            print("%s: skipped (struct types): %s" % (pid, ", ".join(sp.name for sp in specs if sp not in plain)))
        if plain:
            print("%s:" % pid)
            t, b = run(plain, n, seed, pid)
            total, bad = total + t, bad + b
    bad += refusals(sspecs)
    bad += whitespace_table()
    print("py2lean selftest: %d evaluations compared, %d mismatches/non-refusals" % (total, bad))
    return 1 if bad else 0


if __name__ == "__main__":
    sys.exit(main())
