"""Self-test of the TRANSLATOR (trusted base): every sample function of py2lean_samples.py and every function a
property translates is translated, the Lean definition is evaluated (`lake env lean` on a scratch file) and the real
Python function is called on the same random inputs; the answers must be identical.

    cd /verif && PYTHONPATH=/repo /venv/bin/python -B -m harness.common.py2lean_selftest [N per function] [seed]

Not registered as a check; run by hand after a change to py2lean.py / PyRt.lean.  Prints the counts."""
import json
import os
import random
import subprocess
import sys
import typing

from . import paths, py2lean as P, py2lean_samples as S

paths.ensure_repo_on_path()

ALPHA = ["\\", "@", "s", "n", "\n", "a", "a", "b", "b", " ", "\t", "'", '"', "é", "\x1f", " ", "\U0001F600", "k"]


def t_of(h):
    if h is str:
        return P.STR
    if h is int:
        return P.INT
    if h is bool:
        return P.BOOL
    o, a = typing.get_origin(h), typing.get_args(h)
    if o is list:
        return P.Lst(t_of(a[0]))
    if o is tuple:
        return P.Tup(*[t_of(x) for x in a])
    if o is dict:
        return P.Dict(t_of(a[0]), t_of(a[1]))
    if o is typing.Union and len(a) == 2 and a[1] is type(None):
        return P.Opt(t_of(a[0]))
    raise TypeError(h)


def gen(rng, t, small=False):
    k = t[0]
    if k == "str":
        n = rng.choice([0, 0, 1, 1, 2, 3, 5, 8])
        return "".join(rng.choice(ALPHA) for _ in range(n))
    if k == "int":
        r = rng.random() * (0.79 if small else 1)
        if r < 0.8:
            return rng.randint(-6, 8)
        if r < 0.9:
            return rng.choice([13, 100, 101, -100])
        return rng.choice([2 ** 31, -2 ** 63 - 1, 10 ** 20 + 7, -10 ** 19])
    if k == "bool":
        return rng.random() < 0.5
    if k == "opt":
        return None if rng.random() < 0.3 else gen(rng, t[1], small)
    if k == "list":
        return [gen(rng, t[1], small) for _ in range(rng.choice([0, 1, 2, 3, 4, 6]))]
    if k == "tuple":
        return tuple(gen(rng, x, small) for x in t[1:])
    if k == "dict":
        d = {}
        for _ in range(rng.choice([0, 1, 2, 4])):
            d[gen(rng, t[1])] = gen(rng, t[2])
        return d
    raise TypeError(t)


def to_lean(v, t):
    k = t[0]
    if k == "str":
        return P.lean_str(v)
    if k == "int":
        return "(%d : Int)" % v
    if k == "bool":
        return "true" if v else "false"
    if k == "opt":
        return "(none : %s)" % P.lean_type(t) if v is None else "(some %s)" % to_lean(v, t[1])
    if k == "list":
        return "([%s] : %s)" % (", ".join(to_lean(x, t[1]) for x in v), P.lean_type(t))
    if k == "tuple":
        return "(%s)" % ", ".join(to_lean(x, tx) for x, tx in zip(v, t[1:]))
    if k == "dict":
        return "([%s] : %s)" % (", ".join("(%s, %s)" % (to_lean(a, t[1]), to_lean(b, t[2])) for a, b in v.items()),
                                P.lean_type(t))
    raise TypeError(t)


def canon(v, t):
    """the JSON value the Lean side prints for v : t"""
    k = t[0]
    if k == "str":
        return [ord(c) for c in v]
    if k in ("int", "bool"):
        return v
    if k == "none":
        return None
    if k == "opt":
        return None if v is None else [canon(v, t[1])]
    if k == "list":
        return [canon(x, t[1]) for x in v]
    if k == "tuple":
        return [canon(x, tx) for x, tx in zip(v, t[1:])]
    raise TypeError(t)


PRELUDE = r"""
class ToJ (α : Type) where
  toJ : α → String
open ToJ
instance : ToJ Char := ⟨fun c => toString c.toNat⟩
instance : ToJ Int := ⟨fun i => toString i⟩
instance : ToJ Bool := ⟨fun b => if b then "true" else "false"⟩
instance : ToJ Unit := ⟨fun _ => "null"⟩
instance {α} [ToJ α] : ToJ (List α) := ⟨fun xs => "[" ++ ", ".intercalate (xs.map toJ) ++ "]"⟩
instance {α} [ToJ α] : ToJ (Option α) := ⟨fun o => match o with | none => "null" | some x => "[" ++ toJ x ++ "]"⟩
class ToJs (α : Type) where
  toJs : α → List String
instance (priority := low) {α} [ToJ α] : ToJs α := ⟨fun x => [toJ x]⟩
instance {α β} [ToJ α] [ToJs β] : ToJs (α × β) := ⟨fun p => toJ p.1 :: ToJs.toJs p.2⟩
instance {α β} [ToJ α] [ToJs β] : ToJ (α × β) := ⟨fun p => "[" ++ ", ".intercalate (ToJs.toJs p) ++ "]"⟩
def errName : Verif.PyRt.PyErr → String
  | .user c => c
  | e => ((reprStr e).splitOn ".").getLast!
instance {α} [ToJ α] : ToJ (Except Verif.PyRt.PyErr α) :=
  ⟨fun r => match r with | .ok v => "{\"ok\": " ++ toJ v ++ "}" | .error e => "{\"err\": \"" ++ errName e ++ "\"}"⟩
"""


def ds_key_type(sp):
    return next(t[1] for _, t in sp.params if t[0] == "dict")


def run(specs, n, seed, label):
    rng = random.Random(seed)
    text = P.translate_module(specs, "Verif.Trans.SelfTest")
    lines = [text, PRELUDE, "open Verif.Trans.SelfTest Verif.PyRt"]
    expected = []
    chunk = []
    nchunks = 0

    def flush():
        nonlocal chunk, nchunks
        if chunk:
            lines.append("def results%d : List String := [\n  %s]" % (nchunks, ",\n  ".join(chunk)))
            lines.append("#eval results%d.forM (fun s => IO.println (\"R \" ++ s))" % nchunks)
            nchunks += 1
            chunk = []
    for sp in specs:
        for _ in range(n):
            args = [gen(rng, t, sp.small_ints or sp.name in getattr(S, 'SMALL_INTS', ())) for _, t in sp.params]
            ds = [a for a, (_, t) in zip(args, sp.params) if t[0] == "dict" and a]
            if ds and rng.random() < 0.6:      # make `k in d` / d[k] succeed often
                args = [rng.choice(list(ds[0])) if t == ds_key_type(sp) else a for a, (_, t) in zip(args, sp.params)]
            kw = dict(sp.fixed)
            try:
                import copy
                res = sp.fn(*copy.deepcopy(args), **kw)
                exp = canon(res, sp.ret)
                if sp.monadic:
                    exp = {"ok": exp}
            except Exception as e:     # noqa: BLE001 — the exception class is the observation
                exp = {"err": type(e).__name__}
                if not sp.monadic:
                    exp = {"err-but-translated-as-pure": type(e).__name__}
            expected.append((sp.name, args, exp))
            chunk.append("toJ (%s)" % " ".join([sp.name] + [to_lean(a, t) for a, (_, t) in zip(args, sp.params)]))
            if len(chunk) >= 40:
                flush()
    flush()
    d = os.path.join(paths.LEAN, "Scratch")
    os.makedirs(d, exist_ok=True)
    fn = os.path.join(d, "SelfTest_%s_%d.lean" % (label, os.getpid()))
    with open(fn, "w", encoding="utf-8") as f:
        f.write("\n".join(lines) + "\n")
    p = subprocess.run(["lake", "env", "lean", fn], cwd=paths.LEAN, stdout=subprocess.PIPE, stderr=subprocess.STDOUT,
                       text=True, timeout=3000)
    got = [json.loads(ln[2:]) for ln in p.stdout.split("\n") if ln.startswith("R ")]
    if len(got) != len(expected):
        print(p.stdout[-3000:])
        raise SystemExit("%s: Lean answered %d of %d evaluations (see %s)" % (label, len(got), len(expected), fn))
    bad = 0
    per = {}
    errs = {}
    for (name, args, exp), g in zip(expected, got):
        c = per.setdefault(name, [0, 0])
        c[0] += 1
        if isinstance(exp, dict) and "err" in exp:
            errs[name] = errs.get(name, 0) + 1
        if json.dumps(exp, sort_keys=True) != json.dumps(g, sort_keys=True):
            c[1] += 1
            bad += 1
            if bad <= 10:
                print("MISMATCH %s%r\n   python: %s\n   lean:   %s" % (name, tuple(args), json.dumps(exp), json.dumps(g)))
    for name, (tot, b) in per.items():
        print("  %-16s %4d inputs, %3d raised, %d mismatches" % (name, tot, errs.get(name, 0), b))
    os.remove(fn)
    return len(expected), bad


def sample_specs():
    out = []
    for name, fn in vars(S).items():
        if name.startswith("s_") and callable(fn):
            h = typing.get_type_hints(fn)
            params = [(p, t_of(h[p])) for p in fn.__code__.co_varnames[:fn.__code__.co_argcount]]
            out.append(P.Spec(fn, name, params, t_of(h["return"])))
    return out


def refusals():
    """every u_* sample must raise Unsupported"""
    bad = 0
    names = [n for n in vars(S) if n.startswith("u_")]
    for name in names:
        fn = getattr(S, name)
        h = typing.get_type_hints(fn)
        params = [(p, t_of(h[p])) for p in fn.__code__.co_varnames[:fn.__code__.co_argcount]]
        try:
            P.translate_function(P.Spec(fn, name, params, t_of(h["return"])))
            print("  NOT REFUSED: %s" % name)
            bad += 1
        except P.Unsupported:
            pass
    print("refusals: %d of %d unsupported samples refused" % (len(names) - bad, len(names)))
    return bad


def property_specs():
    """the Spec lists the registered checks translate (their `translations()` argument), re-built here by name"""
    import importlib
    out = {}
    for pid in ("c08", "c01", "c02", "c03", "c09", "c10", "c13", "c14", "c17", "c18"):
        try:
            mod = importlib.import_module("harness." + pid)
        except Exception:      # noqa: BLE001
            continue
        f = getattr(mod.CHECK, "translation_specs", None)
        if f is not None:
            out[pid.upper()] = f()
    return out


def main():
    n = int(sys.argv[1]) if len(sys.argv) > 1 else 300
    seed = int(sys.argv[2]) if len(sys.argv) > 2 else 0
    total = bad = 0
    print("samples:")
    t, b = run(sample_specs(), n, seed, "samples")
    total, bad = total + t, bad + b
    for pid, specs in property_specs().items():
        if all(k[0] != "struct" for sp in specs for _, k in sp.params):
            print("%s:" % pid)
            t, b = run(specs, n, seed, pid)
            total, bad = total + t, bad + b
    bad += refusals()
    print("py2lean selftest: %d evaluations compared, %d mismatches/non-refusals" % (total, bad))
    return 1 if bad else 0


if __name__ == "__main__":
    sys.exit(main())
