"""Build, audit and drive the Lean side."""
import json
import os
import re
import subprocess
import time

from . import paths

ALLOWED_AXIOMS = {"propext", "Classical.choice", "Quot.sound"}
FORBIDDEN = re.compile(
    r"\bsorry\b|\badmit\b|^\s*axiom\s|\bnative_decide\b|\bbv_decide\b|implemented_by|\bunsafe\s|maxHeartbeats\s+0\b",
    re.M)


def _env():
    env = dict(os.environ)
    env.setdefault("LAKE_NO_CACHE", "1")
    return env


def lake_build(targets, timeout=3000):
    """Returns (ok, log)."""
    t0 = time.time()
    p = subprocess.run(["lake", "build"] + list(targets), cwd=paths.LEAN, env=_env(),
                       stdout=subprocess.PIPE, stderr=subprocess.STDOUT, text=True, timeout=timeout)
    return p.returncode == 0, p.stdout, time.time() - t0


def strip_comments(src):
    # block comments (possibly nested) then line comments
    out = []
    depth = 0
    i = 0
    n = len(src)
    while i < n:
        if src.startswith("/-", i):
            depth += 1
            i += 2
        elif depth and src.startswith("-/", i):
            depth -= 1
            i += 2
        elif depth:
            if src[i] == "\n":
                out.append("\n")
            i += 1
        elif src.startswith("--", i):
            while i < n and src[i] != "\n":
                i += 1
        else:
            out.append(src[i])
            i += 1
    return "".join(out)


def theorem_names(props_path):
    """(namespace, [theorem names]) of a Props file."""
    with open(props_path, encoding="utf-8") as f:
        src = strip_comments(f.read())
    ns = re.search(r"^namespace\s+(\S+)", src, re.M)
    names = re.findall(r"^\s*(?:@\[[^\]]*\]\s*)?(?:private\s+|protected\s+)?theorem\s+(\S+)", src, re.M)
    return (ns.group(1) if ns else ""), names


def forbidden_tokens(files):
    hits = []
    for fn in files:
        if not os.path.exists(fn):
            continue
        with open(fn, encoding="utf-8") as f:
            src = strip_comments(f.read())
        for m in FORBIDDEN.finditer(src):
            line = src.count("\n", 0, m.start()) + 1
            hits.append("%s:%d:%s" % (os.path.relpath(fn, paths.VERIF), line, m.group(0).strip()))
    return hits


def audit(pid, props_modules):
    """Runs `#print axioms` over every theorem of the given Props modules.

    Returns dict(obligations, discharged, bad=[(thm, axioms)], missing=[thm], log).
    """
    lines = []
    all_names = []
    for mod in props_modules:
        path = os.path.join(paths.LEAN, *mod.split(".")) + ".lean"
        ns, names = theorem_names(path)
        lines.append("import %s" % mod)
        all_names.append((ns, names))
    body = []
    full = []
    for ns, names in all_names:
        for nm in names:
            q = (ns + "." + nm) if ns else nm
            full.append(q)
            body.append("#print axioms %s" % q)
    audit_dir = os.path.join(paths.LEAN, "Audit")
    os.makedirs(audit_dir, exist_ok=True)
    fn = os.path.join(audit_dir, "%s.lean" % pid)
    with open(fn, "w", encoding="utf-8") as f:
        f.write("\n".join(lines) + "\n" + "\n".join(body) + "\n")
    p = subprocess.run(["lake", "env", "lean", fn], cwd=paths.LEAN, env=_env(),
                       stdout=subprocess.PIPE, stderr=subprocess.STDOUT, text=True, timeout=1800)
    out = p.stdout
    res = {}
    # messages may wrap over several lines
    flat = re.sub(r"\s+", " ", out)
    for m in re.finditer(r"'([^']+)' depends on axioms: \[([^\]]*)\]", flat):
        res[m.group(1)] = [a.strip() for a in m.group(2).split(",") if a.strip()]
    for m in re.finditer(r"'([^']+)' does not depend on any axioms", flat):
        res[m.group(1)] = []
    bad = []
    missing = []
    ok = 0
    for q in full:
        if q not in res:
            missing.append(q)
        elif set(res[q]) - ALLOWED_AXIOMS:
            bad.append((q, res[q]))
        else:
            ok += 1
    return {"obligations": len(full), "discharged": ok, "bad": bad, "missing": missing,
            "theorems": full, "axioms": res, "log": out if (bad or missing or p.returncode) else ""}


def broken_theorems(build_log, props_modules):
    """Map `error: path:line:col` messages of a failed build to the nearest theorem above."""
    names = []
    for m in re.finditer(r"error: (\S+?\.lean):(\d+):(\d+)", build_log):
        rel, line = m.group(1), int(m.group(2))
        path = os.path.join(paths.LEAN, rel)
        thm = None
        try:
            with open(path, encoding="utf-8") as f:
                src = f.read().split("\n")
            for i in range(min(line, len(src)) - 1, -1, -1):
                mm = re.match(r"\s*(?:theorem|lemma|def|example|instance)\s+(\S+)", src[i])
                if mm:
                    thm = mm.group(1)
                    break
        except OSError:
            pass
        names.append("%s:%d (%s)" % (rel, line, thm or "?"))
    return names


def run_driver(driver_rel, requests, timeout=1800):
    """Pipe one JSON request per line through the driver; returns list of answers (parsed JSON).

    Lines not starting with 'R ' (elaborator chatter) are ignored.
    """
    data = "\n".join(json.dumps(r, separators=(",", ":")) for r in requests) + "\n"
    import signal
    proc = subprocess.Popen(["lake", "env", "lean", "--run", driver_rel], cwd=paths.LEAN, env=_env(),
                            stdin=subprocess.PIPE, stdout=subprocess.PIPE, stderr=subprocess.PIPE, text=True,
                            start_new_session=True)
    try:
        out, err = proc.communicate(data, timeout=timeout)
    except subprocess.TimeoutExpired:
        try:
            os.killpg(proc.pid, signal.SIGKILL)   # lake spawns lean: kill the whole group
        except OSError:
            pass
        proc.wait()
        raise RuntimeError("driver %s timed out after %s s" % (driver_rel, timeout))

    class _P:
        pass
    p = _P()
    p.stdout, p.stderr, p.returncode = out, err, proc.returncode
    answers = []
    for line in p.stdout.split("\n"):
        if line.startswith("R "):
            answers.append(json.loads(line[2:]))
    if len(answers) != len(requests):
        raise RuntimeError("driver %s answered %d of %d requests (exit %s)\nstdout tail: %s\nstderr tail: %s"
                           % (driver_rel, len(answers), len(requests), p.returncode,
                              p.stdout[-2000:], p.stderr[-2000:]))
    return answers


def leanchecker(modules, timeout=1800):
    """Independent re-check of the compiled .olean files (thorough tier). Returns (ok, tail of output)."""
    p = subprocess.run(["lake", "env", "leanchecker"] + list(modules), cwd=paths.LEAN, env=_env(),
                       stdout=subprocess.PIPE, stderr=subprocess.STDOUT, text=True, timeout=timeout)
    return p.returncode == 0, p.stdout[-2000:]
