"""Shared MRS / DMRS generators and object <-> JSON converters (used by C04-C07).

JSON shapes are those of lean/Verif/Common/SemJson.lean:
  var  ["x", 5]             (canonical numerals only: str(int(vid)) == vid)
  ep   {"pred", "label", "args": [[role, var]...], "carg", "lnk", "surface", "base"}
  mrs  {"top", "index", "rels", "hcons": [[hi, rel, lo]], "icons", "vars": [[var, [[k, v]...]]]}
  node {"id", "pred", "type", "props": [[k, v]...], "carg", "lnk", "surface", "base"}
  dmrs {"top", "index", "nodes", "links": [[start, end, role, post]]}
Every object built from JSON is fresh (EP ids are patched in place by MRS.__init__).
All names are ASCII.
"""
import itertools

from . import paths

paths.ensure_repo_on_path()
from delphin import dmrs as _dmrs  # noqa: E402
from delphin import mrs as _mrs  # noqa: E402
from delphin import variable  # noqa: E402
from delphin.lnk import Lnk  # noqa: E402


# ---------------------------------------------------------------- variables

def var_to_json(v):
    if v is None:
        return None
    t, vid = variable.split(v)
    if str(int(vid)) != vid:
        raise ValueError("non-canonical variable id: %r" % (v,))
    return [t, int(vid)]


def var_from_json(j):
    if j is None:
        return None
    return "%s%d" % (j[0], j[1])


def _lnk_to_json(lnk):
    if lnk is None or lnk.type != Lnk.CHARSPAN:
        return None
    return [lnk.data[0], lnk.data[1]]


def _lnk_from_json(j):
    return None if j is None else Lnk.charspan(j[0], j[1])


# ---------------------------------------------------------------- MRS

def ep_to_json(ep):
    return {"pred": ep.predicate, "label": var_to_json(ep.label),
            "args": [[r, var_to_json(v)] for r, v in ep.args.items() if r != _mrs.CONSTANT_ROLE],
            "carg": ep.carg, "lnk": _lnk_to_json(ep.lnk), "surface": ep.surface, "base": ep.base}


def ep_from_json(j):
    args = {}
    for r, v in j["args"]:
        if r in args or r == _mrs.CONSTANT_ROLE:
            raise ValueError("role %r twice (args is a dict) or CARG among the variable arguments" % (r,))
        args[r] = var_from_json(v)
    if j.get("carg") is not None:
        args[_mrs.CONSTANT_ROLE] = j["carg"]
    return _mrs.EP(j["pred"], var_from_json(j["label"]), args, lnk=_lnk_from_json(j.get("lnk")),
                   surface=j.get("surface"), base=j.get("base"))


def mrs_to_json(m):
    return {"top": var_to_json(m.top), "index": var_to_json(m.index),
            "rels": [ep_to_json(ep) for ep in m.rels],
            "hcons": [[var_to_json(hc.hi), hc.relation, var_to_json(hc.lo)] for hc in m.hcons],
            "icons": [[var_to_json(ic.left), ic.relation, var_to_json(ic.right)] for ic in m.icons],
            "vars": [[var_to_json(v), [[k, val] for k, val in ps.items()]] for v, ps in m.variables.items()]}


def mrs_from_json(j):
    return _mrs.MRS(top=var_from_json(j.get("top")), index=var_from_json(j.get("index")),
                    rels=[ep_from_json(e) for e in j["rels"]],
                    hcons=[_mrs.HCons(var_from_json(a), r, var_from_json(b)) for a, r, b in j.get("hcons", [])],
                    icons=[_mrs.ICons(var_from_json(a), r, var_from_json(b)) for a, r, b in j.get("icons", [])],
                    variables={var_from_json(v): dict((k, val) for k, val in ps) for v, ps in j.get("vars", [])})


# ---------------------------------------------------------------- DMRS

def node_to_json(n):
    return {"id": n.id, "pred": n.predicate, "type": n.type,
            "props": [[k, v] for k, v in n.properties.items()], "carg": n.carg,
            "lnk": _lnk_to_json(n.lnk), "surface": n.surface, "base": n.base}


def node_from_json(j):
    return _dmrs.Node(j["id"], j["pred"], type=j.get("type"),
                      properties=dict((k, v) for k, v in j.get("props", [])), carg=j.get("carg"),
                      lnk=_lnk_from_json(j.get("lnk")), surface=j.get("surface"), base=j.get("base"))


def dmrs_to_json(d):
    """the state of the object AFTER its constructor (top/links normalised)"""
    return {"top": d.top, "index": d.index, "nodes": [node_to_json(n) for n in d.nodes],
            "links": [[l.start, l.end, l.role, l.post] for l in d.links]}


def dmrs_from_json(j):
    return _dmrs.DMRS(top=j.get("top"), index=j.get("index"),
                      nodes=[node_from_json(n) for n in j["nodes"]],
                      links=[_dmrs.Link(a, b, r, p) for a, b, r, p in j.get("links", [])])


# ---------------------------------------------------------------- generators
# (every random choice from the rng passed in)

SORTS = ["x", "e", "i", "p", "u"]
ODD_SORTS = ["ei", "xe", "ref-ind", "hh", "h"]
PREDS = ["_dog_n_1", "_bark_v_1", "_the_q", "_big_a_1", "neg", "_every_q", "named", "_and_c"]
TENSES = ["past", "PRES", "untensed", "UNTENSED", "", "Untensed", "tensed"]


def _small(rng, hi):
    """0..hi skewed small"""
    return min(hi, int(rng.expovariate(0.55)))


def gen_mrs_wild(rng, max_eps=6, allow_missing_iv=False):
    """Arbitrary MRS: shared labels and IVs, dangling / duplicate / cyclic hcons,
    self-scoping arguments, arguments of any sort, optional top."""
    n = rng.choice([0, 1, 1, 2, 2, 2, 3, 3, 3, 4, 4, 5, max_eps])
    nlab = max(1, rng.randrange(1, n + 2))
    labels = [["h", i + 1] for i in range(nlab)]
    holes = [["h", 10 + i] for i in range(3)]
    ivpool = [[rng.choice(SORTS), 20 + i] for i in range(max(1, n))]
    if rng.random() < 0.1:
        ivpool.append([rng.choice(ODD_SORTS), 30])
    rels = []
    share_iv = rng.random() < 0.35
    ivs = []
    for i in range(n):
        if share_iv and ivs and rng.random() < 0.5:
            iv = rng.choice(ivs)
        else:
            iv = ivpool[i % len(ivpool)]
        ivs.append(iv)
    for i in range(n):
        lbl = rng.choice(labels)
        args = []
        if not (allow_missing_iv and rng.random() < 0.15):
            args.append(["ARG0", ivs[i]])
        quant = rng.random() < 0.2
        if quant:
            args.append(["RSTR", rng.choice(holes + labels)])
            if rng.random() < 0.7:
                args.append(["BODY", rng.choice(holes + labels + [["h", 40 + i]])])
        for k in range(_small(rng, 3)):
            role = "ARG%d" % (k + 1)
            r = rng.random()
            if r < 0.4 and ivs:
                v = rng.choice(ivs)
            elif r < 0.6:
                v = rng.choice(holes)
            elif r < 0.75:
                v = rng.choice(labels)
            elif r < 0.85:
                v = lbl                       # self-scoping
            elif r < 0.93:
                v = [rng.choice(SORTS + ["h"]), 50 + k]     # dangling
            else:
                v = [rng.choice(ODD_SORTS), rng.choice([20, 21, 1, 10])]
            args.append([role, v])
        if rng.random() < 0.3:
            rng.shuffle(args)
        carg = "Kim" if rng.random() < 0.1 else None
        rels.append({"pred": rng.choice(PREDS), "label": lbl, "args": args, "carg": carg,
                     "lnk": None, "surface": None, "base": None})
    hcons = []
    for _ in range(_small(rng, 4)):
        hi = rng.choice(holes + [["h", 0]] + labels[:1])
        r = rng.random()
        if r < 0.7:
            lo = rng.choice(labels)
        elif r < 0.85:
            lo = rng.choice(holes)           # cyclic / hole-to-hole
        else:
            lo = ["h", 60]                   # dangling
        hcons.append([hi, rng.choice(["qeq", "qeq", "qeq", "lheq", "outscopes"]), lo])
    r = rng.random()
    if r < 0.55:
        top = ["h", 0]
        if rng.random() < 0.8:
            hcons.insert(rng.randrange(len(hcons) + 1), [["h", 0], "qeq", rng.choice(labels + holes[:1])])
    elif r < 0.7:
        top = rng.choice(labels)
    elif r < 0.85:
        top = rng.choice(holes)
    else:
        top = None
    variables = []
    for iv in ivs:
        if rng.random() < 0.5 and not any(v == iv for v, _ in variables):
            variables.append([iv, [["TENSE", rng.choice(TENSES)]] if rng.random() < 0.8 else [["PERS", "3"]]])
    index = rng.choice(ivs) if ivs and rng.random() < 0.7 else None
    return {"top": top, "index": index, "rels": rels, "hcons": hcons, "icons": [], "vars": variables}


def gen_mrs_tree(rng, max_eps=7, mutual=0.15):
    """Mostly well-formed MRS built constructively: a tree of scopes, every EP linked
    to an earlier one by a shared label, a non-scopal argument or a qeq-ed hole.
    With probability `mutual` two predications of one scope take each other as
    arguments (the class of finding F08)."""
    n = rng.choice([1, 2, 2, 3, 3, 4, 4, 5, 6, max_eps])
    rels = []
    hcons = []
    nh = [0]

    def newh():
        nh[0] += 1
        return ["h", nh[0]]
    top = ["h", 0]
    ivs = []
    used_roles = []
    for i in range(n):
        sort = rng.choice(["x", "e", "e", "e", "i"])
        iv = [sort, 100 + i]
        ivs.append(iv)
        if i == 0:
            lbl = newh()
            hcons.append([top, "qeq", lbl])
            rels.append({"pred": rng.choice(PREDS), "label": lbl, "args": [["ARG0", iv]], "carg": None,
                         "lnk": None, "surface": None, "base": None})
            used_roles.append(0)
            continue
        j = rng.randrange(i)
        r = rng.random()
        me = {"pred": rng.choice(PREDS), "label": None, "args": [["ARG0", iv]], "carg": None,
              "lnk": None, "surface": None, "base": None}
        used_roles.append(0)

        def addarg(k, v):
            used_roles[k] += 1
            rels[k]["args"].append(["ARG%d" % used_roles[k], v])
        if r < 0.3:
            # same scope, new EP modifies the old one
            me["label"] = rels[j]["label"]
            me["args"].append(["ARG1", ivs[j]])
            used_roles[i] = 1
        elif r < 0.45:
            me["label"] = rels[j]["label"]
            rels.append(me)
            addarg(j, iv)
            continue
        elif r < 0.7:
            # old EP takes the new one as a qeq-ed scopal argument
            me["label"] = newh()
            hole = newh()
            hcons.append([hole, "qeq", me["label"]])
            rels.append(me)
            addarg(j, hole)
            continue
        elif r < 0.8:
            # direct label argument (lheq)
            me["label"] = newh()
            rels.append(me)
            addarg(j, me["label"])
            continue
        else:
            # new scope, non-scopal argument
            me["label"] = newh()
            me["args"].append(["ARG1", ivs[j]])
            used_roles[i] = 1
        rels.append(me)
    for i in range(n):
        if ivs[i][0] == "x" and rng.random() < 0.5:
            # quantifier binding ivs[i]: RSTR qeq the noun's label, BODY left open
            hole = newh()
            hcons.append([hole, "qeq", rels[i]["label"]])
            rels.append({"pred": "_the_q", "label": newh(),
                         "args": [["ARG0", ivs[i]], ["RSTR", hole], ["BODY", newh()]], "carg": None,
                         "lnk": None, "surface": None, "base": None})
    if n >= 2 and rng.random() < mutual:
        # two predications sharing a scope that take each other as arguments
        a = rng.randrange(n)
        b = rng.choice([k for k in range(n) if k != a])
        rels[b]["label"] = rels[a]["label"]
        for (s, t) in ((a, b), (b, a)):
            if not any(v == ivs[t] for r_, v in rels[s]["args"] if r_ != "ARG0"):
                used_roles[s] += 1
                rels[s]["args"].append(["ARG%d" % used_roles[s], ivs[t]])
    variables = [[iv, [["TENSE", rng.choice(TENSES)]]] for iv in ivs if iv[0] == "e" and rng.random() < 0.7]
    return {"top": top, "index": ivs[0], "rels": rels, "hcons": hcons, "icons": [], "vars": variables}


def mutate_mrs(rng, m):
    """one small structural change (same JSON shape)"""
    import copy
    m = copy.deepcopy(m)
    k = rng.randrange(8)
    rels = m["rels"]
    if k == 0 and m["hcons"]:
        del m["hcons"][rng.randrange(len(m["hcons"]))]
    elif k == 1 and m["hcons"]:
        hc = rng.choice(m["hcons"])
        hc[2] = ["h", rng.randrange(0, 12)]
    elif k == 2 and rels:
        rng.choice(rels)["label"] = ["h", rng.randrange(1, 8)]
    elif k == 3 and rels:
        ep = rng.choice(rels)
        used = [a[0] for a in ep["args"]]
        role = next("ARG%d" % d for d in range(9, 9 + len(used) + 2) if "ARG%d" % d not in used)
        ep["args"].append([role, rng.choice([ep["label"], ["h", rng.randrange(0, 12)], ["x", 100], ["e", 101]])])
    elif k == 4 and len(rels) > 1:
        a, b = rng.sample(range(len(rels)), 2)
        iv = [v for r, v in rels[a]["args"] if r == "ARG0"]
        if iv:
            rels[b]["args"] = [[r, (iv[0] if r == "ARG0" else v)] for r, v in rels[b]["args"]]
    elif k == 5:
        m["top"] = rng.choice([None, ["h", 0], ["h", 1], ["h", 2]])
    elif k == 6 and rels:
        del rels[rng.randrange(len(rels))]
    elif k == 7 and m["hcons"]:
        m["hcons"].append(list(rng.choice(m["hcons"])))
        m["hcons"][-1][2] = ["h", rng.randrange(1, 6)]
    return m


def enum_small_mrs(max_eps=2):
    """Deterministic enumeration of the small space: up to `max_eps` EPs over labels
    {h1,h2}, IVs {x1,e2} (shared or not), one optional extra argument, hcons drawn
    from a fixed menu (incl. dangling, hole-to-hole and duplicate hi), top in {None,h0,h1}."""
    labels = [["h", 1], ["h", 2]]
    ivs = [["x", 1], ["e", 2]]
    argvals = [None, ["x", 1], ["e", 2], ["h", 1], ["h", 2], ["h", 3], ["h", 0]]
    hc_menu = [[], [[["h", 0], "qeq", ["h", 1]]], [[["h", 0], "qeq", ["h", 2]]], [[["h", 0], "qeq", ["h", 9]]],
               [[["h", 0], "qeq", ["h", 1]], [["h", 3], "qeq", ["h", 2]]],
               [[["h", 0], "qeq", ["h", 1]], [["h", 3], "qeq", ["h", 3]]],
               [[["h", 3], "qeq", ["h", 2]], [["h", 3], "qeq", ["h", 1]], [["h", 0], "qeq", ["h", 1]]],
               [[["h", 0], "qeq", ["h", 3]], [["h", 3], "qeq", ["h", 0]]]]
    tops = [None, ["h", 0], ["h", 1]]
    for n in range(0, max_eps + 1):
        ep_choices = list(itertools.product(labels, ivs, argvals, [False, True]))
        for eps in itertools.product(ep_choices, repeat=n):
            for hcs in hc_menu:
                for top in tops:
                    rels = []
                    for (lbl, iv, av, quant) in eps:
                        args = [["ARG0", iv]]
                        if quant:
                            args.append(["RSTR", av if av is not None else ["h", 3]])
                        elif av is not None:
                            args.append(["ARG1", av])
                        rels.append({"pred": "_p_v_1", "label": lbl, "args": args, "carg": None,
                                     "lnk": None, "surface": None, "base": None})
                    yield {"top": top, "index": None, "rels": rels,
                           "hcons": [list(map(lambda x: x, hc)) for hc in hcs], "icons": [], "vars": []}


def gen_leqs(rng, m):
    """label equalities over the labels of `m` (rarely a foreign label -> KeyError)"""
    labels = []
    for ep in m["rels"]:
        if ep["label"] not in labels:
            labels.append(ep["label"])
    if not labels or rng.random() < 0.2:
        return []
    out = []
    for _ in range(rng.choice([1, 1, 2, 3, len(labels)])):
        a, b = rng.choice(labels), rng.choice(labels)
        if rng.random() < 0.06:
            b = ["h", 99]
        out.append([a, b])
    return out


NODE_PREDS = ["_dog_n_1", "_dog_n_1", "_bark_v_1", "_the_q"]


def gen_dmrs(rng, max_nodes=6):
    """DMRS with arbitrary links (EQ chains, cycles, self loops, H/HEQ, MOD/EQ), many
    nodes that compare equal under Node.__eq__, optional/missing/dangling top.
    Node ids are pairwise distinct."""
    n = rng.choice([0, 1, 2, 2, 3, 3, 4, 4, 5, max_nodes])
    base = rng.choice([10000, 10000, 1, 5])
    ids = [base + i for i in range(n)]
    if rng.random() < 0.3:
        rng.shuffle(ids)
    nodes = []
    for i in ids:
        nodes.append({"id": i, "pred": rng.choice(NODE_PREDS), "type": rng.choice(["x", "x", "e", None]),
                      "props": [["TENSE", rng.choice(TENSES)]] if rng.random() < 0.2 else [],
                      "carg": None, "lnk": None, "surface": None, "base": None})
    links = []
    if n:
        for _ in range(rng.choice([0, 1, 2, 3, n, 2 * n])):
            a, b = rng.choice(ids), rng.choice(ids)
            r = rng.random()
            if r < 0.03:
                b = base + n + 3          # dangling end
            elif r < 0.05:
                a = base + n + 4          # dangling start
            post = rng.choice(["EQ", "EQ", "EQ", "NEQ", "H", "HEQ", "NIL"])
            role = rng.choice(["ARG1", "ARG2", "RSTR", "MOD"]) if post != "NIL" else None
            if role == "MOD":
                post = "EQ"
            links.append([a, b, role if role else "", post])
    r = rng.random()
    if not ids or r < 0.12:
        top = None
    elif r < 0.2:
        top = base + n + 7                # not a node
    else:
        top = rng.choice(ids)
    index = rng.choice(ids) if ids and rng.random() < 0.6 else None
    return {"top": top, "index": index, "nodes": nodes, "links": links}


# ---------------------------------------------------------------- large dense structures (round 2)
# Sizes well beyond the small-space generators: the breadth-first search, the
# component loop and the memoised descent are only stressed (agenda growth,
# duplicates in the agenda, deep recursion) on big, densely linked inputs.

def _ep(pred, lbl, args):
    return {"pred": pred, "label": lbl, "args": args, "carg": None, "lnk": None, "surface": None, "base": None}


def gen_mrs_clique(n, rng=None, drop=0.0, pendants=True, shared_label=True):
    """`n` predications taking each other as arguments (a clique; with `drop` > 0 a
    near-clique: each mutual argument is left out with that probability, but a
    spanning ring is always kept), sharing one label (or one label each), each with a
    private modifier predication in its own scope.  Connected by construction."""
    ivs = [["e", 100 + i] for i in range(n)]
    rels = []
    for i in range(n):
        args = [["ARG0", ivs[i]]]
        k = 0
        for j in range(n):
            if j == i:
                continue
            ring = (j == (i + 1) % n)
            if ring or drop <= 0 or rng is None or rng.random() >= drop:
                k += 1
                args.append(["ARG%d" % k, ivs[j]])
        rels.append(_ep("_c%d_v_1" % i, ["h", 1] if shared_label else ["h", 1 + i], args))
    hcons = [[["h", 0], "qeq", ["h", 1]]]
    if pendants:
        for i in range(n):
            rels.append(_ep("_m%d_a_1" % i, ["h", 1000 + i], [["ARG0", ["e", 500 + i]], ["ARG1", ivs[i]]]))
    if rng is not None and rng.random() < 0.5:
        rng.shuffle(rels)
    return {"top": ["h", 0], "index": ivs[0], "rels": rels, "hcons": hcons, "icons": [], "vars": []}


def gen_mrs_star(fanout, rng=None, scopal=False):
    """one hub taking `fanout` leaves as arguments (non-scopal, or each through its own
    qeq-ed hole), every leaf in its own scope."""
    hub_args = [["ARG0", ["e", 100]]]
    rels = []
    hcons = [[["h", 0], "qeq", ["h", 1]]]
    for i in range(fanout):
        lbl = ["h", 10 + i]
        iv = ["x", 200 + i]
        rels.append(_ep("_leaf%d_n_1" % i, lbl, [["ARG0", iv]]))
        if scopal:
            hole = ["h", 2000 + i]
            hcons.append([hole, "qeq", lbl])
            hub_args.append(["ARG%d" % (i + 1), hole])
        else:
            hub_args.append(["ARG%d" % (i + 1), iv])
    rels.insert(0 if rng is None else rng.randrange(len(rels) + 1), _ep("_hub_v_1", ["h", 1], hub_args))
    return {"top": ["h", 0], "index": ["e", 100], "rels": rels, "hcons": hcons, "icons": [], "vars": []}


def gen_mrs_chain(depth, rng=None, modifiers=True, close_cycle=False):
    """a linear scopal chain of `depth` predications (alternating qeq-ed holes and direct
    label arguments), optionally each with a non-scopal modifier in the same scope;
    `close_cycle` lets the last one scope over the first (cyclic handle constraints).
    Exactly one scopal argument per level, so descendant lists stay linear."""
    rels = []
    hcons = [[["h", 0], "qeq", ["h", 1]]]
    for i in range(depth):
        lbl = ["h", 1 + i]
        args = [["ARG0", ["e", 100 + i]]]
        nxt = None
        if i + 1 < depth:
            nxt = ["h", 2 + i]
        elif close_cycle:
            nxt = ["h", 1]
        if nxt is not None:
            if i % 2 == 0:
                hole = ["h", 3000 + i]
                hcons.append([hole, "qeq", nxt])
                args.append(["ARG1", hole])
            else:
                args.append(["ARG1", nxt])
        rels.append(_ep("_s%d_v_1" % i, lbl, args))
        if modifiers and i % 3 == 0:
            rels.append(_ep("_mod%d_a_1" % i, lbl, [["ARG0", ["e", 600 + i]], ["ARG1", ["e", 100 + i]]]))
    if rng is not None and rng.random() < 0.3:
        rng.shuffle(rels)
    return {"top": ["h", 0], "index": ["e", 100], "rels": rels, "hcons": hcons, "icons": [], "vars": []}


def gen_mrs_labels(k, pendants=True):
    """one predication per label: `k` core labels h1..hk and, with `pendants`, one pendant
    label h(100+i) per core label (to be equated by gen_leqs_dense)."""
    rels = []
    for i in range(k):
        rels.append(_ep("_core%d_v_1" % i, ["h", 1 + i], [["ARG0", ["e", 300 + i]]]))
    if pendants:
        for i in range(k):
            rels.append(_ep("_pend%d_v_1" % i, ["h", 101 + i], [["ARG0", ["e", 700 + i]]]))
    return {"top": ["h", 0], "index": None, "rels": rels, "hcons": [[["h", 0], "qeq", ["h", 1]]],
            "icons": [], "vars": []}


def dense_pairs(k, kind, rng=None):
    """index pairs over range(k): complete graph, chain with chords, star, ring, or two cliques"""
    if kind == "complete":
        prs = [(i, j) for i in range(k) for j in range(i + 1, k)]
    elif kind == "chords":
        prs = [(i, i + 1) for i in range(k - 1)] + [(i, i + 3) for i in range(k - 3)] + \
              [(i, i + 7) for i in range(0, k - 7, 2)]
    elif kind == "star":
        prs = [(0, i) for i in range(1, k)]
    elif kind == "ring":
        prs = [(i, (i + 1) % k) for i in range(k)]
    elif kind == "two":
        h = k // 2
        prs = [(i, j) for i in range(h) for j in range(i + 1, h)] + \
              [(i, j) for i in range(h, k) for j in range(i + 1, k)]
    else:
        raise ValueError(kind)
    if rng is not None:
        prs = [(b, a) if rng.random() < 0.5 else (a, b) for a, b in prs]
        rng.shuffle(prs)
    return prs


def gen_leqs_dense(k, kind, rng=None, pendants=True):
    """label equalities for gen_mrs_labels(k): `kind` over the core labels plus
    (core_i, pendant_i) for every i"""
    out = [[["h", 1 + a], ["h", 1 + b]] for a, b in dense_pairs(k, kind, rng)]
    if pendants:
        pend = [[["h", 1 + i], ["h", 101 + i]] for i in range(k)]
        if rng is not None:
            rng.shuffle(pend)
            cut = rng.randrange(len(out) + 1)
            out = out[:cut] + pend + out[cut:]
        else:
            out = out + pend
    return out


def gen_dmrs_dense(k, kind, rng=None, pendants=True):
    """`k` core nodes with EQ links of the given shape, one pendant node per core node
    attached by an EQ link; many nodes compare equal; top is a pendant node."""
    ids = [10000 + i for i in range(k)]
    pids = [20000 + i for i in range(k)] if pendants else []
    nodes = [{"id": i, "pred": NODE_PREDS[(i % 3)], "type": "e", "props": [], "carg": None,
              "lnk": None, "surface": None, "base": None} for i in ids + pids]
    links = [[ids[a], ids[b], "ARG1", "EQ"] for a, b in dense_pairs(k, kind, rng)]
    links += [[p, c, "ARG1", "EQ"] for p, c in zip(pids, ids)]
    if rng is not None:
        rng.shuffle(links)
        rng.shuffle(nodes)
    top = (pids or ids)[-1]
    return {"top": top, "index": ids[0], "nodes": nodes, "links": links}


# ---------------------------------------------------------------- individual constraints (round 6)
# ICONS relate variables but are NOT part of connectedness ("label sharing, shared intrinsic
# variables and arguments resolved through handle constraints").

ICONS_RELS = ["topic", "focus", "info-str"]


def _all_vars(m):
    ivs, others, handles = [], [], []
    for ep in m["rels"]:
        if ep["label"] not in handles:
            handles.append(ep["label"])
        for r, v in ep["args"]:
            if r == "ARG0":
                if v not in ivs:
                    ivs.append(v)
            elif v[0] == "h":
                if v not in handles:
                    handles.append(v)
            elif v not in others:
                others.append(v)
    for hi, _, lo in m["hcons"]:
        for v in (hi, lo):
            if v not in handles:
                handles.append(v)
    return ivs, [v for v in others if v not in ivs], handles


def add_icons(rng, m, k=None):
    """the same MRS with `k` (default 1-3) individual constraints: IV-IV, IV-argument-only variable,
    a variable nobody uses, and (ill-sorted but accepted by the class) handles / labels"""
    import copy
    m = copy.deepcopy(m)
    ivs, others, handles = _all_vars(m)
    unused = [["x", 900], ["e", 901]]
    if k is None:
        k = rng.choice([1, 1, 2, 3])
    for _ in range(k):
        r = rng.random()
        pool_l = ivs or unused
        if r < 0.5:
            left, right = rng.choice(pool_l), rng.choice(pool_l)
        elif r < 0.65:
            left, right = rng.choice(pool_l), rng.choice(others or unused)
        elif r < 0.8:
            left, right = rng.choice(pool_l), rng.choice(unused)
        elif r < 0.9 and handles:
            left, right = rng.choice(handles), rng.choice(handles)
        else:
            left, right = rng.choice(unused), rng.choice(pool_l)
        m["icons"].append([left, rng.choice(ICONS_RELS), right])
    return m


def shift_vars(m, off):
    """the same MRS with every variable id increased by `off` (disjoint copy)"""
    import copy
    m = copy.deepcopy(m)

    def sh(v):
        return None if v is None else [v[0], v[1] + off]
    m["top"] = sh(m["top"])
    m["index"] = sh(m["index"])
    for ep in m["rels"]:
        ep["label"] = sh(ep["label"])
        ep["args"] = [[r, sh(v)] for r, v in ep["args"]]
    m["hcons"] = [[sh(a), r, sh(b)] for a, r, b in m["hcons"]]
    m["icons"] = [[sh(a), r, sh(b)] for a, r, b in m["icons"]]
    m["vars"] = [[sh(v), ps] for v, ps in m["vars"]]
    return m


def gen_mrs_islands(rng, bridge=None):
    """two constructively built scope trees over disjoint variables put into ONE MRS (top of the
    first): otherwise disconnected components, related only by `bridge`:
      'icons-iv'    icons between intrinsic variables of the two components
      'icons-other' icons from an IV of one to an argument-only / unused variable, plus unused-unused
      'icons-label' icons between labels of the two components
      'hcons'       a handle constraint whose hi nobody selects and whose lo is a label of the other component
      'top'         the top is qeq to a label of the second component (first not reachable from it)
      'none'        nothing
    (the second component's own top constraint stays as a dangling hcons in every variant)"""
    a = gen_mrs_tree(rng, max_eps=4, mutual=0.0)
    b = shift_vars(gen_mrs_tree(rng, max_eps=4, mutual=0.0), 500)
    if bridge is None:
        bridge = rng.choice(["icons-iv", "icons-iv", "icons-other", "icons-label", "hcons", "top", "none"])
    m = {"top": a["top"], "index": a["index"], "rels": a["rels"] + b["rels"], "hcons": a["hcons"] + b["hcons"],
         "icons": [], "vars": a["vars"] + b["vars"]}
    iva = [v for ep in a["rels"] for r, v in ep["args"] if r == "ARG0"]
    ivb = [v for ep in b["rels"] for r, v in ep["args"] if r == "ARG0"]
    la = [ep["label"] for ep in a["rels"]]
    lb = [ep["label"] for ep in b["rels"]]
    if bridge == "icons-iv":
        for _ in range(rng.choice([1, 2])):
            x, y = rng.choice(iva), rng.choice(ivb)
            m["icons"].append([x, rng.choice(ICONS_RELS), y] if rng.random() < 0.5 else [y, rng.choice(ICONS_RELS), x])
    elif bridge == "icons-other":
        m["icons"].append([rng.choice(iva), "topic", ["x", 900]])
        m["icons"].append([["x", 900], "focus", rng.choice(ivb)])
        m["icons"].append([["x", 901], "focus", ["e", 902]])
    elif bridge == "icons-label":
        m["icons"].append([rng.choice(la), "topic", rng.choice(lb)])
    elif bridge == "hcons":
        m["hcons"].append([["h", 950], "qeq", rng.choice(lb)])
        m["hcons"].insert(0, [["h", 951], "qeq", rng.choice(la)])
    elif bridge == "top":
        m["hcons"] = [[hi, r, (rng.choice(lb) if hi == a["top"] else lo)] for hi, r, lo in m["hcons"]]
    if rng.random() < 0.3:
        rng.shuffle(m["rels"])
    return m
