"""C14 — REPP character spans point back to the original text.

Generators, program rendering and the implementation runner are those of harness/c13.py; this module
adds the independent provenance oracle (origin of every output character, followed through every
rule application of the program), the tokenization and YY round-trip oracles, and direct YY cases.
"""
import json
import re
import warnings

from . import c13 as G
from .c13 import cps, uncps
from .common.runner import Check   # noqa: F401  (interface)

with warnings.catch_warnings():
    warnings.simplefilter("ignore")
    from delphin.lnk import Lnk
    from delphin.tokens import YYToken, YYTokenLattice


# ----------------------------------------------------------------------------------------------
# independent provenance: own substitution, character by character

def sub_prov(pat, tpl, s):
    """(out, prov): prov[j] = index in s of the character that out[j] IS (carried over unchanged),
    or None for inserted text.  Carried over: outside every match, or inside a participating group of a
    template that references groups 1..k in order, the group starting at or after everything of the match
    already accounted for."""
    rx = re.compile(pat)
    items = re._parser.parse_template(tpl, rx)      # [lit, group, lit, group, ..., lit]
    refs = list(items[1::2])
    inorder = refs == list(range(1, len(refs) + 1))
    out, prov, pos = [], [], 0
    for m in rx.finditer(s):
        for i in range(pos, m.start()):
            out.append(s[i])
            prov.append(i)
        cur = m.start()
        for idx, it in enumerate(items):
            if idx % 2 == 0:
                for c in it:
                    out.append(c)
                    prov.append(None)
            else:
                gs, ge = m.span(it)
                if gs == -1:
                    continue
                if inorder and gs >= cur:
                    for i in range(gs, ge):
                        out.append(s[i])
                        prov.append(i)
                    cur = ge
                else:
                    for i in range(gs, ge):
                        out.append(s[i])
                        prov.append(None)
        pos = m.end()
    for i in range(pos, len(s)):
        out.append(s[i])
        prov.append(i)
    out = "".join(out)
    assert out == rx.sub(tpl, s), (pat, tpl, s, out)
    return out, prov


def ref_prov(case, nodes, s, org):
    """reference run carrying, for every character, its index in the ORIGINAL input (or None)"""
    for nd in nodes:
        k = nd["k"]
        if k == "rule":
            ru = case["rules"][nd["id"]]
            s2, pv = sub_prov(ru["pat"], ru["tpl"], s)
            org = [None if p is None else org[p] for p in pv]
            s = s2
            if len(s) > G.LEN_CAP:
                raise G.Diverges()
        elif k == "iter":
            rounds = 0
            while True:
                o, org2 = ref_prov(case, nd["ops"], s, org)
                rounds += 1
                same = (o == s)
                s, org = o, org2
                if same:
                    break
                if rounds > G.ROUND_CAP or len(s) > G.LEN_CAP:
                    raise G.Diverges()
        elif k == "ext":
            if nd["active"]:
                s, org = ref_prov(case, nd["ops"], s, org)
        elif k == "incl":
            s, org = ref_prov(case, nd["lines"], s, org)
    return s, org


pieces = G.pieces


NASTY = ['"', "\\", "a", " ", ")", "(", ",", "<1:2>", "\n", "\t", '\\"', "null", "é", "\\\\", "'", "0", "-1"]


def gen_text(rng, maxlen=5):
    return "".join(rng.choice(NASTY) for _ in range(rng.randrange(0, maxlen + 1)))


def gen_yy_case(rng):
    toks = []
    for i in range(rng.randrange(0, 4)):
        lnk = None if rng.random() < 0.2 else [rng.randrange(-1, 30), rng.randrange(-1, 30)]
        toks.append({"id": rng.choice([i, i, rng.randrange(-3, 50)]), "start": rng.choice([i, rng.randrange(-2, 40)]),
                     "end": rng.choice([i + 1, rng.randrange(-2, 40)]), "lnk": lnk,
                     "paths": rng.choice([[1], [1], [1, 2], [3, 10, -2], []]),
                     "form": cps(gen_text(rng)), "surface": None if rng.random() < 0.6 else cps(gen_text(rng)),
                     "ipos": rng.choice([0, 0, 1, -1, 12])})
    return {"kind": "yy", "tokens": toks}


def mk_token(t):
    lnk = None if t["lnk"] is None else Lnk.charspan(t["lnk"][0], t["lnk"][1])
    return YYToken(t["id"], t["start"], t["end"], lnk, t["paths"], uncps(t["form"]),
                   None if t["surface"] is None else uncps(t["surface"]), t["ipos"])


def mutate(rng, s):
    t = list(s)
    for _ in range(rng.randrange(1, 3)):
        i = rng.randrange(len(t) + 1)
        op = rng.random()
        ch = rng.choice('(),"\\ <>:01-a')
        if op < 0.4 and t:
            del t[min(i, len(t) - 1)]
        elif op < 0.8:
            t.insert(i, ch)
        elif t:
            t[min(i, len(t) - 1)] = ch
    return "".join(t)


class C14(G.C13):
    pid = "C14"
    driver = "Verif/C13/Driver.lean"
    quick_cases = 1100
    thorough_cases = 16000
    KEYS = ("string", "startmap", "endmap", "tokens", "yy", "reparsed")
    modes = ["inorder", "inorder", "inorder", "any", "escapes", "empty"]
    want_tok = True
    loader_stream = False
    rule = ("the programs and inputs of C13 weighted towards templates referencing groups 1..k in order (the "
            "characterizable case) with matched material outside groups, optional/empty/nested groups, deleting and "
            "length-changing rules, rule sequences, iterative groups, external groups, includes; tokenization "
            "patterns '[ \\t]+', ' ', ',', 'x*' (given as argument or as ':' line); 36 specimen rules on all strings "
            "over {a,b,x,' '} up to length 3 (quick) / 5 (thorough); direct YY lattices with quotes, backslashes, "
            "parentheses, commas, line feeds in form and surface, negative and multiple path/ids; mutated lattice "
            "strings for the parser model. Non-trivial: some rule applied or a YY lattice with a token.")
    assumptions = G.C13.assumptions + [
        "provenance is claimed for characters outside all matches (every template) and inside participating groups "
        "of templates that reference groups 1..k in order; capture groups inside look-around (spans outside the "
        "match) are not generated",
        "the YY parser model covers tokens with lrules == ['null'] and no pos tags (what tokenize_result builds, with "
        "or without surface); other tokens are answered 'unmodelled' and not compared; blanks outside quoted strings "
        "are ASCII",
    ]
    trusted_base = ["hand-written models lean/Verif/C13/Model.lean and lean/Verif/C14/Model.lean "
                    "(+ Verif/Common/Codec.lean for integers, Lnk and quoted strings), tied to delphin.repp / "
                    "delphin.tokens by the correspondence run", "CPython re as the reference engine"]

    def tables(self):
        """Pins: constants of the anchored code that the hand-written models mirror (see c14_pins in Props.lean)"""
        return G.c14_tables()

    # ---- cases
    def cases(self, rng, tier, n):
        for c in super().cases(rng, tier, n):
            yield c
        # forms and surfaces starting / ending with a double quote or a backslash, alone and doubled
        edge = ['"', '\\', 'a"', '"a', 'a\\', '\\a', '""', '\\\\', '\\"', '"\\', '"a"', '\\a\\', ' "', '" ', '']
        for i in range(0, len(edge), 3):
            yield {"kind": "yy", "tokens": [{"id": j, "start": j, "end": j + 1, "lnk": [j, j + 1], "paths": [1],
                                            "form": cps(f), "surface": (cps(edge[(i + j + 1) % len(edge)]) if j % 2 else None),
                                            "ipos": 0} for j, f in enumerate(edge[i:i + 3])]}
        yield G.make_case([{"k": "rule", "id": 0}], [{"pat": "x", "tpl": "x"}], [],
                          ['" a" "a \\ a\\ \\a', '"" \\\\ \\" "\\', 'a" "'], tok=" ", via="string", kind="specimen")
        for _ in range(n // 3):
            yield gen_yy_case(rng)
        for _ in range(n // 3):
            c = gen_yy_case(rng)
            for t in c["tokens"]:
                if not t["paths"]:
                    t["paths"] = [1]
            s = str(YYTokenLattice([mk_token(t) for t in c["tokens"]]))
            r = rng.random()
            if r < 0.3:
                # pos tags (and near misses of them) after the lrules: outside the modelled shapes only when the
                # optional part really matches
                s = s.replace('"null")', '"null"' + rng.choice([', "NN" 0.5000)', ', "NN" 1.0e-3 "VB" 0.5)', ',', ', "NN")',
                                                              ', "NN" 1.)', ', "NN" .5)', ',"N" 1e5 )', ', "NN" 01.5)',
                                                              ', "NN" -0.25  "X" 2E+3)', ' "x")']), 1)
                if rng.random() < 0.5:
                    yield {"kind": "yyparse", "s": cps(s if s else "()")}
                    continue
            yield {"kind": "yyparse", "s": cps(mutate(rng, s) if s else "()")}

    def search_cases(self, rng, tier, n, seeds):
        if any(c["kind"] in ("yy", "yyparse") for c in seeds):
            for _ in range(n):
                yield gen_yy_case(rng)
        else:
            yield from super().search_cases(rng, tier, n, seeds)

    # ---- implementation
    def impl(self, case):
        if case["kind"] == "yy":
            lat = YYTokenLattice([mk_token(t) for t in case["tokens"]])
            s = str(lat)
            back = YYTokenLattice.from_string(s)
            first = [G.jytok(t) for t in back.tokens]
            # reuse: other lattices are written and read in between (a fixed one and the previous case's), then the
            # same calls again — in the same process, on the same objects
            other = YYTokenLattice([YYToken(0, 0, 1, Lnk.charspan(0, 2), [1], 'q"\\', 'z', 3)])
            for o in [other] + ([self._yy_prev] if getattr(self, "_yy_prev", None) is not None else []):
                YYTokenLattice.from_string(str(o))
            again = (str(lat) == s and [G.jytok(t) for t in YYTokenLattice.from_string(s).tokens] == first
                     and [G.jytok(t) for t in YYTokenLattice.from_string(str(back)).tokens] == first)
            self._yy_prev = lat
            return {"yy": cps(s), "reparsed": first, "same": back == lat, "again": again}
        if case["kind"] == "yyparse":
            try:
                back = YYTokenLattice.from_string(uncps(case["s"]))
            except ValueError:
                # e.g. paths "1-0": the regex reads two integers, the code splits on blanks and int() fails;
                # malformed input, outside the property and outside the parser model
                return {"reparsed": {"err": "unmodelled"}}
            if any(t.lrules != ["null"] or t.pos for t in back.tokens):
                return {"reparsed": {"err": "unmodelled"}}
            return {"reparsed": [G.jytok(t) for t in back.tokens]}
        obs = self.full(case)
        self.model_request(case)          # built now, while the observation is at hand
        if "err" in obs:
            return {"err": obs["err"]}
        runs = []
        for run in obs["runs"]:
            runs.append(run if "err" in run else {k: run[k] for k in self.KEYS if k in run})
        return {"load": [None if x is None else {"tracked": x["tracked"], "untracked": x["untracked"]} for x in obs["load"]],
                "runs": runs}

    def model_request(self, case):
        if case["kind"] == "yy":
            return {"op": "yy", "tokens": case["tokens"]}
        if case["kind"] == "yyparse":
            return {"op": "yyparse", "s": case["s"]}
        return super().model_request(case)

    def build_request(self, case):
        return super().build_request(case)

    def model_compare(self, case, expected, answer):
        if case["kind"] in ("yy", "yyparse"):
            m_un = isinstance(answer, dict) and isinstance(answer.get("reparsed"), dict)
            i_un = isinstance(expected.get("reparsed"), dict)
            if case["kind"] == "yyparse" and m_un and i_un:
                self.note_skip("yyparse: token with lrules != ['null'] or pos tags (outside the YY parser model), both sides")
                return None
            if m_un or i_un:
                # one-sided: the model must say exactly when the real parser meets a token outside its shapes
                return {"expected_from_impl": expected.get("reparsed"), "model": answer.get("reparsed") if isinstance(answer, dict) else answer}
            e = {k: expected[k] for k in ("yy", "reparsed") if k in expected}
            a = {k: answer.get(k) for k in e} if isinstance(answer, dict) else answer
            return None if e == a else {"expected_from_impl": e, "model": a}
        return super().model_compare(case, expected, answer)

    # ---- direct oracle
    def oracle(self, case, res):
        fails = []

        def fail(clause, detail):
            fails.append({"clause": clause, "detail": detail})
        if case["kind"] == "yyparse":
            return fails
        if case["kind"] == "yy":
            ok_shape = all(t["paths"] and t["lnk"] != [-1, -1] for t in case["tokens"])
            want = [dict(t) for t in case["tokens"]]
            if not res.get("again", True):
                fail("purity: writing / reading the same lattice again after other lattices gives a different result",
                     repr(uncps(res["yy"]))[:400])
            if ok_shape and (res["reparsed"] != want or not res["same"]):
                fail("the token lattice does not survive YY serialization and parsing",
                     repr((uncps(res["yy"]), want, res["reparsed"]))[:800])
            return fails
        obs = self.full(case)
        if "err" in obs:
            return fails          # load errors are C13's business
        ngroups = {i: (ld or {}).get("ngroups") for i, ld in enumerate(obs["load"])}
        for ent in obs["eng"]:
            why = G.check_matches(uncps(ent["s"]), ent["ms"], ngroups[ent["id"]])
            if why:
                fail("parameter assumption on the regex engine violated", repr((why, ent)))
        for inp, run in zip(case["inputs"], obs["runs"]):
            s = uncps(inp)
            n = len(s)
            try:
                want, org = ref_prov(case, case["prog"], s, list(range(n)))
            except G.Diverges:
                continue
            if "err" in run:
                fail("apply raises or does not terminate although the reference reaches a result", repr((s, run["err"])))
                continue
            out = uncps(run["string"])
            sm, em = run["startmap"], run["endmap"]
            if len(sm) != len(out) + 2 or len(em) != len(out) + 2:
                fail("offset maps do not have one entry per output position plus two sentinels",
                     repr((s, out, len(sm), len(em))))
                continue
            if out != want:
                fail("result string differs from the ordered substitutions (see C13)", repr((s, out, want)))
                continue
            for j in range(len(out)):
                a, b = j + sm[j + 1], j + 1 + em[j + 1]
                if not (0 <= a <= n and 0 <= b <= n):
                    fail("a reported span does not lie within the original string", repr((s, out, j, a, b)))
                    break
            for j, p in enumerate(org):
                if p is None:
                    continue
                if s[p] != out[j]:
                    fail("oracle inconsistency: carried character differs", repr((s, out, j, p)))
                    break
                if j + sm[j + 1] != p or j + 1 + em[j + 1] != p + 1:
                    fail("a carried-over character is not attributed to its original position",
                         repr({"input": s, "output": out, "j": j, "origin": p, "start": j + sm[j + 1],
                               "end": j + 1 + em[j + 1]}))
                    break
            if not any(st["applied"] for st in run["steps"] if st["kind"] == "rule"):
                a0, b0 = G.INIT(n)
                if sm != a0 or em != b0:
                    fail("no rule applied, but the maps are not the identity", repr((s, sm, em)))
            if "tokens" in run:
                pat = case["tok"]
                if case.get("tokline") and obs.get("tokpat") != pat:
                    fail("tokenization pattern of the module not taken from its ':' line", repr((obs.get("tokpat"), pat)))
                pcs = pieces(pat, out)
                toks = run["tokens"]
                if [uncps(t[2]) for t in toks] != [out[a:b] for a, b in pcs]:
                    fail("tokens are not the maximal separator-free pieces of the output in order",
                         repr((out, pat, [uncps(t[2]) for t in toks], [out[a:b] for a, b in pcs])))
                else:
                    if not run["tokshape"]:
                        fail("token ids / vertices are not consecutive", repr((s, out)))
                    for (a, b), t in zip(pcs, toks):
                        if not (0 <= t[0] <= n and 0 <= t[1] <= n):
                            fail("a token span does not lie within the original string", repr((s, out, t)))
                            break
                        if t[0] != a + sm[a + 1] or t[1] != b + em[b]:
                            fail("token span is not read from the maps at the token boundaries", repr((s, out, t, a, b)))
                            break
                        o = org[a:b]
                        if all(p is not None for p in o) and all(o[i] + 1 == o[i + 1] for i in range(len(o) - 1)):
                            if (t[0], t[1]) != (o[0], o[0] + (b - a)) or s[t[0]:t[1]] != out[a:b]:
                                fail("original[from:to] != form for a token of contiguous carried-over characters",
                                     repr({"input": s, "output": out, "token": [t[0], t[1], out[a:b]],
                                           "expected_span": [o[0], o[0] + b - a]}))
                                break
                if not run["yysame"]:
                    fail("the token lattice does not survive YY serialization and parsing", repr((s, uncps(run["yy"]))))
        fails.extend(obs.get("purity", []))
        if case["masks"]:
            nomask = G.map_nodes(case["prog"], lambda nd: [] if nd["k"] == "mask" else None)
            v = self.variant(case, nomask)
            if G.strip_obs(v) != G.strip_obs(obs):
                fail("a mask rule by itself changed the string or a reported span", repr(case["masks"]))
        return fails

    def stats(self, case, res, counters):
        if case["kind"] in ("yy", "yyparse"):
            counters["kind:" + case["kind"]] = counters.get("kind:" + case["kind"], 0) + 1
            if case["kind"] == "yy":
                counters["yy_tokens"] = counters.get("yy_tokens", 0) + len(case["tokens"])
                for t in case["tokens"]:
                    txt = uncps(t["form"]) + (uncps(t["surface"]) if t["surface"] else "")
                    if '"' in txt or "\\" in txt:
                        counters["yy_tokens:quote_or_backslash"] = counters.get("yy_tokens:quote_or_backslash", 0) + 1
            elif isinstance(res, dict) and isinstance(res.get("reparsed"), list):
                k = "yyparse:tokens=%d" % min(len(res["reparsed"]), 3)
                counters[k] = counters.get(k, 0) + 1
            return
        super().stats(case, res, counters)
        obs = self.full(case)
        if "err" in obs:
            return
        for inp, run in zip(case["inputs"], obs["runs"]):
            if "err" in run:
                continue
            try:
                _, org = ref_prov(case, case["prog"], uncps(inp), list(range(len(inp))))
            except G.Diverges:
                continue
            counters["out_chars"] = counters.get("out_chars", 0) + len(org)
            counters["out_chars:carried"] = counters.get("out_chars:carried", 0) + sum(1 for p in org if p is not None)
            counters["out_chars:carried_moved"] = counters.get("out_chars:carried_moved", 0) + \
                sum(1 for j, p in enumerate(org) if p is not None and p != j)
            if "tokens" in run:
                counters["tokens"] = counters.get("tokens", 0) + len(run["tokens"])

    def nontrivial_key(self, case, res):
        if case["kind"] == "yy":
            return json.dumps(case, sort_keys=True) if case["tokens"] else None
        if case["kind"] == "yyparse":
            return json.dumps(case, sort_keys=True)
        return super().nontrivial_key(case, res)

    def shrink(self, case, still_fails):
        if case["kind"] in ("yy", "yyparse"):
            if case["kind"] == "yy":
                for t in list(case["tokens"]):
                    c = dict(case, tokens=[x for x in case["tokens"] if x is not t])
                    if still_fails(c):
                        case = c
            return case
        return super().shrink(case, still_fails)


CHECK = C14()
