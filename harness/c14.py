"""C14 — REPP character spans point back to the original text.

Generators, program rendering and the implementation runner are those of harness/c13.py; this module
adds the independent provenance oracle (origin of every output character, followed through every
rule application of the program), the tokenization and YY round-trip oracles, and direct YY cases.
"""
import json
import re
import warnings

from . import c13 as G
from .c13 import cps, uncps
from .common.runner import Check   # noqa: F401  (interface)

with warnings.catch_warnings():
    warnings.simplefilter("ignore")
    from delphin.lnk import Lnk
    from delphin.tokens import YYToken, YYTokenLattice


# ----------------------------------------------------------------------------------------------
# independent provenance: own substitution, character by character

def sub_prov(pat, tpl, s, keep=None):
    """(out, prov): prov[j] = index in s of the character that out[j] IS (carried over unchanged),
    or None for inserted text.  Carried over: outside every match, or inside a participating group of a
    template that references groups 1..k in order, the group starting at or after everything of the match
    already accounted for.  `keep`: the indices of the matches that are rewritten (None = all); a match
    that is not rewritten (blocked by a mask) is plain text."""
    rx = re.compile(pat)
    items = re._parser.parse_template(tpl, rx)      # [lit, group, lit, group, ..., lit]
    refs = list(items[1::2])
    inorder = refs == list(range(1, len(refs) + 1))
    out, prov, pos = [], [], 0
    for mi, m in enumerate(rx.finditer(s)):
        if keep is not None and mi not in keep:
            continue
        for i in range(pos, m.start()):
            out.append(s[i])
            prov.append(i)
        cur = m.start()
        for idx, it in enumerate(items):
            if idx % 2 == 0:
                for c in it:
                    out.append(c)
                    prov.append(None)
            else:
                gs, ge = m.span(it)
                if gs == -1:
                    continue
                if inorder and gs >= cur:
                    for i in range(gs, ge):
                        out.append(s[i])
                        prov.append(i)
                    cur = ge
                else:
                    for i in range(gs, ge):
                        out.append(s[i])
                        prov.append(None)
        pos = m.end()
    for i in range(pos, len(s)):
        out.append(s[i])
        prov.append(i)
    out = "".join(out)
    assert keep is not None or out == rx.sub(tpl, s), (pat, tpl, s, out)
    return out, prov


def ref_prov(case, nodes, s, org):
    """reference run carrying, for every character, its index in the ORIGINAL input (or None)"""
    for nd in nodes:
        k = nd["k"]
        if k == "rule":
            ru = case["rules"][nd["id"]]
            s2, pv = sub_prov(ru["pat"], ru["tpl"], s)
            org = [None if p is None else org[p] for p in pv]
            s = s2
            if len(s) > G.LEN_CAP:
                raise G.Diverges()
        elif k == "iter":
            rounds = 0
            while True:
                o, org2 = ref_prov(case, nd["ops"], s, org)
                rounds += 1
                same = (o == s)
                s, org = o, org2
                if same:
                    break
                if rounds > G.ROUND_CAP or len(s) > G.LEN_CAP:
                    raise G.Diverges()
        elif k == "ext":
            if nd["active"]:
                s, org = ref_prov(case, nd["ops"], s, org)
        elif k == "incl":
            s, org = ref_prov(case, nd["lines"], s, org)
    return s, org


pieces = G.pieces

MAX_DIRTY = 8


def masked_prov(case, s, run):
    """Provenance of a run of a program WITH masks, from the yielded steps: at every rule step the set of
    rewritten matches is every match free of masked material plus some of the others — the subsets whose
    substitution gives the step's output; a character is claimed only where all such subsets agree.
    Returns (org, blocked_steps) or None when the steps do not form a chain / no subset fits (reported by
    C13's oracle) / too many masked matches."""
    org, cur, mask, nblocked = list(range(len(s))), s, [0] * (len(s) + 2), 0
    for st in run["steps"]:
        if st["kind"] == "rule":
            si, so = uncps(st["inp"]), uncps(st["out"])
            if si != cur:
                return None
            ru = case["rules"][st["id"]]
            ms = list(re.finditer(ru["pat"], si))
            clean = [i for i, m in enumerate(ms) if not any(mask[m.start() + 1:m.end() + 1])]
            dirty = [i for i in range(len(ms)) if i not in clean]
            if len(dirty) > MAX_DIRTY:
                return None
            cands = []
            for bits in range(1 << len(dirty)):
                keep = set(clean) | {d for j, d in enumerate(dirty) if bits >> j & 1}
                o2, pv = sub_prov(ru["pat"], ru["tpl"], si, keep)
                if o2 == so:
                    cands.append((pv, len(keep) < len(ms)))
            if not cands:
                return None
            if all(c[1] for c in cands):
                nblocked += 1
            pv = [c0 if all(c[0][j] == c0 for c in cands) else None for j, c0 in enumerate(cands[0][0])]
            org = [None if p is None else org[p] for p in pv]
            cur = so
        elif st["kind"] == "mask" and uncps(st["inp"]) != cur:
            return None
        if "mask" in st:
            mask = st["mask"]
    if cur != uncps(run["string"]):
        return None
    return org, nblocked


# programs with masks before rules for the bounded-exhaustive stream: (mask patterns, rules); blocked matches
# before / after rewritten ones, length-changing rules, masks on deleted / moved / copied material
MASKED_SPECIMENS = [
    (["a"], [("(a)", r"x\1")]), (["ab"], [("(a)", r"x\1")]), (["ab"], [("b", "bb")]), (["x"], [("[ax]", "")]),
    (["a"], [("a(b)", r"\1")]), (["b"], [("a(b)", r"\1")]), (["ab"], [("(a)(b)", r"\1\2")]), (["ab"], [("x(a)(b)", r"\1\2")]),
    (["b"], [("(a)", r"\1\1"), ("(b)", r" \1")]), ([" "], [(" +", " "), ("(a) ", r"\1")]), (["a+"], [("(a)(a)?", r"\1-\2")]),
    (["^a", "b$"], [("([ab])", r" \1 ")]), (["a b"], [(" ", ""), ("(a)", r"\1x")]), (["b"], [("b*", "-")]),
]


# long inputs (size-dependent fast paths, chunking): rules that keep the text within LEN_CAP
LONG_RULES = [
    [("(a)b", r"y\1")], [("x(a)", r"\1y")], [(" +", " ")], [("(a)(b)?(x)?", r"\1-\3")], [("wo(n't)", r"\1"), ("(a) ", r"\1")],
    [("(a)b", r"y\1"), ("(y)a", r"-\1")], [("b", ""), ("(a)", r"x\1")], [("a(b)x", r"\1"), ("( )( )", r"\1")],
]
LONG_INPUTS = [("ab xa " * 30)[:n] for n in (31, 32, 33, 41, 63, 64, 65, 100, 127, 128, 129)] + \
    ["I won't go " * 9, "a" * 70 + "b", " " * 50 + "ab" + " " * 50, "abx" * 40]


# blanks that are NOT separators of the default pattern `[ \t]+` (only blank and tab are), line ends in every
# style, characters outside the BMP, combining marks: offsets count code points and nothing else splits
WS_INPUTS = ["ab\tab\nab\r\nab \x0bab\x0cab", "ab\x85ab\xa0ab\u2028ab\u3000ab\u2029 ab\x1cab", "\tab \t ab\t", "ab\n", "\r\nab ab\r\n",
             "a\U0001F600b ab e\u0301ab \U00010000", "ab\x00ab ab", "\ufeffab ab"]


def whitespace_cases():
    rules = [{"pat": "(a)b", "tpl": r"y\1"}, {"pat": r"(\s)ya", "tpl": r"\1a"}]
    for k, via in enumerate(("string", "file")):
        # the first two inputs also go through the reuse battery (pattern None -> the default tokenizer)
        yield G.make_case([{"k": "rule", "id": 0}] + ([{"k": "rule", "id": 1}] if k else []), rules[:k + 1], [],
                          WS_INPUTS[k:] + WS_INPUTS[:k], tok=r"[ \t]+", via=via, kind="specimen")
    yield G.make_case([{"k": "rule", "id": 0}], rules[:1], [], WS_INPUTS, tok=" ", via="string", kind="specimen")
    # an empty `:` line: the pattern is the empty expression (every character a token), not the default
    yield G.make_case([{"k": "rule", "id": 0}], rules[:1], [], ["ab ab", "", "a"], tok="", tokline=True, via="string",
                      kind="specimen")
    yield G.make_case([{"k": "mask", "id": 0}, {"k": "rule", "id": 0}], rules[:1], ["\\s"], WS_INPUTS, tok=r"[ \t]+",
                      via="string", kind="masked")


def long_input_cases(tier):
    for k, seq in enumerate(LONG_RULES):
        rules = [{"pat": p_, "tpl": t_} for p_, t_ in seq]
        inputs = LONG_INPUTS if tier != "quick" else LONG_INPUTS[k % 3::3]
        yield G.make_case([{"k": "rule", "id": i} for i in range(len(rules))], rules, [], inputs,
                          tok=(r"[ \t]+" if k % 2 == 0 else " "), via=("string" if k % 2 else "file"), kind="specimen")
    # the same under a mask
    yield G.make_case([{"k": "mask", "id": 0}, {"k": "rule", "id": 0}, {"k": "rule", "id": 1}],
                      [{"pat": "(a)b", "tpl": r"y\1"}, {"pat": " +", "tpl": " "}], ["xa"],
                      LONG_INPUTS[::2], tok=r"[ \t]+", via="string", kind="masked")


# YY boundary values: spans with 0 / -1 / start > end / beyond machine sizes, ids and vertices likewise, paths with
# duplicates, non-ascending, many
YY_LNKS = [[0, 0], [-1, -1], [-1, 0], [0, -1], [0, 1], [5, 2], [1, 1], [2 ** 31 - 1, 2 ** 31], [2 ** 32, 2 ** 63],
           [-2 ** 31, -1], [-1, 2 ** 64 + 1], None]
YY_PATHS = [[1, 1], [2, 1, 2], [3, 10, -2], [0], [-1], [2 ** 31, 2 ** 63, 2 ** 64 + 1], list(range(12, 0, -1)), [7] * 9]


def yy_boundary_cases():
    for k, lnk in enumerate(YY_LNKS):
        big = [0, 1, -1, 2 ** 31, -2 ** 63 - 1, 2 ** 64][k % 6]
        yield {"kind": "yy", "tokens": [
            {"id": big, "start": k, "end": big, "lnk": lnk, "paths": YY_PATHS[k % len(YY_PATHS)], "form": cps("f%d" % k),
             "surface": (cps("S") if k % 3 == 0 else None), "ipos": [0, -1, 2 ** 31][k % 3]},
            {"id": 1, "start": 1, "end": 2, "lnk": YY_LNKS[(k + 5) % len(YY_LNKS)], "paths": YY_PATHS[(k + 3) % len(YY_PATHS)],
             "form": cps('q"'), "surface": None, "ipos": 0}]}
    # identical tokens, adjacent and not; backslash before a line end / a line separator
    t0 = {"id": 1, "start": 0, "end": 1, "lnk": [0, 1], "paths": [1], "form": cps("a"), "surface": None, "ipos": 0}
    t1 = dict(t0, form=cps("a\\\nb\\\u2028c\\\r"), surface=cps("\\\n"))
    yield {"kind": "yy", "tokens": [dict(t0), dict(t0), dict(t1), dict(t0), dict(t1)]}
    # a long lattice
    yield {"kind": "yy", "tokens": [{"id": i, "start": i, "end": i + 1, "lnk": [3 * i, 3 * i + 2], "paths": [1],
                                    "form": cps("w%d" % i), "surface": None, "ipos": 0} for i in range(70)]}


def masked_specimen_cases(maxlen):
    strings = list(G.all_strings(maxlen))
    for k, (masks, seq) in enumerate(MASKED_SPECIMENS):
        rules = [{"pat": p_, "tpl": t_} for p_, t_ in seq]
        prog = [{"k": "mask", "id": i} for i in range(len(masks))] + [{"k": "rule", "id": i} for i in range(len(rules))]
        if k % 3 == 2:
            # a second look at the mask after the rules, and the rules once more
            prog = prog + [{"k": "mask", "id": 0}] + [{"k": "rule", "id": i} for i in range(len(rules))]
        yield G.make_case(prog, rules, list(masks), strings, tok=r"[ \t]+", via=("string" if k % 2 else "file"),
                          kind="masked")


NASTY = ['"', "\\", "a", " ", ")", "(", ",", "<1:2>", "\n", "\t", '\\"', "null", "é", "\\\\", "'", "0", "-1"]


def gen_text(rng, maxlen=5):
    return "".join(rng.choice(NASTY) for _ in range(rng.randrange(0, maxlen + 1)))


def gen_yy_case(rng):
    toks = []
    for i in range(rng.randrange(0, 4)):
        lnk = None if rng.random() < 0.2 else [rng.randrange(-1, 30), rng.randrange(-1, 30)]
        toks.append({"id": rng.choice([i, i, rng.randrange(-3, 50)]), "start": rng.choice([i, rng.randrange(-2, 40)]),
                     "end": rng.choice([i + 1, rng.randrange(-2, 40)]), "lnk": lnk,
                     "paths": rng.choice([[1], [1], [1, 2], [3, 10, -2], []]),
                     "form": cps(gen_text(rng)), "surface": None if rng.random() < 0.6 else cps(gen_text(rng)),
                     "ipos": rng.choice([0, 0, 1, -1, 12])})
    return {"kind": "yy", "tokens": toks}


YYX_TAGS = ["NN", "VB", "$", "X-1", "n.n", "é", "(", ","]
YYX_LRULES = [["null"], ["null", "x_rule"], ["3sg"], ["a", "b", "c"], ["null"], ["null"]]
YYX_PROBS = [0.5, 0.0625, -0.25, 1.0, 0.0, 0.9999, 12.0001, -3.5, 1e-4, 0.3333]


def gen_yyx_case(rng, k=None):
    """extended tokens (several lrules, pos tags with 4-decimal probabilities) and the dict / list interface:
    decided by the direct oracle only (no model)"""
    toks = []
    for i in range(rng.randrange(1, 4) if k is None else 1 + k % 3):
        j = rng.randrange(1000) if k is None else k + i
        lnk = None if j % 5 == 0 else ([-1, -1] if j % 7 == 0 else [j % 11, j % 13])
        npos = [0, 1, 2, 4, 0][j % 5]
        toks.append({"id": j % 4 - 1, "start": i, "end": i + 1, "lnk": lnk, "paths": [[1], [1, 2], [1], [2, 1, 2]][j % 4],
                     "form": cps(gen_text(rng) or "w"), "surface": (cps(gen_text(rng)) if j % 3 == 0 else None),
                     "ipos": j % 3, "lrules": YYX_LRULES[j % len(YYX_LRULES)],
                     "pos": [[YYX_TAGS[(j + q) % len(YYX_TAGS)], YYX_PROBS[(j * 3 + q) % len(YYX_PROBS)]] for q in range(npos)]})
    return {"kind": "yyx", "tokens": toks}


def mk_xtoken(t):
    lnk = None if t["lnk"] is None else Lnk.charspan(t["lnk"][0], t["lnk"][1])
    return YYToken(t["id"], t["start"], t["end"], lnk, t["paths"], uncps(t["form"]),
                   None if t["surface"] is None else uncps(t["surface"]), t["ipos"], list(t["lrules"]),
                   [(a, b) for a, b in t["pos"]])


def jxtok(t):
    d = G.jytok(t)
    d["lrules"] = list(t.lrules)
    d["pos"] = [[a, b] for a, b in t.pos]
    return d


TOKPAT_DECLARED = [None, ",", "x*", "", r"[ \t]+", " +", "a"]
TOKPAT_ARGS = [None, " ", ",", "", "x*", r"[ \t]+"]


def tokpat_cases():
    for i, dec in enumerate(TOKPAT_DECLARED):
        for j, arg in enumerate(TOKPAT_ARGS):
            yield {"kind": "tokpat", "declared": dec, "arg": arg, "via": ("file" if (i + j) % 2 else "string"),
                   "input": cps(["a b,c xx d", "b  a,,x", ""][(i + j) % 3])}


def xfloat(txt):
    try:
        return float(txt)
    except ValueError:
        return None


def mk_token(t):
    lnk = None if t["lnk"] is None else Lnk.charspan(t["lnk"][0], t["lnk"][1])
    return YYToken(t["id"], t["start"], t["end"], lnk, t["paths"], uncps(t["form"]),
                   None if t["surface"] is None else uncps(t["surface"]), t["ipos"])


def mutate(rng, s):
    t = list(s)
    for _ in range(rng.randrange(1, 3)):
        i = rng.randrange(len(t) + 1)
        op = rng.random()
        ch = rng.choice('(),"\\ <>:01-a')
        if op < 0.4 and t:
            del t[min(i, len(t) - 1)]
        elif op < 0.8:
            t.insert(i, ch)
        elif t:
            t[min(i, len(t) - 1)] = ch
    return "".join(t)


class C14(G.C13):
    pid = "C14"
    driver = "Verif/C13/Driver.lean"
    props_modules = ["Verif.C14.Props", "Verif.C14.PropsMasked", "Verif.C14.PropsSeg", "Verif.C14.PropsYYX",
                     "Verif.C14.Translated", "Verif.C14.TranslatedParts"]
    build_targets = props_modules + ["Verif.C13.Driver", "Verif.C14.Driver"]
    xdriver = "Verif/C14/Driver.lean"       # C14-only operations (extended YY tokens, pattern choice); see x_answer
    quick_cases = 1100
    thorough_cases = 16000
    KEYS = ("string", "startmap", "endmap", "tokens", "yy", "reparsed")
    modes = ["inorder", "inorder", "inorder", "any", "escapes", "empty"]
    want_tok = True
    loader_stream = False
    rule = ("the programs and inputs of C13 weighted towards templates referencing groups 1..k in order (the "
            "characterizable case) with matched material outside groups, optional/empty/nested groups, deleting and "
            "length-changing rules, rule sequences, iterative groups, external groups, includes; tokenization "
            "patterns '[ \\t]+', ' ', ',', 'x*' (given as argument or as ':' line); 36 specimen rules on all strings "
            "over {a,b,x,' '} up to length 3 (quick) / 5 (thorough); direct YY lattices with quotes, backslashes, "
            "parentheses, commas, line feeds in form and surface, negative and multiple path/ids; mutated lattice "
            "strings for the parser model, paths texts with glued integers (ValueError); programs with masks before / "
            "between rewrite rules (14 specimens on all short strings, random ones; blocked matches) with the "
            "subset-provenance oracle; long inputs (31..129 characters around 32/64/128) plain and under a mask; inputs "
            "with tabs, line ends in every style, non-separator blanks, NUL, BOM, astral and combining characters; an "
            "empty ':' pattern; YY boundary values (spans 0/-1/reversed/beyond 2^63, duplicate and non-ascending paths, "
            "identical tokens, 70-token lattice); extended tokens (several lrules, pos tags) and the dict/list "
            "interface; lrules / tags with blanks, quotes, backslashes and numbers in every float spelling as texts for "
            "the full-width parser model; 42 combinations of declared ':' pattern x explicit pattern (tokpat); "
            "REPP.from_config on a third of the programs (oracle only). Non-trivial: some "
            "rule applied or a YY lattice with a token.")
    assumptions = G.C13.assumptions + [
        "provenance is claimed for characters outside all matches (every template) and inside participating groups "
        "of templates that reference groups 1..k in order; capture groups inside look-around (spans outside the "
        "match) are not generated",
        "the YY parser model covers tokens with lrules == ['null'] and no pos tags (what tokenize_result builds, with "
        "or without surface); other tokens are answered 'unmodelled' and not compared; blanks outside quoted strings "
        "are ASCII; a ValueError of from_string (glued paths) and 'unmodelled' are one answer in the driver protocol",
        "programs with masks: the provenance oracle takes, at every rule step, the subsets of matches (all matches free "
        "of masked material plus any of the others, at most %d of those) whose substitution gives the step's output, "
        "and claims a character only where all such subsets agree; which matches are blocked is decided by the "
        "mask model of C13 (correspondence), not by this oracle" % MAX_DIRTY,
        "tokens with pos tags / several lrules and every yyparse text are compared with the full-width YY model "
        "(YYX.lean) through the C14 driver, started by this harness when the first such answer is needed; floats are a "
        "parameter (probabilities travel as the text of f'{p:.4f}' / the text float() is applied to); the pattern "
        "choice of tokenize / tokenize_result (kind tokpat) is observed by spying on delphin.repp._tokenize",
        "YYToken.to_dict/from_dict, YYTokenLattice.to_list/from_list/__eq__ and REPP.from_config are checked by the "
        "direct oracle only (no model)",
    ]
    trusted_base = ["hand-written models lean/Verif/C13/Model.lean and lean/Verif/C14/Model.lean "
                    "(+ Verif/Common/Codec.lean for integers, Lnk and quoted strings), tied to delphin.repp / "
                    "delphin.tokens by the correspondence run", "CPython re as the reference engine",
                    "source translator py2lean + PyRt (TRANSLATOR.md)"]

    def translation_specs(self):
        from .common import py2lean as P
        from delphin import repp
        cmap = P.Lst(P.INT)
        parts = P.Lst(P.STR)
        return [P.Spec(repp._mergemap, "mergemap", [("map1", cmap), ("map2", cmap)], cmap, small_ints=True),
                P.Spec(repp._zeromap, "zeromap", [("s", P.STR)], cmap),
                # parts / smap / emap are mutated in place: the translated functions return their new values
                P.Spec(repp._copy_part, "copy_part", [("s", P.STR), ("shift", P.INT), ("parts", parts), ("smap", cmap),
                                                      ("emap", cmap)], P.NONE, small_ints=True),
                P.Spec(repp._insert_part, "insert_part", [("s", P.STR), ("width", P.INT), ("shift", P.INT),
                                                          ("parts", parts), ("smap", cmap), ("emap", cmap)], P.NONE,
                       small_ints=True)]

    def translations(self):
        """Source translation (TRANSLATOR.md): repp._mergemap → lean/Verif/Generated/TransC14.lean, proved equal to the
        model's mergeMap in lean/Verif/C14/Translated.lean."""
        from .common import py2lean as P
        return P.translate_module(self.translation_specs(), "Verif.Trans.C14")

    def tables(self):
        """Pins: constants of the anchored code that the hand-written models mirror (see c14_pins in Props.lean)"""
        return G.c14_tables()

    # ---- cases
    def cases(self, rng, tier, n):
        for c in super().cases(rng, tier, n):
            yield c
        # programs with masks before / between rewrite rules (blocked matches): bounded-exhaustive specimens, then random
        yield from masked_specimen_cases(3 if tier == "quick" else 4)
        yield from long_input_cases(tier)
        yield from whitespace_cases()
        yield from yy_boundary_cases()
        yield from tokpat_cases()
        for k in range(24):
            yield gen_yyx_case(rng, k)
        for _ in range(n // 20):
            c = gen_yyx_case(rng)
            yield c
            # the same lattice as text, exact and damaged, for the full-width parser model
            txt = str(YYTokenLattice([mk_xtoken(t) for t in c["tokens"]]))
            yield {"kind": "yyparse", "s": cps(txt if rng.random() < 0.3 else mutate(rng, txt))}
        # lrules / tags with blanks, quotes and backslashes (nothing is escaped in these fields), numbers in every
        # spelling of the float expression and near misses
        for lr, pos in [('"a b"', ''), ('"a\\"b"', ''), ('"null" "x"  "y"', ', "N N" 0.5'), ('"null"', ', "NN" 1e5 "V" -0.5E-3 "W" 1.5e+2'),
                        ('"null"', ', "NN" 1. "V" .5'), ('"null"', ', "NN" 0.5 "VB"'), ('"null"', ', "NN" 00.5'),
                        ('"null"', ', "N\\" 0.5" 0.25'), ('"null"', ',  "NN"\t0.5000\n "VB"  1.0 '), ('"null"\t"q"', ', "NN" 1e400'),
                        ('"null"', ', "NN" 0.5e'), ('"null"', ', "NN" -0'), ('""', ', "" 0.0')]:
            yield {"kind": "yyparse", "s": cps('(1, 0, 1, <0:1>, 1, "a", 0, %s%s) (2, 1, 2, 1, "b", 0, "null")' % (lr, pos))}
        k = 0
        while k < n // 8:
            c = G.gen_masked_case(rng)
            if c["tok"] is None:
                c["tok"] = rng.choice(G.TOKPATS)
            if G.terminates(c):
                k += 1
                yield c
        # forms and surfaces starting / ending with a double quote or a backslash, alone and doubled
        edge = ['"', '\\', 'a"', '"a', 'a\\', '\\a', '""', '\\\\', '\\"', '"\\', '"a"', '\\a\\', ' "', '" ', '']
        for i in range(0, len(edge), 3):
            yield {"kind": "yy", "tokens": [{"id": j, "start": j, "end": j + 1, "lnk": [j, j + 1], "paths": [1],
                                            "form": cps(f), "surface": (cps(edge[(i + j + 1) % len(edge)]) if j % 2 else None),
                                            "ipos": 0} for j, f in enumerate(edge[i:i + 3])]}
        yield G.make_case([{"k": "rule", "id": 0}], [{"pat": "x", "tpl": "x"}], [],
                          ['" a" "a \\ a\\ \\a', '"" \\\\ \\" "\\', 'a" "'], tok=" ", via="string", kind="specimen")
        # paths text with integers glued together / separated by other blanks: the regex accepts `1-0`, the code
        # splits on blanks and int() raises ValueError (model: MT.valueError)
        for paths in ["1-0", "3 10-2", "-1-2", "1 -0", "1\t2", "1  2", "1-", "1 - 2", "12", "1-0 2", "0-0-0", "1\n-2"]:
            for tail in ['"null")', '"null" )', '"x")', '"null", "NN" 0.5)']:
                yield {"kind": "yyparse", "s": cps('(1, 0, 1, <0:1>, %s, "a", 0, %s (2, 1, 2, 1, "b", 0, "null")' % (paths, tail))}
        for _ in range(n // 3):
            yield gen_yy_case(rng)
        for _ in range(n // 3):
            c = gen_yy_case(rng)
            for t in c["tokens"]:
                if not t["paths"]:
                    t["paths"] = [1]
            s = str(YYTokenLattice([mk_token(t) for t in c["tokens"]]))
            r = rng.random()
            if r < 0.3:
                # pos tags (and near misses of them) after the lrules: outside the modelled shapes only when the
                # optional part really matches
                s = s.replace('"null")', '"null"' + rng.choice([', "NN" 0.5000)', ', "NN" 1.0e-3 "VB" 0.5)', ',', ', "NN")',
                                                              ', "NN" 1.)', ', "NN" .5)', ',"N" 1e5 )', ', "NN" 01.5)',
                                                              ', "NN" -0.25  "X" 2E+3)', ' "x")']), 1)
                if rng.random() < 0.5:
                    yield {"kind": "yyparse", "s": cps(s if s else "()")}
                    continue
            yield {"kind": "yyparse", "s": cps(mutate(rng, s) if s else "()")}

    def search_cases(self, rng, tier, n, seeds):
        if any(c["kind"] in ("yy", "yyparse", "yyx", "tokpat") for c in seeds):
            for _ in range(n):
                yield gen_yy_case(rng)
        else:
            yield from super().search_cases(rng, tier, n, seeds)

    # ---- implementation
    def impl_yyx(self, case):
        toks = [mk_xtoken(t) for t in case["tokens"]]
        lat = YYTokenLattice(toks)
        s = str(lat)
        back = YYTokenLattice.from_string(s)
        lst = lat.to_list()
        viaj = YYTokenLattice.from_list(json.loads(json.dumps(lst)))
        try:
            YYToken(0, 0, 1)
            noform = "no error"
        except TypeError:
            noform = "TypeError"
        dflt = YYToken(5, 6, 7, form="f")
        return {"yy": cps(s), "reparsed": [jxtok(t) for t in back.tokens], "same": back == lat and lat == back,
                "keys": [sorted(d) for d in lst], "fromlist": [jxtok(t) for t in viaj.tokens],
                "list_same": YYTokenLattice.from_list(lst) == viaj,
                "eq_other": [lat == 5, lat != 5, lat == YYTokenLattice(toks + toks[:1]), lat == YYTokenLattice(list(toks))],
                "noform": noform, "defaults": jxtok(dflt), "default_lnk_falsy": not dflt.lnk}

    def impl_tokpat(self, case):
        """which pattern reaches the splitting (`_tokenize`) for tokenize(s, pattern=arg) and for
        tokenize_result(result[, pattern=arg]) on a module with / without a `:` line"""
        import os
        import tempfile
        from delphin import repp as R
        self.model_request(case)
        text = ([] if case["declared"] is None else [":" + case["declared"]]) + ["!b\tb"]
        with warnings.catch_warnings():
            warnings.simplefilter("ignore")
            if case["via"] == "file":
                d = tempfile.mkdtemp(dir=self.tmp)
                with open(os.path.join(d, "m.rpp"), "w", encoding="utf-8") as f:
                    f.write("\n".join(text) + "\n")
                r = R.REPP.from_file(os.path.join(d, "m.rpp"))
            else:
                r = R.REPP.from_string("\n".join(text))
            seen = []
            orig = R._tokenize

            def spy(result, pattern):
                seen.append(pattern)
                return orig(result, pattern)
            R._tokenize = spy
            try:
                s = uncps(case["input"])
                kw = {} if case["arg"] is None else {"pattern": case["arg"]}
                lat = r.tokenize(s, **kw)
                res = r.apply(s)
                lat2 = r.tokenize_result(res, **kw)
                r.tokenize(s)                      # the declared / default choice again after an explicit one
            finally:
                R._tokenize = orig
        def forms(lat_):
            return [t.form for t in lat_.tokens]
        return {"tokenize": cps(seen[0]), "tokenize_result": cps(seen[1]), "again": cps(seen[2]),
                "out": cps(res.string), "forms": forms(lat), "forms_result": forms(lat2)}

    def impl(self, case):
        if case["kind"] == "yyx":
            self.model_request(case)
            return self.impl_yyx(case)
        if case["kind"] == "yy":
            lat = YYTokenLattice([mk_token(t) for t in case["tokens"]])
            s = str(lat)
            back = YYTokenLattice.from_string(s)
            first = [G.jytok(t) for t in back.tokens]
            # reuse: other lattices are written and read in between (a fixed one and the previous case's), then the
            # same calls again — in the same process, on the same objects
            other = YYTokenLattice([YYToken(0, 0, 1, Lnk.charspan(0, 2), [1], 'q"\\', 'z', 3)])
            for o in [other] + ([self._yy_prev] if getattr(self, "_yy_prev", None) is not None else []):
                YYTokenLattice.from_string(str(o))
            again = (str(lat) == s and [G.jytok(t) for t in YYTokenLattice.from_string(s).tokens] == first
                     and [G.jytok(t) for t in YYTokenLattice.from_string(str(back)).tokens] == first)
            self._yy_prev = lat
            return {"yy": cps(s), "reparsed": first, "same": back == lat, "again": again}
        if case["kind"] == "tokpat":
            return self.impl_tokpat(case)
        if case["kind"] == "yyparse":
            self.model_request(case)
            try:
                back = YYTokenLattice.from_string(uncps(case["s"]))
            except ValueError:
                # e.g. paths "1-0": the regex reads two integers, the code splits on blanks and int() fails;
                # malformed input, outside the property; the model answers the same (MT.valueError -> no list)
                return {"reparsed": {"err": "unmodelled"}, "why": "ValueError", "xreparsed": {"err": "ValueError"}}
            x = [jxtok(t) for t in back.tokens]
            if any(t.lrules != ["null"] or t.pos for t in back.tokens):
                return {"reparsed": {"err": "unmodelled"}, "xreparsed": x}
            return {"reparsed": [G.jytok(t) for t in back.tokens], "xreparsed": x}
        obs = self.full(case)
        self.model_request(case)          # built now, while the observation is at hand
        if "err" in obs:
            return {"err": obs["err"]}
        runs = []
        for run in obs["runs"]:
            runs.append(run if "err" in run else {k: run[k] for k in self.KEYS if k in run})
        return {"load": [None if x is None else {"tracked": x["tracked"], "untracked": x["untracked"]} for x in obs["load"]],
                "runs": runs}

    X_NOOP = {"op": "yyparse", "s": []}      # keeps the case in the runner's comparison loop

    def x_request(self, case):
        """request for the C14-only driver"""
        k = case["kind"]
        if k == "tokpat":
            return {"op": "tokpat", "arg": None if case["arg"] is None else cps(case["arg"]),
                    "declared": None if case["declared"] is None else cps(case["declared"])}
        if k == "yyparse":
            return {"op": "yyxparse", "s": case["s"]}
        toks = []
        for t in case["tokens"]:
            d = {kk: t[kk] for kk in ("id", "start", "end", "lnk", "paths", "form", "surface", "ipos")}
            d["lrules"] = [cps(x) for x in t["lrules"]]
            d["pos"] = [[cps(a), cps(format(b, ".4f"))] for a, b in t["pos"]]
            toks.append(d)
        return {"op": "yyx", "tokens": toks}

    def x_note(self, case):
        if not hasattr(self, "_xreq"):
            self._xreq, self._xans = {}, {}
        key = json.dumps(case, sort_keys=True)
        if key not in self._xreq:
            self._xreq[key] = self.x_request(case)

    def x_answer(self, case):
        """answers of the C14-only driver: all pending requests go through ONE driver process, started when the
        first answer is needed (the runner has collected every request by then)"""
        from .common import leanrun
        self.x_note(case)
        key = json.dumps(case, sort_keys=True)
        if key not in self._xans:
            todo = [k for k in self._xreq if k not in self._xans]
            answers = leanrun.run_driver(self.xdriver, [self._xreq[k] for k in todo])
            for k, a in zip(todo, answers):
                self._xans[k] = a
            self._xruns = getattr(self, "_xruns", 0) + 1
        return self._xans[key]

    @staticmethod
    def x_tokens(ans):
        """model tokens -> the implementation's shape: probabilities through Python's float (the parameter);
        a text float() rejects is the ValueError of from_string"""
        if not isinstance(ans, list):
            return ans
        out = []
        for t in ans:
            pos = []
            for tag, txt in t["pos"]:
                v = xfloat(uncps(txt))
                if v is None:
                    return {"err": "ValueError"}
                pos.append([uncps(tag), v])
            out.append(dict(t, lrules=[uncps(x) for x in t["lrules"]], pos=pos))
        return out

    def model_request(self, case):
        if case["kind"] in ("yyx", "tokpat"):
            self.x_note(case)
            return self.X_NOOP
        if case["kind"] == "yyparse":
            self.x_note(case)
        if case["kind"] == "yy":
            return {"op": "yy", "tokens": case["tokens"]}
        if case["kind"] == "yyparse":
            return {"op": "yyparse", "s": case["s"]}
        return super().model_request(case)

    def build_request(self, case):
        return super().build_request(case)

    def model_compare(self, case, expected, answer):
        if case["kind"] == "tokpat":
            a = self.x_answer(case)
            e = {"tokenize": expected["tokenize"], "tokenize_result": expected["tokenize_result"]}
            return None if a == e else {"expected_from_impl": e, "model": a}
        if case["kind"] == "yyx":
            a = self.x_answer(case)
            got = {"yy": a.get("yy"), "reparsed": self.x_tokens(a.get("reparsed"))}
            e = {"yy": expected["yy"], "reparsed": expected["reparsed"]}
            return None if got == e else {"expected_from_impl": e, "model": got}
        if case["kind"] == "yyparse":
            a = self.x_tokens(self.x_answer(case).get("reparsed"))
            if a != expected.get("xreparsed"):
                return {"extended parser": True, "expected_from_impl": expected.get("xreparsed"), "model": a}
        if case["kind"] in ("yy", "yyparse"):
            m_un = isinstance(answer, dict) and isinstance(answer.get("reparsed"), dict)
            i_un = isinstance(expected.get("reparsed"), dict)
            if case["kind"] == "yyparse" and m_un and i_un:
                self.note_skip("yyparse: token with lrules != ['null'] or pos tags or ValueError: outside the narrow parser "
                               "model of the shared driver (compared with the full-width model of the C14 driver instead)")
                return None
            if m_un or i_un:
                # one-sided: the model must say exactly when the real parser meets a token outside its shapes
                return {"expected_from_impl": expected.get("reparsed"), "model": answer.get("reparsed") if isinstance(answer, dict) else answer}
            e = {k: expected[k] for k in ("yy", "reparsed") if k in expected}
            a = {k: answer.get(k) for k in e} if isinstance(answer, dict) else answer
            return None if e == a else {"expected_from_impl": e, "model": a}
        return super().model_compare(case, expected, answer)

    # ---- direct oracle
    def oracle(self, case, res):
        fails = []

        def fail(clause, detail):
            fails.append({"clause": clause, "detail": detail})
        if case["kind"] == "yyparse":
            return fails
        if case["kind"] == "tokpat":
            from delphin import repp as R
            want = case["arg"] if case["arg"] is not None else (case["declared"] if case["declared"] is not None
                                                                 else R.DEFAULT_TOKENIZER)
            want2 = case["arg"] if case["arg"] is not None else R.DEFAULT_TOKENIZER
            dflt = case["declared"] if case["declared"] is not None else R.DEFAULT_TOKENIZER
            out = uncps(res["out"])
            if uncps(res["tokenize"]) != want or res["forms"] != [out[a:b] for a, b in pieces(want, out)]:
                fail("tokenize(s, pattern): the explicit pattern must win, else the module's ':' line, else the default",
                     repr((case["declared"], case["arg"], uncps(res["tokenize"]), res["forms"])))
            if uncps(res["tokenize_result"]) != want2 or res["forms_result"] != [out[a:b] for a, b in pieces(want2, out)]:
                fail("tokenize_result(result, pattern): the explicit pattern, else the default", repr((case, res["forms_result"])))
            if uncps(res["again"]) != dflt:
                fail("tokenize(s) after a call with an explicit pattern does not return to the declared / default pattern",
                     repr((case["declared"], case["arg"], uncps(res["again"]))))
            return fails
        if case["kind"] == "yyx":
            want = [dict(t, pos=[list(x) for x in t["pos"]]) for t in case["tokens"]]
            shape = all(t["paths"] and t["lnk"] != [-1, -1] for t in case["tokens"])
            if shape and (res["reparsed"] != want or not res["same"]):
                fail("the token lattice (tokens with several lrules / pos tags) does not survive YY serialization and parsing",
                     repr((uncps(res["yy"]), want, res["reparsed"]))[:900])
            # dict / list interface: id, vertices, span (when informative), form, surface and pos tags are kept;
            # paths, ipos, lrules are not part of the dict and come back as the defaults
            wl, wk = [], []
            for t in case["tokens"]:
                truthy = t["lnk"] is not None and t["lnk"] != [-1, -1]
                wl.append(dict(t, lnk=(t["lnk"] if truthy else None), paths=[1], ipos=0, lrules=["null"],
                               pos=[list(x) for x in t["pos"]]))
                wk.append(sorted(["id", "start", "end", "form"] + (["from", "to"] if truthy else [])
                                 + (["surface"] if t["surface"] is not None else [])
                                 + (["tags", "probabilities"] if t["pos"] else [])))
            if res["fromlist"] != wl or res["keys"] != wk or not res["list_same"]:
                fail("YYTokenLattice.from_list(to_list()) does not keep id, vertices, span, form, surface and pos tags",
                     repr((wl, res["fromlist"], res["keys"]))[:900])
            if res["eq_other"] != [False, True, False, True]:
                fail("YYTokenLattice.__eq__ is not equality of the token lists", repr(res["eq_other"]))
            if res["noform"] != "TypeError" or not res["default_lnk_falsy"] or \
                    {k: res["defaults"][k] for k in ("lnk", "paths", "surface", "ipos", "lrules", "pos")} != \
                    {"lnk": None, "paths": [1], "surface": None, "ipos": 0, "lrules": ["null"], "pos": []}:
                fail("YYToken() defaults / missing form", repr((res["noform"], res["defaults"])))
            return fails
        if case["kind"] == "yy":
            ok_shape = all(t["paths"] and t["lnk"] != [-1, -1] for t in case["tokens"])
            want = [dict(t) for t in case["tokens"]]
            if not res.get("again", True):
                fail("purity: writing / reading the same lattice again after other lattices gives a different result",
                     repr(uncps(res["yy"]))[:400])
            if ok_shape and (res["reparsed"] != want or not res["same"]):
                fail("the token lattice does not survive YY serialization and parsing",
                     repr((uncps(res["yy"]), want, res["reparsed"]))[:800])
            return fails
        obs = self.full(case)
        if "err" in obs:
            return fails          # load errors are C13's business
        masked = case["kind"] == "masked"
        ngroups = {i: (ld or {}).get("ngroups") for i, ld in enumerate(obs["load"])}
        for ent in obs["eng"]:
            why = G.check_matches(uncps(ent["s"]), ent["ms"], ngroups[ent["id"]])
            if why:
                fail("parameter assumption on the regex engine violated", repr((why, ent)))
        for inp, run in zip(case["inputs"], obs["runs"]):
            s = uncps(inp)
            n = len(s)
            if masked:
                if "err" in run:
                    if run["err"] != "timeout":
                        fail("apply raises on a program with masks", repr((s, run["err"])))
                    continue
                mp = masked_prov(case, s, run)
                want, org = (None, None) if mp is None else (uncps(run["string"]), mp[0])
            else:
                try:
                    want, org = ref_prov(case, case["prog"], s, list(range(n)))
                except G.Diverges:
                    continue
                if "err" in run:
                    fail("apply raises or does not terminate although the reference reaches a result", repr((s, run["err"])))
                    continue
            self.check_run(fail, case, obs, s, run, want, org)
        fails.extend(obs.get("purity", []))
        if case["kind"] in ("specimen", "masked") or len(json.dumps(case["prog"])) % 3 == 0:
            if not G.has_kind(case["prog"], "incl") or case["via"] == "file":
                self.check_config(fail, case, obs)
        if not masked:
            self.check_tokenize_active(fail, case, obs)
        if case["masks"] and not masked:
            nomask = G.map_nodes(case["prog"], lambda nd: [] if nd["k"] == "mask" else None)
            v = self.variant(case, nomask)
            if G.strip_obs(v) != G.strip_obs(obs):
                fail("a mask rule by itself changed the string or a reported span", repr(case["masks"]))
        return fails

    def check_config(self, fail, case, obs):
        """call path REPP.from_config (PET-style .set file naming the top module and the default activations):
        the object it builds must give the results and tokens of the file-loaded program"""
        import os
        import tempfile
        from delphin.repp import REPP
        from pathlib import Path
        active = sorted(G.active_names(case["prog"]))
        pairs = [(uncps(i), run) for i, run in zip(case["inputs"], obs["runs"]) if "err" not in run][:3]
        if not pairs:
            return
        c2 = dict(case, via="file")
        ctx = {}
        with warnings.catch_warnings():
            warnings.simplefilter("ignore")
            G.build(c2, self.tmp, None, ctx)
            d = ctx["dir"]
            conf = "; REPP configuration\nrepp-modules := main%s.\nrepp-tokenizer := main. ; top module\n" % \
                "".join(" " + a for a in active)
            if active:
                conf += "repp-calls := %s.\n" % " ".join(active)
            with open(os.path.join(d, "repp.set"), "w", encoding="utf-8") as f:
                f.write(conf)
            sub = tempfile.mkdtemp(dir=d)
            with open(os.path.join(sub, "pet.set"), "w", encoding="utf-8") as f:
                f.write(conf)
            objs = [("beside the modules", REPP.from_config(os.path.join(d, "repp.set"))),
                    ("directory=Path", REPP.from_config(os.path.join(sub, "pet.set"), directory=Path(d)))]
            for label, rc in objs:
                for s, run in pairs:
                    x = rc.apply(s)
                    if (x.string, list(x.startmap), list(x.endmap)) != (uncps(run["string"]), run["startmap"], run["endmap"]):
                        fail("from_config: apply on the configured object differs from the file-loaded program",
                             repr((label, s, x.string, list(x.startmap), list(x.endmap))))
                        return
                    if "tokens" in run:
                        lat = rc.tokenize(s) if case.get("tokline") else rc.tokenize(s, pattern=case["tok"])
                        if [[t.lnk.data[0], t.lnk.data[1], cps(t.form)] for t in lat.tokens] != run["tokens"] or \
                                cps(str(lat)) != run["yy"]:
                            fail("from_config: tokenize on the configured object differs from the file-loaded program",
                                 repr((label, s, str(lat))))
                            return
        self._nconfig = getattr(self, "_nconfig", 0) + 1

    def check_tokenize_active(self, fail, case, obs):
        """`active` must reach the rewriting inside tokenize() on every call: ONE object, tokenize with the case's
        active set, with none, with all external modules, and again — each time the tokens are the pieces of what
        apply() gives for exactly that set (a result remembered from a call with another set shows here)"""
        names = sorted(G.all_ext_names(case["prog"]))
        if not names or case.get("tok") is None:
            return
        inputs = [uncps(i) for i, run in zip(case["inputs"], obs["runs"]) if "err" not in run][:2]
        sets = []
        for cand in (sorted(G.active_names(case["prog"])), [], names):
            if cand in sets:
                continue
            prog2 = G.map_nodes(case["prog"], lambda nd, cand=cand: [dict(nd, active=(nd["name"] in cand))]
                                if nd["k"] == "ext" and nd["active"] != (nd["name"] in cand) else None)
            try:
                for s in inputs:
                    G.ref_run(dict(case, prog=prog2), prog2, s, [])
                sets.append(cand)
            except G.Diverges:
                pass
        if len(sets) < 2:
            return
        with warnings.catch_warnings():
            warnings.simplefilter("ignore")
            r = G.build(case, self.tmp)
            pat = None if case.get("tokline") else case["tok"]
            # same string with one set after the other (a one-entry memo keyed by the string shows), then all again
            for s, act in [(s, a) for s in inputs for a in sets] + [(s, a) for a in sets[:2] for s in inputs]:
                if True:
                    lat = r.tokenize(s, pattern=pat, active=list(act))
                    x = r.apply(s, active=list(act))
                    want = [(a + x.startmap[a + 1], b + x.endmap[b], x.string[a:b]) for a, b in pieces(case["tok"], x.string)]
                    if [(t.lnk.data[0], t.lnk.data[1], t.form) for t in lat.tokens] != want:
                        fail("tokenize(s, active=A) is not the tokenization of apply(s, active=A) for the set given to THIS call",
                             repr((s, act, [(t.lnk.data[0], t.lnk.data[1], t.form) for t in lat.tokens], want))[:700])
                        return
        self._nactive = getattr(self, "_nactive", 0) + 1

    def check_run(self, fail, case, obs, s, run, want, org):
        """the clauses of C14 on one run; `org[j]` = index in the original of output character j if it was
        carried over (None otherwise); `org is None`: no provenance available (masked run outside the oracle)"""
        n = len(s)
        out = uncps(run["string"])
        sm, em = run["startmap"], run["endmap"]
        if len(sm) != len(out) + 2 or len(em) != len(out) + 2:
            fail("offset maps do not have one entry per output position plus two sentinels",
                 repr((s, out, len(sm), len(em))))
            return
        if want is not None and out != want:
            fail("result string differs from the ordered substitutions (see C13)", repr((s, out, want)))
            return
        for j in range(len(out)):
            a, b = j + sm[j + 1], j + 1 + em[j + 1]
            if not (0 <= a <= n and 0 <= b <= n):
                fail("a reported span does not lie within the original string", repr((s, out, j, a, b)))
                break
        for j, p in enumerate(org or []):
            if p is None:
                continue
            if s[p] != out[j]:
                fail("oracle inconsistency: carried character differs", repr((s, out, j, p)))
                break
            if j + sm[j + 1] != p or j + 1 + em[j + 1] != p + 1:
                fail("a carried-over character is not attributed to its original position",
                     repr({"input": s, "output": out, "j": j, "origin": p, "start": j + sm[j + 1],
                           "end": j + 1 + em[j + 1]}))
                break
        if not any(st["applied"] for st in run["steps"] if st["kind"] == "rule"):
            a0, b0 = G.INIT(n)
            if sm != a0 or em != b0:
                fail("no rule applied, but the maps are not the identity", repr((s, sm, em)))
        if "tokens" in run:
            pat = case["tok"]
            if case.get("tokline") and obs.get("tokpat") != pat:
                fail("tokenization pattern of the module not taken from its ':' line", repr((obs.get("tokpat"), pat)))
            pcs = pieces(pat, out)
            toks = run["tokens"]
            if [uncps(t[2]) for t in toks] != [out[a:b] for a, b in pcs]:
                fail("tokens are not the maximal separator-free pieces of the output in order",
                     repr((out, pat, [uncps(t[2]) for t in toks], [out[a:b] for a, b in pcs])))
            else:
                if not run["tokshape"]:
                    fail("token ids / vertices are not consecutive", repr((s, out)))
                for (a, b), t in zip(pcs, toks):
                    if not (0 <= t[0] <= n and 0 <= t[1] <= n):
                        fail("a token span does not lie within the original string", repr((s, out, t)))
                        break
                    if t[0] != a + sm[a + 1] or t[1] != b + em[b]:
                        fail("token span is not read from the maps at the token boundaries", repr((s, out, t, a, b)))
                        break
                    o = None if org is None else org[a:b]
                    if o is not None and all(p is not None for p in o) and all(o[i] + 1 == o[i + 1] for i in range(len(o) - 1)):
                        if (t[0], t[1]) != (o[0], o[0] + (b - a)) or s[t[0]:t[1]] != out[a:b]:
                            fail("original[from:to] != form for a token of contiguous carried-over characters",
                                 repr({"input": s, "output": out, "token": [t[0], t[1], out[a:b]],
                                       "expected_span": [o[0], o[0] + b - a]}))
                            break
            if not run["yysame"]:
                fail("the token lattice does not survive YY serialization and parsing", repr((s, uncps(run["yy"]))))

    def extra_evidence(self):
        ev = super().extra_evidence()
        ev["from_config_checked"] = getattr(self, "_nconfig", 0)
        ev["c14_driver_requests"] = len(getattr(self, "_xans", {}))
        ev["tokenize_active_interleaved"] = getattr(self, "_nactive", 0)
        return ev

    def stats(self, case, res, counters):
        if case["kind"] == "tokpat":
            counters["kind:tokpat"] = counters.get("kind:tokpat", 0) + 1
            return
        if case["kind"] == "yyx":
            counters["kind:yyx"] = counters.get("kind:yyx", 0) + 1
            counters["yyx:tokens"] = counters.get("yyx:tokens", 0) + len(case["tokens"])
            counters["yyx:pos_tags"] = counters.get("yyx:pos_tags", 0) + sum(len(t["pos"]) for t in case["tokens"])
            return
        if case["kind"] in ("yy", "yyparse"):
            counters["kind:" + case["kind"]] = counters.get("kind:" + case["kind"], 0) + 1
            if case["kind"] == "yy":
                counters["yy_tokens"] = counters.get("yy_tokens", 0) + len(case["tokens"])
                for t in case["tokens"]:
                    txt = uncps(t["form"]) + (uncps(t["surface"]) if t["surface"] else "")
                    if '"' in txt or "\\" in txt:
                        counters["yy_tokens:quote_or_backslash"] = counters.get("yy_tokens:quote_or_backslash", 0) + 1
            elif isinstance(res, dict) and isinstance(res.get("reparsed"), list):
                k = "yyparse:tokens=%d" % min(len(res["reparsed"]), 3)
                counters[k] = counters.get(k, 0) + 1
            elif isinstance(res, dict):
                k = "yyparse:" + res.get("why", "outside_model")
                counters[k] = counters.get(k, 0) + 1
            return
        super().stats(case, res, counters)
        obs = self.full(case)
        if "err" in obs:
            return
        for inp, run in zip(case["inputs"], obs["runs"]):
            if "err" in run:
                continue
            if case["kind"] == "masked":
                mp = masked_prov(case, uncps(inp), run)
                if mp is None:
                    counters["masked:runs_without_provenance"] = counters.get("masked:runs_without_provenance", 0) + 1
                    continue
                org = mp[0]
                counters["masked:runs_with_provenance"] = counters.get("masked:runs_with_provenance", 0) + 1
                counters["masked:rule_steps_some_match_left_alone"] = \
                    counters.get("masked:rule_steps_some_match_left_alone", 0) + mp[1]
                counters["masked:out_chars:carried"] = counters.get("masked:out_chars:carried", 0) + \
                    sum(1 for p_ in org if p_ is not None)
                counters["masked:out_chars:carried_moved"] = counters.get("masked:out_chars:carried_moved", 0) + \
                    sum(1 for j, p_ in enumerate(org) if p_ is not None and p_ != j)
            else:
                try:
                    _, org = ref_prov(case, case["prog"], uncps(inp), list(range(len(inp))))
                except G.Diverges:
                    continue
            counters["out_chars"] = counters.get("out_chars", 0) + len(org)
            counters["out_chars:carried"] = counters.get("out_chars:carried", 0) + sum(1 for p in org if p is not None)
            counters["out_chars:carried_moved"] = counters.get("out_chars:carried_moved", 0) + \
                sum(1 for j, p in enumerate(org) if p is not None and p != j)
            if "tokens" in run:
                counters["tokens"] = counters.get("tokens", 0) + len(run["tokens"])

    def nontrivial_key(self, case, res):
        if case["kind"] == "tokpat":
            return json.dumps(case, sort_keys=True)
        if case["kind"] == "yyx":
            return json.dumps(case, sort_keys=True)
        if case["kind"] == "yy":
            return json.dumps(case, sort_keys=True) if case["tokens"] else None
        if case["kind"] == "yyparse":
            return json.dumps(case, sort_keys=True)
        return super().nontrivial_key(case, res)

    def shrink(self, case, still_fails):
        if case["kind"] in ("yy", "yyparse", "yyx", "tokpat"):
            if case["kind"] in ("yy", "yyx"):
                for t in list(case["tokens"]):
                    c = dict(case, tokens=[x for x in case["tokens"] if x is not t])
                    if still_fails(c):
                        case = c
            return case
        return super().shrink(case, still_fails)


CHECK = C14()
