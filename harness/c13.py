"""C13 — REPP rewriting equals ordered regex substitution with fixpoint groups.

Generators (shared with C14), program rendering, implementation runner, the reference interpreter
(plain ``re.sub`` in order, iterate-until-unchanged) and the direct oracle.
"""
import copy
import itertools
import json
import os
import re
import shutil
import signal
import tempfile
import warnings

from .common import paths
from .common.runner import Check

paths.ensure_repo_on_path()
with warnings.catch_warnings():
    warnings.simplefilter("ignore")          # REPPWarning: 'regex' is not importable in the sandbox
    from delphin import repp as R            # noqa: E402
    from delphin.repp import REPP            # noqa: E402

ALPHA = "abx "
TOKPATS = [r"[ \t]+", " ", ",", "x*"]
FUEL = 400
ROUND_CAP = 40          # reference interpreter: rounds of one iterative group before "diverges"
LEN_CAP = 160


def cps(s):
    return [ord(c) for c in s]


def uncps(a):
    return "".join(chr(x) for x in a)


class Diverges(Exception):
    pass


class Timeout(Exception):
    pass


def _alarm(signum, frame):
    raise Timeout()


TIMEOUTS = {"n": 0, "spent": 0.0}
TIMEOUT_BUDGET = 25.0        # seconds a whole run may lose in alarms; after that every alarm is 0.25 s


def with_timeout(seconds, f, floor=0.25):
    """run f under an alarm.  All alarms of one process share a budget, so that a tree on which many programs
    stop terminating still finishes in a few minutes; once the budget is used up an alarm is `floor` seconds
    (the alarm whose expiry is reported as a failure keeps a floor that a healthy run does not reach)."""
    import time as _time
    if TIMEOUTS["spent"] >= TIMEOUT_BUDGET:
        seconds = min(seconds, floor)
    old = signal.signal(signal.SIGALRM, _alarm)
    signal.setitimer(signal.ITIMER_REAL, seconds)
    t0 = _time.time()
    try:
        return f()
    except Timeout:
        TIMEOUTS["n"] += 1
        TIMEOUTS["spent"] += _time.time() - t0
        raise
    finally:
        signal.setitimer(signal.ITIMER_REAL, 0)
        signal.signal(signal.SIGALRM, old)


# ----------------------------------------------------------------------------------------------
# generators

ATOMS_PLAIN = ["a", "b", "x", " ", "[ab]", ".", "a+", "b*", "x?", "(?:ab)", "a{1,2}", "[^ ]", r"\b", "(?=b)"]
ATOMS_GROUP = ["(a)", "(b)", "(x)", "(a+)", "(b*)", "(x)?", "(a|b)", "(ab)", "( )", "((a)b)", "(a(b)?)", "(.)", "([ab]+)",
               "(b)?", "(a)*", "()", "(x|)"]
LITS = ["-", "y", "zz", " ", "a", "b", ",", "x"]
ESCAPES = ["\\t", "\\\\", "\\0", "\\07", "\\101", "\\n", "\\012"]


def gen_pattern(rng, want_groups=None):
    while True:
        k = rng.choice([1, 1, 2, 2, 3, 3, 4])
        parts = []
        for _ in range(k):
            if rng.random() < (0.55 if want_groups is None else (0.75 if want_groups else 0.0)):
                parts.append(rng.choice(ATOMS_GROUP))
            else:
                parts.append(rng.choice(ATOMS_PLAIN))
        r = rng.random()
        if r < 0.08:
            parts.insert(0, "^")
        elif r < 0.16:
            parts.append("$")
        elif r < 0.22 and len(parts) >= 2:
            parts = [parts[0], "|"] + parts[1:]
        pat = "".join(parts)
        if rng.random() < 0.06:
            pat = pat.replace("(a)", "(?P<n>a)", 1)
        try:
            rx = re.compile(pat)
        except re.error:
            continue
        if rx.groups > 9:
            continue
        return pat


def gen_template(rng, pat, mode):
    """mode: 'inorder' (groups 1..k in order, literals anywhere), 'any' (any order, repeats, gaps),
    'escapes' (adds \\t \\\\ octal \\g<..>), 'empty'"""
    rx = re.compile(pat)
    ng = rx.groups
    if mode == "empty":
        return ""
    t = ""
    if mode == "inorder":
        k = rng.randrange(0, ng + 1)
        for g in range(1, k + 1):
            if rng.random() < 0.4:
                t += rng.choice(LITS)
            t += "\\%d" % g if rng.random() < 0.85 else "\\g<%d>" % g
        if rng.random() < 0.4:
            t += rng.choice(LITS)
        return t
    n = rng.randrange(0, 6)
    for _ in range(n):
        r = rng.random()
        if r < 0.35 or ng == 0 and r < 0.8:
            t += rng.choice(LITS)
        elif r < 0.85 and ng:
            g = rng.randrange(1, ng + 1)
            if "n" in rx.groupindex and rng.random() < 0.5:
                t += "\\g<n>"
            else:
                t += "\\%d" % g if rng.random() < 0.8 else "\\g<%d>" % g
        elif r < 0.9:
            t += "\\g<0>"
        elif mode == "escapes":
            t += rng.choice(ESCAPES)
    if mode == "escapes" and not any(e in t for e in ESCAPES):
        t += rng.choice(ESCAPES)
    return t


def gen_rule(rng, mode=None):
    if mode is None:
        mode = rng.choice(["inorder", "inorder", "any", "any", "escapes", "empty"])
    pat = gen_pattern(rng, want_groups=None if mode != "inorder" else rng.random() < 0.8)
    tpl = gen_template(rng, pat, mode)
    return {"pat": pat, "tpl": tpl}


def gen_input(rng, maxlen=10):
    n = rng.choice([0, 1, 2, 3, 3, 4, 4, 5, 6, 8, maxlen])
    r = rng.random()
    if r < 0.8:
        return "".join(rng.choice(ALPHA) for _ in range(n))
    if r < 0.9:
        return "".join(rng.choice("ab ") for _ in range(n))
    return "".join(rng.choice("abx ,y-") for _ in range(n))


def all_strings(maxlen, alpha=ALPHA):
    for k in range(maxlen + 1):
        for tup in itertools.product(alpha, repeat=k):
            yield "".join(tup)


# names of numbered groups: strings of digits, not numbers ("1" and "01" are different groups); non-contiguous,
# non-ascending, with leading zeros, longer than a machine word
GROUP_IDS = ["1", "2", "3", "10", "01", "007", "0", "12345678901234567890", "9"]


class ProgGen:
    """random program trees over a rule table"""

    def __init__(self, rng, mode=None, masks=False):
        self.rng = rng
        self.mode = mode
        self.rules = []
        self.masks = []
        self.next_group = 1
        self.pool = rng.sample(GROUP_IDS, len(GROUP_IDS))
        self.ext_names = {}
        self.allow_masks = masks

    def rule_node(self):
        rng = self.rng
        if self.rules and rng.random() < 0.15:
            return {"k": "rule", "id": rng.randrange(len(self.rules))}
        self.rules.append(gen_rule(rng, self.mode))
        return {"k": "rule", "id": len(self.rules) - 1}

    def nodes(self, depth, n=None, in_iter=False):
        rng = self.rng
        n = n if n is not None else rng.choice([1, 1, 2, 2, 3, 4])
        out = []
        for _ in range(n):
            r = rng.random()
            if depth <= 0 or r < 0.6:
                out.append(self.rule_node())
            elif r < 0.75:
                self.next_group += 1
                g = self.pool.pop() if self.pool else str(self.next_group + 20)
                nd = {"k": "iter", "n": g, "ops": self.nodes(depth - 1, rng.choice([1, 1, 2, 3]), True),
                      "def": rng.choice(["before", "before", "after"])}
                out.append(nd)
                if rng.random() < 0.2:
                    out.append(self.rule_node())
                    out.append(copy.deepcopy(nd))       # the same group called twice
            elif r < 0.88:
                name = "m%d" % len(self.ext_names)
                active = rng.random() < 0.6
                self.ext_names[name] = active
                nd = {"k": "ext", "name": name, "active": active, "ops": self.nodes(depth - 1)}
                out.append(nd)
                if rng.random() < 0.3:
                    # another module in between, then the same module again (`>y >x >y`)
                    name2 = "m%d" % len(self.ext_names)
                    self.ext_names[name2] = True
                    out.append({"k": "ext", "name": name2, "active": True, "ops": [self.rule_node()]})
                    out.append(copy.deepcopy(nd))
            else:
                out.append({"k": "incl", "lines": self.nodes(depth - 1)})
        return out


def has_kind(nodes, k):
    for nd in nodes:
        if nd["k"] == k:
            return True
        for key in ("ops", "lines"):
            if key in nd and has_kind(nd[key], k):
                return True
    return False


def map_nodes(nodes, f):
    """rebuild a tree: f(node) returns a list of replacement nodes or None (= keep, recurse)"""
    out = []
    for nd in nodes:
        rep = f(nd)
        if rep is not None:
            out.extend(map_nodes(rep, f))
            continue
        nd = dict(nd)
        for key in ("ops", "lines"):
            if key in nd:
                nd[key] = map_nodes(nd[key], f)
        out.append(nd)
    return out


def dedupe(prog, rules, masks):
    """identical rules (mask patterns) get one table entry: steps report the rule object, not the call site"""
    rkey, rmap, rules2 = {}, {}, []
    for i, ru in enumerate(rules):
        k = (ru["pat"], ru["tpl"])
        if k not in rkey:
            rkey[k] = len(rules2)
            rules2.append(ru)
        rmap[i] = rkey[k]
    mkey, mmap, masks2 = {}, {}, []
    for i, m in enumerate(masks):
        if m not in mkey:
            mkey[m] = len(masks2)
            masks2.append(m)
        mmap[i] = mkey[m]

    def f(nd):
        if nd["k"] == "rule" and rmap[nd["id"]] != nd["id"]:
            return [{"k": "rule", "id": rmap[nd["id"]]}]
        if nd["k"] == "mask" and mmap[nd["id"]] != nd["id"]:
            return [{"k": "mask", "id": mmap[nd["id"]]}]
        return None
    return map_nodes(prog, f), rules2, masks2


def make_case(prog, rules, masks, inputs, tok=None, via=None, tokline=False, kind="prog"):
    prog, rules, masks = dedupe(prog, rules, masks)
    if via is None:
        via = "file"
    if has_kind(prog, "incl"):
        via = "file"
    return {"kind": kind, "rules": rules, "masks": masks, "prog": prog, "inputs": [cps(s) for s in inputs],
            "tok": tok, "via": via,
            # the ':' line is rstripped by the module parser: a pattern ending in a blank cannot be given there
            "tokline": bool(tokline and tok is not None and tok == tok.rstrip())}


# specimen rules for the bounded-exhaustive stream (every branch of _process_match, past failures)
SPECIMENS = [
    ("wo(n't)", r"\1"), ("(a)x(b)", r"\1y\2"), ("(b)?(a)", r"-\1\2"), ("((a)b)", r"\1\2"), ("a(b)?", r"\1"),
    ("(a)(b)", r"\2\1"), ("(a)(b)", r"\2\2"), ("(a)(b)", r"\1\1"), ("(a)b", r"\1 "), ("a(b)", r" \1"),
    ("(a+)", r"\1\1"), ("b*", "-"), ("x?", ""), ("(a)|b", r"[\1]"), ("(a|b)(x)?", r"\2-\1"),
    ("a(b)x", r"\1"), ("(a)bx", r"\1zz"), ("xa(b)", r"zz\1"), ("(a)(b)?(x)?", r"\1\2\3"), ("(a)(b)?(x)?", r"\1-\3"),
    (" +", " "), ("([ab])", r" \1 "), ("(a(b)?)", r"\2\1"), ("(?P<n>a)(b)", r"\g<n>-\g<2>"), ("(a)(b)", r"x\g<0>y"),
    ("(a)", r"\1\t"), ("a", r"\\"), ("a", r"\0"), ("(a)(b)", r"a\101b"), ("(a)", r"\1\07x"), ("(a)b(x)", r"\1 \2 "),
    ("()a", r"\1b"), ("(a)*", r"\1-"), ("(x|)b", r"\1"), ("a", "aa"), ("(a)(b)", r"\1\3"),
    # a literal, then an optional group that did not participate, then one that did
    ("(a)(b)?(x)", r"\1y\2\3"), ("a(b)?(x)", r"-\1\2"), ("(b)?(a)", r"y\1\2"), ("(a)(b)?(x)?(a)", r"\1-\2\3\4"),
    ("(a)?(b)?(x)", r"zz\1\2\3"),
    # same total length, carried-over characters moved to the right / to the left
    ("(a)b", r"y\1"), ("x(a)", r"\1y"), ("(a)(b) ", r" \1\2"), (" (a)", r"\1 "),
]

ROTATING_GROUPS = [
    [("^-(.+)$", r"\1-")], [("^a(.+)$", r"\1a")], [("^ (.+)$", r"\1 ")], [("^(.+)a$", r"a\1")],
    [("^a(.+)$", r"\1a"), ("^b(.+)$", r"\1b")], [("^(a)(.+)b$", r"\1b\2")], [("^a(.+)$", r"\1a"), ("^(.+)a$", r"a\1")],
]

# rule sequences for the bounded-exhaustive stream: steps that keep the length but move carried-over characters
# (equal-length maps merged one after the other), deleting then inserting, and `>y >x >y` module calls
SPECIMEN_SEQS = [
    [("(a)b", r"y\1"), ("(y)a", r"-\1")], [("x(a)", r"\1y"), ("(a)y", r"y\1")], [("(a)b", r"y\1"), ("y(a)", r"\1b")],
    [(" (a)", r"\1 "), ("(a) ", r" \1"), (" (a)", r"\1 ")], [("(a)(b)", r"\1"), ("(a)", r"\1b")],
    [("b", ""), ("(a)", r"x\1")],
]


def specimen_cases(maxlen, tier):
    strings = list(all_strings(maxlen))
    for pat, tpl in SPECIMENS:
        yield make_case([{"k": "rule", "id": 0}], [{"pat": pat, "tpl": tpl}], [], strings, tok=r"[ \t]+", via="string",
                        kind="specimen")
    for seq in SPECIMEN_SEQS:
        rules = [{"pat": p, "tpl": tp} for p, tp in seq]
        yield make_case([{"k": "rule", "id": i} for i in range(len(rules))], rules, [], strings, tok=r"[ \t]+",
                        via="file", kind="specimen")
    # iterative groups whose passes move carried-over characters while a pass (or the end of a cycle) reproduces
    # the text: the loop stops, the maps must still say where every character came from
    for seq in ROTATING_GROUPS:
        rules = [{"pat": p, "tpl": tp} for p, tp in seq]
        body = [{"k": "rule", "id": i} for i in range(len(rules))]
        prog = [{"k": "iter", "n": 1, "ops": body, "def": "before"}]
        c = make_case(prog, rules, [], [], tok=",", tokline=True, via="file", kind="specimen")
        keep = []
        for s in strings + ["---", "-a-", "aaaa", "abab", "baba", "a a a", "  a  "]:
            try:
                ref_run(c, c["prog"], s, [])       # rotations with a longer period never stop (in the real code either)
                keep.append(s)
            except Diverges:
                pass
        c["inputs"] = [cps(s) for s in keep]
        yield c
    # iterative and nested groups whose first yielded steps come from inside the group (abandoned-generator battery:
    # every step index), also inside an external module, and a group called twice
    rules = [{"pat": "aa", "tpl": "a"}, {"pat": "ab", "tpl": "ba"}, {"pat": "  ", "tpl": " "}, {"pat": "(b)a", "tpl": r"\1"}]
    g2 = {"k": "iter", "n": 2, "ops": [{"k": "rule", "id": 2}], "def": "before"}
    g1 = {"k": "iter", "n": 1, "ops": [{"k": "rule", "id": 0}, g2, {"k": "rule", "id": 1}], "def": "before"}
    flat = {"k": "iter", "n": 1, "ops": [{"k": "rule", "id": 0}], "def": "before"}
    mod = {"k": "ext", "name": "m0", "active": True, "ops": [copy.deepcopy(flat)]}
    for prog in ([flat], [g1, {"k": "rule", "id": 3}], [mod, {"k": "rule", "id": 3}],
                 [flat, {"k": "rule", "id": 1}, copy.deepcopy(flat)]):
        for via in ("string", "file"):
            yield make_case(copy.deepcopy(prog), rules, [], ["aaaab", "aabb  a", "a   aa", "", "ba"], tok=" ", via=via,
                            kind="specimen")
    # MANY ROUNDS: a group that needs as many rounds as the input is long (one character per round)
    for seq, ins in (([("^(a*)a$", r"\1")], ["a" * 30, "a" * 70, "a" * 150, "b" + "a" * 40]),
                     ([("ab", "ba")], ["a" * 25 + "b", "a" * 64 + "b", "a" * 100 + "b" + "a" * 20])):
        rules = [{"pat": p, "tpl": tp} for p, tp in seq]
        c = make_case([{"k": "iter", "n": "10", "ops": [{"k": "rule", "id": 0}], "def": "before"}], rules, [], ins,
                      tok=" ", via="string", kind="specimen")
        c["round_cap"] = 200
        yield c
    # `>y >x >y`: a module called twice with another one in between, both active / one active
    rules = [{"pat": "a", "tpl": "b"}, {"pat": "b", "tpl": "ab"}, {"pat": "(a)b", "tpl": r"\1"}]
    for act_x, act_y in ((True, True), (False, True), (True, False)):
        y = {"k": "ext", "name": "y", "active": act_y, "ops": [{"k": "rule", "id": 0}]}
        x = {"k": "ext", "name": "x", "active": act_x, "ops": [{"k": "rule", "id": 1}]}
        for via in ("string", "file"):
            yield make_case([y, x, copy.deepcopy(y), {"k": "rule", "id": 2}], rules, [], strings[:40], tok=" ", via=via,
                            kind="specimen")


LONG_SIZES = [1023, 1024, 1025, 4095, 4096, 4097]
HUGE_SIZES = [65535, 65536, 65537]


def long_cases(tier):
    """LONG INPUTS, direct oracle only (the model is interpreted): strings around 1024 / 4096 / 65536 characters
    in which almost every position is a match, and iterative groups that need hundreds / thousands of rounds"""
    def mk(seq, inputs, it=False, **kw):
        rules = [{"pat": p, "tpl": tp} for p, tp in seq]
        body = [{"k": "rule", "id": i} for i in range(len(rules))]
        prog = [{"k": "iter", "n": 1, "ops": body, "def": "before"}] if it else body
        c = make_case(prog, rules, [], inputs, via="string", kind="long")
        c.update(len_cap=10 ** 7, round_cap=10 ** 5)
        c.update(kw)
        return c
    base = lambda L: ("ab a" * (L // 4 + 1))[:L]       # noqa: E731
    progs = [[("a", "bb")], [("(a)(b)", r"\2\1")], [("b*", "-")], [(" +", " "), ("(a)", r"\1\1")], [("[ab]", "")]]
    for i, seq in enumerate(progs):
        sizes = LONG_SIZES + (HUGE_SIZES if (tier != "quick" or i < 1) else [])
        yield mk(seq, [base(L) for L in sizes])
    yield mk([("^(a*)a$", r"\1")], ["a" * 300, "a" * (700 if tier == "quick" else 3000)], it=True)
    yield mk([("ab", "ba")], ["a" * 500 + "b"], it=True)
    yield mk([("aa", "a")], ["a" * 65537, "a" * 4097], it=True)


def gen_registry_case(rng):
    """two REPP objects over shared module OBJECTS (ids): the registries as key -> id"""
    keys = ["x", "y", "z"]
    def reg():
        ks = rng.sample(keys, rng.randrange(1, 4))
        return [[cps(k), rng.randrange(3)] for k in ks]
    d1 = reg()
    r = rng.random()
    d2 = copy.deepcopy(d1) if r < 0.4 else (rng.sample(d1, len(d1)) if r < 0.55 else reg())
    return {"kind": "registry", "d1": d1, "d2": d2,
            "probes": [[], [cps("x")], [cps("y")], [cps("z")], [cps("x"), cps("y")], [cps("z"), cps("x"), cps("y")]]}


def run_registry(case):
    with warnings.catch_warnings():
        warnings.simplefilter("ignore")
        mods = [REPP.from_string("!$\t%d" % i) for i in range(3)]

        def mk(d):
            return REPP.from_string("\n".join(">" + uncps(k) for k, _ in d), modules={uncps(k): mods[i] for k, i in d})

        def look(r):
            return [[int(ch) for ch in r.apply("a", active=[uncps(n) for n in a]).string[1:]] for a in case["probes"]]
        r1 = mk(case["d1"])
        before = look(r1)
        mk(case["d2"])
        return {"before": before, "after": look(r1)}


def gen_case(rng, mode=None, tok=False):
    r = rng.random()
    masks = []
    if r < 0.3:
        rule = gen_rule(rng, mode)
        prog, rules = [{"k": "rule", "id": 0}], [rule]
    elif r < 0.5:
        rules = [gen_rule(rng, mode) for _ in range(rng.randrange(2, 5))]
        prog = [{"k": "rule", "id": i} for i in range(len(rules))]
    else:
        g = ProgGen(rng, mode)
        prog = g.nodes(rng.choice([1, 2, 2, 3]))
        rules = g.rules
    kind = "prog"
    mr = rng.random()
    if mr < 0.06:
        # mask rules by themselves
        masks = [gen_pattern(rng) for _ in range(rng.randrange(1, 4))]
        prog, rules = [{"k": "mask", "id": i} for i in range(len(masks))], []
        kind = "maskonly"
    elif mr < 0.14:
        # mask rules after the last rewrite rule: nothing runs under a non-zero mask
        masks = [gen_pattern(rng) for _ in range(rng.randrange(1, 3))]
        prog = prog + [{"k": "mask", "id": i} for i in range(len(masks))]
        kind = "masktail"
    if not rules and kind != "maskonly":
        rules = [gen_rule(rng, mode)]
        prog = [{"k": "rule", "id": 0}]
    inputs = [gen_input(rng) for _ in range(rng.choice([3, 4, 6]))]
    tokp = rng.choice(TOKPATS) if (tok or rng.random() < 0.3) else None
    return make_case(prog, rules, masks, inputs, tok=tokp, via=rng.choice(["file", "string"]),
                     tokline=rng.random() < 0.3, kind=kind)


MASK_PATS = ["a", "ab", "[ab]+", "x", " a", "b ", "a+", "(?:ab)+", ".", "b*", "a b", "^a", "b$", "[^ ]+", "xa?"]


def gen_masked_case(rng):
    """mask rules BEFORE rewrite rules: matches overlapping masked material are blocked"""
    rules = [gen_rule(rng) for _ in range(rng.randrange(1, 4))]
    masks = [rng.choice(MASK_PATS) if rng.random() < 0.8 else gen_pattern(rng, want_groups=False)
             for _ in range(rng.randrange(1, 3))]
    ops = [{"k": "rule", "id": i} for i in range(len(rules))] + [{"k": "mask", "id": i} for i in range(len(masks))]
    rng.shuffle(ops)
    if rng.random() < 0.7:
        ops.insert(0, {"k": "mask", "id": rng.randrange(len(masks))})
    if rng.random() < 0.2 and len(ops) >= 2:
        i = rng.randrange(len(ops) - 1)
        ops = ops[:i] + [{"k": "iter", "n": 1, "ops": ops[i:i + 2], "def": "before"}] + ops[i + 2:]
    elif rng.random() < 0.15:
        ops = [{"k": "ext", "name": "m0", "active": rng.random() < 0.7, "ops": ops[:2]}] + ops[2:]
    inputs = [gen_input(rng) for _ in range(rng.choice([3, 4, 6]))]
    return make_case(ops, rules, masks, inputs, tok=rng.choice([None, r"[ \t]+"]), via=rng.choice(["file", "string"]),
                     kind="masked")


def sub_subset(pat, tpl, s, keep):
    """substitution of the matches whose index is in `keep` only"""
    rx = re.compile(pat)
    out, pos = [], 0
    for i, m in enumerate(rx.finditer(s)):
        if i in keep:
            out.append(s[pos:m.start()])
            out.append(m.expand(tpl))
            pos = m.end()
    out.append(s[pos:])
    return "".join(out)


# ----------------------------------------------------------------------------------------------
# rendering a case as REPP text and loading it with the real code

def render_nodes(nodes):
    """The renderer of normalised trees — modelled in Lean as `Verif.C13.Loader.renderNodes`
    (rule, mask, defcall, call, ext); `incl` (an include line) is the harness-only extension."""
    out = []
    for nd in nodes:
        k = nd["k"]
        if k == "rule":
            out.append("!" + nd["pat"] + "\t" + nd["tpl"])
        elif k == "mask":
            out.append("=" + nd["pat"])
        elif k == "call":
            out.append(">" + nd["n"])
        elif k == "ext":
            out.append(">" + nd["name"])
        elif k == "defcall":
            body = ["#" + nd["n"]] + render_nodes(nd["body"]) + ["#"]
            out.extend([">" + nd["n"]] + body if nd["after"] else body + [">" + nd["n"]])
        elif k == "incl":
            out.append("<" + nd["file"])
        else:
            raise ValueError(k)
    return out


class Rendered:
    """case program -> normalised trees (second and later occurrences of a numbered group become plain
    calls, includes and external modules get their files) -> lines"""

    def __init__(self, case):
        self.case = case
        self.files = {}          # included files
        self.modules = []        # (name, lines) in order of completion (inner first)
        self._ninc = 0
        self.nodes = self._norm(case["prog"], set())
        self.main = render_nodes(self.nodes)
        if case.get("tokline"):
            self.main = [":" + case["tok"]] + self.main

    def _norm(self, nodes, scope):
        out = []
        for nd in nodes:
            k = nd["k"]
            if k == "rule":
                r = self.case["rules"][nd["id"]]
                out.append({"k": "rule", "pat": r["pat"], "tpl": r["tpl"]})
            elif k == "mask":
                out.append({"k": "mask", "pat": self.case["masks"][nd["id"]]})
            elif k == "iter":
                n = str(nd["n"])
                if n in scope:
                    out.append({"k": "call", "n": n})
                else:
                    scope.add(n)
                    out.append({"k": "defcall", "n": n, "body": self._norm(nd["ops"], scope),
                                "after": nd.get("def") == "after"})
            elif k == "ext":
                if nd["name"] not in [m[0] for m in self.modules]:
                    lines = render_nodes(self._norm(nd["ops"], set()))
                    self.modules.append((nd["name"], lines))
                out.append({"k": "ext", "name": nd["name"]})
            elif k == "incl":
                fn = "inc%d.rpp" % self._ninc
                self._ninc += 1
                self.files[fn] = render_nodes(self._norm(nd["lines"], scope))
                out.append({"k": "incl", "file": fn})
            else:
                raise ValueError(k)
        return out

    def load_texts(self):
        """the loader-model requests for this program: (label, lines, files, hasDir, pre)"""
        if self.case["via"] == "string" and not self.files:
            out = []
            done = []
            for name, lines in self.modules:
                out.append((name, lines, {}, False, list(done)))
                done.append(name)
            out.append(("main", self.main, {}, False, list(done)))
            return out
        files = dict(self.files)
        for name, lines in self.modules:
            files[name + ".rpp"] = lines
        return [("main", self.main, files, True, [])]


def active_names(nodes, acc=None):
    acc = set() if acc is None else acc
    for nd in nodes:
        if nd["k"] == "ext" and nd["active"]:
            acc.add(nd["name"])
        for key in ("ops", "lines"):
            if key in nd:
                active_names(nd[key], acc)
    return acc


def build(case, tmpdir, want_loaded=None, ctx=None):
    """load the program with the real code; returns the REPP object.  `want_loaded`: a list that
    receives, per loader request of `Rendered.load_texts`, the dump of what the real loader built.
    `ctx`: a dict that receives what the reuse/purity battery needs (`fresh()`: a newly constructed object
    from the same text / the same paths; `dir`, `path`, `shared` for file-loaded programs)."""
    rd = Rendered(case)
    with warnings.catch_warnings():
        warnings.simplefilter("ignore")
        if case["via"] == "string" and not rd.files:
            if ctx is not None:
                def fresh_string(active=None, wrap=None):
                    with warnings.catch_warnings():
                        warnings.simplefilter("ignore")
                        ms = {}
                        for name, lines in rd.modules:
                            ms[name] = REPP.from_string("\n".join(lines), name=name, modules=ms)
                        return REPP.from_string("\n".join(rd.main), name="main",
                                                modules=(ms if wrap is None else wrap(ms)), active=active)
                ctx["fresh"] = fresh_string

                def pair_string(d1, d2):
                    """two REPP objects built from the SAME modules dict"""
                    with warnings.catch_warnings():
                        warnings.simplefilter("ignore")
                        ms = {}
                        for name, lines in rd.modules:
                            ms[name] = REPP.from_string("\n".join(lines), name=name, modules=ms)
                        keys = sorted(ms)
                        a = REPP.from_string("\n".join(rd.main), name="main", modules=ms, active=d1)
                        b = REPP.from_string("\n".join(rd.main), name="main", modules=ms, active=d2)
                        assert sorted(ms) == keys
                        return a, b
                ctx["pair"] = pair_string
            mods = {}
            done = []
            for name, lines in rd.modules:
                mods[name] = REPP.from_string("\n".join(lines), name=name, modules=mods)
                if want_loaded is not None:
                    want_loaded.append(dump_loaded(mods[name], done))
                done.append(name)
            r = REPP.from_string("\n".join(rd.main), name="main", modules=mods)
            if want_loaded is not None:
                want_loaded.append(dump_loaded(r, done))
            return r
        d = tempfile.mkdtemp(dir=tmpdir)
        for fn, lines in rd.files.items():
            with open(os.path.join(d, fn), "w", encoding="utf-8") as f:
                f.write("\n".join(lines) + "\n")
        for name, lines in rd.modules:
            with open(os.path.join(d, name + ".rpp"), "w", encoding="utf-8") as f:
                f.write("\n".join(lines) + "\n")
        with open(os.path.join(d, "main.rpp"), "w", encoding="utf-8") as f:
            f.write("\n".join(rd.main) + "\n")
        r = REPP.from_file(os.path.join(d, "main.rpp"))
        if want_loaded is not None:
            want_loaded.append(dump_loaded(r, []))
        if ctx is not None:
            path = os.path.join(d, "main.rpp")

            def fresh_file(active=None, wrap=None):
                with warnings.catch_warnings():
                    warnings.simplefilter("ignore")
                    return REPP.from_file(path, active=active, modules=(None if wrap is None else wrap({})))
            def pair_file(d1, d2):
                """two REPP objects loaded from the same files with the SAME (initially empty) modules dict: the
                modules one of them loads implicitly must not reach the other through the caller's dict"""
                with warnings.catch_warnings():
                    warnings.simplefilter("ignore")
                    shared = {}
                    a = REPP.from_file(path, modules=shared, active=d1)
                    b = REPP.from_file(path, modules=shared, active=d2)
                    if shared:
                        raise AssertionError("the caller's modules dict was changed: %r" % sorted(shared))
                    return a, b
            ctx.update(pair=pair_file)
            ctx.update(fresh=fresh_file, dir=d, path=path,
                       shared=[ln for ln in rd.main if ln.startswith("<") or (ln.startswith(">") and not ln[1:].isdigit())])
        return r


def write_program(rd, d, skip=(), main_dir=None):
    """the files of a rendered program in directory `d` (the main text possibly elsewhere)"""
    os.makedirs(d, exist_ok=True)
    for fn, lines in rd.files.items():
        with open(os.path.join(d, fn), "w", encoding="utf-8") as f:
            f.write("\n".join(lines) + "\n")
    for name, lines in rd.modules:
        if name not in skip:
            with open(os.path.join(d, name + ".rpp"), "w", encoding="utf-8") as f:
                f.write("\n".join(lines) + "\n")
    md = main_dir or d
    os.makedirs(md, exist_ok=True)
    with open(os.path.join(md, "main.rpp"), "w", encoding="utf-8") as f:
        f.write("\n".join(rd.main) + "\n")
    return os.path.join(md, "main.rpp")


CONFIG_LAYOUTS = ["same", "rpp", "uprpp", "declared", "argument"]


def api_variants(case, tmpdir, active, counts=None):
    """The same program through the other public construction paths: `from_file(path, directory=)` with the
    sub-files in another directory, `from_file(path, modules=)` with one external module preloaded (its file
    absent), `from_config` in every directory layout it resolves (`repp-calls` = the active modules, `apply`
    called WITHOUT `active`), string modules constructed under another name than their key.  Yields
    (label, per-input results | {"err": …})."""
    rd = Rendered(case)
    inputs = [uncps(i) for i in case["inputs"]]

    def results(r, act):
        out = []
        for s in inputs:
            try:
                x = with_timeout(2.0, lambda: r.apply(s) if act is None else r.apply(s, active=act), floor=0.5)
                out.append({"string": cps(x.string), "startmap": list(x.startmap), "endmap": list(x.endmap)})
            except Timeout:
                out.append({"err": "timeout"})
        return out

    def attempt(label, f):
        if counts is not None:
            counts[label.split(" ")[0]] = counts.get(label.split(" ")[0], 0) + 1
        try:
            with warnings.catch_warnings():
                warnings.simplefilter("ignore")
                return label, f()
        except Exception as e:     # noqa: BLE001 - mapped to an enum
            return label, {"err": err_name(e)}
    key = sum(len(x) for x in rd.main) + len(rd.files) * 7 + len(rd.modules) * 3 + len(inputs)
    # 1. directory=
    d = tempfile.mkdtemp(dir=tmpdir)
    path = write_program(rd, os.path.join(d, "sub"), main_dir=os.path.join(d, "top"))
    yield attempt("from_file(directory=) sub-files in another directory",
                  lambda: results(REPP.from_file(path, directory=os.path.join(d, "sub")), active))
    # 2. modules= : one external module preloaded, its file absent
    if rd.modules:
        called = [ln[1:].rstrip() for ln in rd.main if ln.startswith(">") and not ln[1:].rstrip().isdigit()]
        x = called[key % len(called)] if called else rd.modules[-1][0]
        d = tempfile.mkdtemp(dir=tmpdir)
        write_program(rd, os.path.join(d, "all"))
        path2 = write_program(rd, os.path.join(d, "part"), skip=(x,))

        def premod():
            pre = REPP.from_file(os.path.join(d, "all", x + ".rpp"))
            return results(REPP.from_file(path2, modules={x: pre}), active)
        yield attempt("from_file(modules=) one module preloaded", premod)
    # 3. from_config
    layout = CONFIG_LAYOUTS[key % len(CONFIG_LAYOUTS)]
    d = tempfile.mkdtemp(dir=tmpdir)
    names = ["main"] + [n for n, _ in rd.modules]
    conf = ";; generated\nrepp-modules := %s.\n; a comment\nrepp-tokenizer := main.\n" % " ".join(names)
    if active:
        conf += "repp-calls := %s.\n" % ("\n  ".join(active) if key % 2 else " ".join(active))
    kw = {}
    if layout == "same":
        rdir, cdir = d, d
    elif layout == "rpp":
        rdir, cdir = os.path.join(d, "rpp"), d
    elif layout == "uprpp":
        rdir, cdir = os.path.join(d, "rpp"), os.path.join(d, "pet")
    elif layout == "declared":
        rdir, cdir = os.path.join(d, "elsewhere"), os.path.join(d, "pet")
        conf += 'repp-directory := "%s".\n' % rdir
    else:
        rdir, cdir = os.path.join(d, "elsewhere"), os.path.join(d, "pet")
        kw = {"directory": __import__("pathlib").Path(rdir)}
    write_program(rd, rdir)
    os.makedirs(cdir, exist_ok=True)
    with open(os.path.join(cdir, "repp.set"), "w", encoding="utf-8") as f:
        f.write(conf)
    lab, got = attempt("from_config layout=" + layout,
                       lambda: results(REPP.from_config(os.path.join(cdir, "repp.set"), **kw), None))
    if layout == "declared" and got == {"err": "AttributeError"}:
        # observed, outside the property: a directory named in the file (or given as a str) stays a str and
        # `directory.joinpath` raises; the same program is then loaded with the directory given as a Path
        if counts is not None:
            counts["from_config:declared_directory_AttributeError"] = counts.get("from_config:declared_directory_AttributeError", 0) + 1
        lab, got = attempt("from_config layout=declared+argument",
                           lambda: results(REPP.from_config(os.path.join(cdir, "repp.set"),
                                                            directory=__import__("pathlib").Path(rdir)), None))
    yield lab, got
    # 4. string modules constructed without / under another name: the key of `modules` is what `>name` and `active` mean
    if rd.modules and not rd.files:
        def renamed():
            ms = {}
            for i, (name, lines) in enumerate(rd.modules):
                ms[name] = REPP.from_string("\n".join(lines), name=(None if (i + key) % 2 else "zz" + name), modules=ms)
            return results(REPP.from_string("\n".join(rd.main), modules=ms), active)
        yield attempt("from_string(modules=) modules built under another name", renamed)


def config_error_paths(tmpdir):
    """the error branches of REPP.from_config (file missing, repp-modules / repp-tokenizer missing, no directory
    found) and of _compile (a pattern `re` rejects): each must raise, none may build a module"""
    fails = []
    d = tempfile.mkdtemp(dir=tmpdir)
    with open(os.path.join(d, "main.rpp"), "w", encoding="utf-8") as f:
        f.write("!a\tb\n")

    def expect(label, text, where="repp.set", errs=(R.REPPError,)):
        path = os.path.join(d, where)
        if text is not None:
            os.makedirs(os.path.dirname(path), exist_ok=True)
            with open(path, "w", encoding="utf-8") as f:
                f.write(text)
        try:
            with warnings.catch_warnings():
                warnings.simplefilter("ignore")
                REPP.from_config(path)
        except errs:
            return
        except Exception as e:      # noqa: BLE001
            fails.append({"clause": "from_config: wrong exception on " + label, "detail": err_name(e)})
            return
        fails.append({"clause": "from_config: no error on " + label, "detail": repr(text)})
    expect("a missing configuration file", None, where="nosuch.set")
    expect("a file without repp-modules", "repp-tokenizer := main.\n")
    expect("a file without repp-tokenizer", "repp-modules := main.\n")
    expect("a tokenizer module found in no directory", "repp-modules := other.\nrepp-tokenizer := other.\n", where="x/repp.set")
    import logging
    for text, errs in (("!a(\tb", (re.error,)), ("!a](\tb", (re.error, AttributeError)), ("=a(", (re.error,))):
        try:
            logging.disable(logging.CRITICAL)
            try:
                with warnings.catch_warnings():
                    warnings.simplefilter("ignore")
                    REPP.from_string(text)
            finally:
                logging.disable(logging.NOTSET)
            fails.append({"clause": "a pattern that re rejects loads without an error", "detail": repr(text)})
        except errs:
            pass
        except Exception as e:      # noqa: BLE001
            fails.append({"clause": "a pattern that re rejects raises something else", "detail": repr((text, err_name(e)))})
    return fails


def pieces(pat, out):
    """maximal separator-free pieces [(a, b)] of `out`, via re.split with the separators kept"""
    parts = re.split("(" + pat + ")", out)
    res, p = [], 0
    for i, part in enumerate(parts):
        if i % 2 == 0 and part:
            res.append((p, p + len(part)))
        p += len(part)
    assert p == len(out)
    return res


def all_ext_names(nodes, acc=None):
    acc = set() if acc is None else acc
    for nd in nodes:
        if nd["k"] == "ext":
            acc.add(nd["name"])
        for key in ("ops", "lines"):
            if key in nd:
                all_ext_names(nd[key], acc)
    return acc


BATTERY_INPUTS = 2
BATTERY = {}
BATTERY_PATS = [None, r"[ \t]+", " ", ",", "x*"]


def purity_battery(case, r, ctx, obs, active):
    """REUSE / PURITY: the same REPP object is used again for apply / tokenize with several `active` sets and
    several tokenization patterns, interleaved and returning to the first; programs loaded from files are loaded
    again from the same paths (also after another program that shares their included / external files was
    loaded).  Every repeated call must give what the first call gave, what a freshly constructed object gives,
    and (tokens) what splitting the result string gives.  Returns the list of failures."""
    fails = []

    def fail(clause, detail):
        if len(fails) < 5:
            fails.append({"clause": clause, "detail": repr(detail)[:700]})
    pairs = [(uncps(i), run) for i, run in zip(case["inputs"], obs["runs"])][:BATTERY_INPUTS]
    if not pairs or any("err" in run for _, run in pairs):
        return fails
    inputs = [s for s, _ in pairs]
    base = {s: (uncps(run["string"]), run["startmap"], run["endmap"]) for s, run in pairs}

    def res(o, s, act):
        x = o.apply(s, active=act)
        return (x.string, list(x.startmap), list(x.endmap))

    def go():
        fresh = ctx["fresh"]
        # (1) the same paths loaded again
        if ctx.get("path"):
            want = obs["loaded"][-1]
            r2 = fresh()
            if dump_loaded(r2, []) != want:
                fail("purity: loading the same files a second time gives a different module", (want, dump_loaded(r2, [])))
            with open(os.path.join(ctx["dir"], "other.rpp"), "w", encoding="utf-8") as f:
                f.write("".join(x + "\n" for x in ctx["shared"]) + "!q\tq\n")
            try:
                REPP.from_file(os.path.join(ctx["dir"], "other.rpp"))
            except (R.REPPError, re.error):
                pass
            r3 = fresh()
            if dump_loaded(r3, []) != want:
                fail("purity: loading the same files again after another program that shares an included or external "
                     "file gives a different module", (want, dump_loaded(r3, [])))
            for s in inputs:
                if res(r3, s, active) != base[s] or res(r2, s, active) != base[s]:
                    fail("purity: a program loaded again from the same files behaves differently", (s, base[s]))
        # (2) one object, several active sets, interleaved and returning to the first
        names = sorted(all_ext_names(case["prog"]))
        sets = [list(active)]
        for cand in (names, []):
            if names and cand not in sets:
                # only active sets under which the reference run stays small (no fixpoint / growth otherwise)
                prog2 = map_nodes(case["prog"], lambda nd: [dict(nd, active=(nd["name"] in cand),
                                                                 ops=nd["ops"])] if nd["k"] == "ext" and
                                  nd["active"] != (nd["name"] in cand) else None)
                try:
                    for s in inputs:
                        ref_run(dict(case, prog=prog2), prog2, s, [])
                    sets.append(cand)
                except Diverges:
                    pass
        first = {}
        for act in sets + [sets[0]] + (sets[1:2] if len(sets) > 1 else []):
            for s in inputs:
                got = res(r, s, act)
                key = (s, tuple(act))
                if key not in first:
                    first[key] = got
                elif first[key] != got:
                    fail("purity: a repeated apply with the same arguments on the same REPP object differs from the first",
                         (s, act, first[key], got))
        for s in inputs:
            if first[(s, tuple(sets[0]))] != base[s]:
                fail("purity: apply on the reused REPP object differs from the trace made before", (s, base[s]))
        f0 = None
        for act in sets:
            f = fresh()
            f0 = f0 or f
            for s in inputs:
                if res(f, s, act) != first[(s, tuple(act))]:
                    fail("purity: the reused REPP object differs from a freshly constructed one", (s, act))
        # (2b) argument types inside the documented signature: `active: Iterable[str]` in every shape, for
        # apply / trace / tokenize and for the constructors; `modules` as any Mapping
        import collections
        import types as _types
        for act in [a for a in sets if a][:2]:
            shapes = [("list", lambda a=act: list(a)), ("tuple", lambda a=act: tuple(a)), ("set", lambda a=act: set(a)),
                      ("frozenset", lambda a=act: frozenset(a)), ("dict keys", lambda a=act: dict.fromkeys(a).keys()),
                      ("generator", lambda a=act: (x for x in a)), ("iter(list)", lambda a=act: iter(list(a))),
                      ("reversed list", lambda a=act: list(reversed(a))),
                      ("iter(reversed)", lambda a=act: iter(list(reversed(a))))]
            for label, mk in shapes:
                for s in inputs:
                    want = first[(s, tuple(act))]
                    if res(r, s, mk()) != want:
                        fail("argument types: apply(s, active=<%s>) differs from active given as a set" % label, (s, act))
                    tr = list(r.trace(s, active=mk(), verbose=True))[-1]
                    if (tr.string, list(tr.startmap), list(tr.endmap)) != want:
                        fail("argument types: trace(s, active=<%s>) differs from active given as a set" % label, (s, act))
                    if len(r.tokenize(s, active=mk()).tokens) != len(r.tokenize(s, active=set(act)).tokens):
                        fail("argument types: tokenize(s, active=<%s>) differs from active given as a set" % label, (s, act))
            for label, mk in shapes[1:7:2] + shapes[-1:]:
                f = fresh(active=mk())
                for s in inputs:
                    if res(f, s, None) != first[(s, tuple(act))]:
                        fail("argument types: constructor active=<%s> differs from passing the set to apply" % label, (s, act))
        for label, wrap in [("MappingProxyType", _types.MappingProxyType), ("OrderedDict", collections.OrderedDict),
                            ("ChainMap", lambda d: collections.ChainMap({}, d))]:
            try:
                f = fresh(wrap=wrap)
            except (R.REPPError, re.error):
                continue
            for s in inputs:
                if res(f, s, sets[0]) != first[(s, tuple(sets[0]))]:
                    fail("argument types: modules=<%s> differs from modules given as a dict" % label, (s,))
        # (2c) default activations D (constructor `active=`, activate/deactivate) x call-time `active`:
        # None -> exactly D; anything else -> exactly that set (it REPLACES the defaults, it is not merged)
        if names:
            xy = names[:2]
            subsets = [[]] + [[n] for n in xy] + ([list(xy)] if len(xy) == 2 else [])
            want = {}
            for sub in subsets:
                prog2 = map_nodes(case["prog"], lambda nd, sub=sub: [dict(nd, active=(nd["name"] in sub))]
                                  if nd["k"] == "ext" and nd["active"] != (nd["name"] in sub) else None)
                try:
                    for s in inputs:
                        ref_run(dict(case, prog=prog2), prog2, s, [])
                except Diverges:
                    continue
                fobj = fresh()
                for s in inputs:
                    want[(s, tuple(sub))] = res(fobj, s, list(sub))     # a fresh object, exactly that set
            for D in subsets:
                o = fresh(active=list(D))
                for A in [None] + subsets + [None]:
                    eff = tuple(D) if A is None else tuple(A)
                    for s in inputs:
                        if (s, eff) in want and res(o, s, None if A is None else list(A)) != want[(s, eff)]:
                            fail("default activations: apply(s, active=%r) on an object built with active=%r is not "
                                 "the run with exactly %r active" % (A, D, list(eff)), (s,))
                # activate / deactivate change the defaults only
                for n in xy:
                    o.activate(n)
                full = tuple(xy)
                for A in [None, [], [xy[0]]]:
                    eff = full if A is None else tuple(A)
                    for s in inputs:
                        if (s, eff) in want and res(o, s, None if A is None else list(A)) != want[(s, eff)]:
                            fail("default activations: after activate(), apply(s, active=%r) is not the run with exactly "
                                 "%r active" % (A, list(eff)), (s, D))
                o.deactivate(xy[0])
                rest = tuple(xy[1:])
                for A in [None, [xy[0]]]:
                    eff = rest if A is None else tuple(A)
                    for s in inputs:
                        if (s, eff) in want and res(o, s, None if A is None else list(A)) != want[(s, eff)]:
                            fail("default activations: after deactivate(), apply(s, active=%r) is not the run with "
                                 "exactly %r active" % (A, list(eff)), (s, D))
        if names and names in sets and [] in sets:
            for n in names:
                r.activate(n)
            for s in inputs:
                if res(r, s, None) != first[(s, tuple(names))]:
                    fail("purity: activate() differs from passing the active set", (s, names))
            for n in names:
                r.deactivate(n)
            for s in inputs:
                if res(r, s, None) != first[(s, ())]:
                    fail("purity: deactivate() differs from passing the empty active set", (s,))
        # (3) tokenization patterns, interleaved and returning to the first two
        default = r.tokenize_pattern if r.tokenize_pattern is not None else R.DEFAULT_TOKENIZER
        tfirst = {}

        def toks(o, s, p):
            lat = o.tokenize(s, pattern=p, active=active)
            return [(t.lnk.data[0], t.lnk.data[1], t.form) for t in lat.tokens], str(lat)
        for p in BATTERY_PATS + BATTERY_PATS[:2]:
            eff = default if p is None else p
            for s in inputs:
                got, ystr = toks(r, s, p)
                out, sm, em = base[s]
                want = [(a + sm[a + 1], b + em[b], out[a:b]) for a, b in pieces(eff, out)]
                if got != want:
                    fail("purity: tokens are not the pieces of the result string for the pattern given to THIS call",
                         (s, p, got, want))
                if (s, p) not in tfirst:
                    tfirst[(s, p)] = (got, ystr)
                elif tfirst[(s, p)] != (got, ystr):
                    fail("purity: a repeated tokenize with the same arguments differs from the first", (s, p))
                lat2 = r.tokenize_result(r.apply(s, active=active), pattern=eff)
                if [(t.lnk.data[0], t.lnk.data[1], t.form) for t in lat2.tokens] != got:
                    fail("purity: tokenize_result(apply(s), pattern) differs from tokenize(s, pattern)", (s, p))
        f = f0
        for p in reversed(BATTERY_PATS):
            for s in inputs:
                if toks(f, s, p) != tfirst[(s, p)]:
                    fail("purity: tokenize on the reused REPP object differs from a freshly constructed one", (s, p))
    def abandoned():
        """STATE LEFT BEHIND: a trace() generator abandoned while suspended at a step yielded from inside a group
        (never resumed / dropped / dropped and collected / an exception thrown into it at that step), or a call
        that raised (input of a wrong type), then ordinary calls on the SAME object: they must give what the first
        calls gave.  Specimen programs: every step index and every way; other programs: a few indices."""
        import gc
        every = case["kind"] == "specimen"
        kept = []
        for s in inputs:
            full = list(r.trace(s, active=active, verbose=True))
            want_steps = [(st.input, st.output, st.applied) for st in full[:-1]]
            n = len(want_steps)
            if every and n <= 30:
                ks = list(range(1, n + 1))
            elif every:
                ks = sorted({1, 2, 3, n // 3, n // 2, n - 1, n})
            else:
                ks = sorted({1, (n + 1) // 2, n} & set(range(1, n + 1)))
            ways = ("keep", "drop", "gc", "throw", "close")
            for k in ks:
                for way in (ways if every else (ways[k % len(ways)],)):
                    g = r.trace(s, active=active, verbose=True)
                    for _ in range(k):
                        next(g)
                    if way == "keep":
                        kept.append(g)
                    elif way == "throw":
                        try:
                            g.throw(RuntimeError("injected"))
                        except (RuntimeError, StopIteration):
                            pass
                    elif way == "close":
                        g.close()
                    del g
                    if way == "gc":
                        gc.collect(0)
                    for s2 in inputs:
                        got = res(r, s2, active)
                        if got != base[s2]:
                            fail("state across calls: apply after a trace generator was abandoned inside the program "
                                 "differs from the first call", (s, "step %d of %d" % (k, n), way, s2, got[0], base[s2][0]))
                            return
                    again = [(st.input, st.output, st.applied) for st in list(r.trace(s, active=active, verbose=True))[:-1]]
                    if again != want_steps:
                        fail("state across calls: trace after a trace generator was abandoned inside the program differs "
                             "from the first trace", (s, "step %d of %d" % (k, n), way))
                        return
            for badarg in (None, b"ab", 7):
                try:
                    r.apply(badarg, active=active)
                except Exception:      # noqa: BLE001 - any exception: the call failed half-way
                    pass
                try:
                    list(r.trace(badarg, active=active))
                except Exception:      # noqa: BLE001
                    pass
                for s2 in inputs:
                    got = res(r, s2, active)
                    if got != base[s2]:
                        fail("state across calls: apply after a call that raised differs from the first call",
                             (repr(badarg), s2, got[0], base[s2][0]))
                        return
        del kept[:]
    try:
        with warnings.catch_warnings():
            warnings.simplefilter("ignore")
            with_timeout(2.0, go)
    except Timeout:
        pass
    if has_kind(case["prog"], "iter") or has_kind(case["prog"], "ext"):
        try:
            with warnings.catch_warnings():
                warnings.simplefilter("ignore")
                with_timeout(4.0, abandoned, floor=1.0)
            BATTERY["abandon_batteries"] = BATTERY.get("abandon_batteries", 0) + 1
        except Timeout:
            BATTERY["abandon_timeouts"] = BATTERY.get("abandon_timeouts", 0) + 1
    return fails


# ---- the loaded module, unexpanded (calls by name, group and module tables) — the shape of the loader model

def dump_module(r, pre, mods):
    groups = {}

    def ops(os_):
        out = []
        for o in os_:
            if isinstance(o, R._REPPRule):
                out.append({"k": "rule", "pat": cps(o.pattern), "tpl": cps(o.replacement)})
            elif isinstance(o, R._REPPMask):
                out.append({"k": "mask", "pat": cps(o.pattern)})
            elif isinstance(o, R._REPPInternalGroup):
                out.append({"k": "call", "n": cps(o.name)})
                if o.name not in groups:
                    groups[o.name] = None
                    groups[o.name] = ops(o.operations)
            else:
                out.append({"k": "ext", "name": cps(o.name)})
                if o.name not in pre:
                    if id(o) not in _dumped:
                        _dumped[id(o)] = None
                        _dumped[id(o)] = dump_module(o, pre, mods)
                    d = _dumped[id(o)]
                    mods[o.name] = "AMBIGUOUS" if (o.name in mods and mods[o.name] != d) else d
        return out
    top = ops(r.operations)
    return {"ops": top, "groups": dict(sorted(groups.items())),
            "tok": None if r.tokenize_pattern is None else cps(r.tokenize_pattern),
            "info": None if r.info is None else cps(r.info)}


_dumped = {}


def dump_loaded(r, pre):
    _dumped.clear()
    mods = {}
    main = dump_module(r, set(pre), mods)
    return {"ok": {"main": main, "mods": dict(sorted(mods.items()))}}


def prune_loaded(ans, pre):
    """the model keeps every defined group and every module it loaded; the real objects only show what is
    reachable from the operations: prune the model's answer to that"""
    if not isinstance(ans, dict) or "ok" not in ans:
        return ans
    table = {uncps(n): m for n, m in ans["ok"]["mods"]}

    def pm(m):
        gt = {uncps(n): o for n, o in m["groups"]}
        seen = {}

        def walk(os_):
            for o in os_:
                if o["k"] == "call":
                    n = uncps(o["n"])
                    if n not in seen and n in gt:
                        seen[n] = gt[n]
                        walk(gt[n])
        walk(m["ops"])
        return {"ops": m["ops"], "groups": dict(sorted(seen.items())), "tok": m["tok"], "info": m["info"]}
    mods = {}

    def wm(m):
        p = pm(m)
        for o in p["ops"] + [x for g in p["groups"].values() for x in g]:
            if o["k"] == "ext":
                n = uncps(o["name"])
                if n not in pre and n not in mods and n in table:
                    mods[n] = pm(table[n])
                    wm(table[n])
    wm(ans["ok"]["main"])
    return {"ok": {"main": pm(ans["ok"]["main"]), "mods": dict(sorted(mods.items()))}}


EOL_STYLES = ["crlf", "nofinal", "mixed", "cr", "trailing", "lf"]
MIXED_EOLS = ["\n", "\r\n", "\x0c", "\x85", "\u2028", "\x1c", "\r", "\x0b", "\u2029", "\x1d", "\x1e"]
BREAK_LINES = ["!a\tb\x0cc", "!x\x85\ty", ";c\u2028!a\tb", "!a\tb\r", "#1\x0b!a\tb\x1e#\x1d>1"]


def join_text(lines, eol):
    """the TEXT of a file / of the string given to from_string, for a line-terminator style"""
    if eol == "crlf":
        return "".join(x + "\r\n" for x in lines)
    if eol == "cr":
        return "".join(x + "\r" for x in lines)
    if eol == "nofinal":
        return "\n".join(lines)
    if eol == "trailing":
        return "".join(x + "\n" for x in lines) + "\n\n  \n\n"
    if eol == "mixed":
        return "".join(x + MIXED_EOLS[(i + len(lines)) % len(MIXED_EOLS)] for i, x in enumerate(lines))
    return "".join(x + "\n" for x in lines)


def load_request(lines, files, has_dir, pre, fuel=3000, eol=None):
    if eol is not None:
        # the model gets the TEXTS and splits them itself (Text.lean `splitLines`, `loadText`)
        return {"text": cps(join_text(lines, eol)),
                "ftexts": [[cps(fn), cps(join_text(ls, eol))] for fn, ls in sorted(files.items())],
                "hasDir": bool(has_dir), "pre": [cps(x) for x in pre], "fuel": fuel}
    return {"lines": [cps(x) for x in lines], "files": [[cps(fn), [cps(x) for x in ls]] for fn, ls in sorted(files.items())],
            "hasDir": bool(has_dir), "pre": [cps(x) for x in pre], "fuel": fuel}


def jseg(x):
    return {"lit": cps(x[0])} if x[0] is not None else {"grp": x[1]}


def jmatch(m):
    return {"s": m.start(), "e": m.end(),
            "g": [None if m.span(g)[0] == -1 else list(m.span(g)) for g in range(1, m.re.groups + 1)]}


def dump_tree(op, seen=()):
    """canonical dump of the loaded operation tree"""
    if isinstance(op, R._REPPRule):
        return ["rule", op.pattern, op.replacement]
    if isinstance(op, R._REPPMask):
        return ["mask", op.pattern]
    if id(op) in seen:
        return ["recursive"]
    kids = [dump_tree(o, seen + (id(op),)) for o in op.operations]
    if isinstance(op, R._REPPInternalGroup):
        return ["iter", kids]
    return ["ext", op.name, kids]


def expected_tree(case, nodes):
    out = []
    for nd in nodes:
        k = nd["k"]
        if k == "rule":
            r = case["rules"][nd["id"]]
            out.append(["rule", r["pat"], r["tpl"]])
        elif k == "mask":
            out.append(["mask", case["masks"][nd["id"]]])
        elif k == "iter":
            out.append(["iter", expected_tree(case, nd["ops"])])
        elif k == "ext":
            out.append(["ext", nd["name"], expected_tree(case, nd["ops"])])
        else:
            out.extend(expected_tree(case, nd["lines"]))
    return out


def collect_rules(op, acc, seen):
    if id(op) in seen:
        return
    seen.add(id(op))
    if isinstance(op, R._REPPRule):
        acc.setdefault((op.pattern, op.replacement), op)
    elif isinstance(op, R._REPPGroup):
        for o in op.operations:
            collect_rules(o, acc, seen)


def err_name(e):
    if isinstance(e, re.error):
        return "re.error"
    if isinstance(e, R.REPPError):
        return "REPPError"
    if isinstance(e, Timeout):
        return "timeout"
    return type(e).__name__


def jstep(st, rule_id, mask_id):
    op = st.operation
    if isinstance(op, R._REPPRule):
        kind, oid = "rule", rule_id[(op.pattern, op.replacement)]
    elif isinstance(op, R._REPPMask):
        kind, oid = "mask", mask_id[op.pattern]
    else:
        kind, oid = "group", None
    return {"kind": kind, "id": oid, "inp": cps(st.input), "out": cps(st.output), "applied": bool(st.applied),
            "sm": list(st.startmap), "em": list(st.endmap)}


def observe(case, tmpdir, want_tokens=True, battery=True, session=False):
    """Everything both checks look at, from the real code.  Returns a dict:
    load / tree / runs[...] with steps, string, maps, applysame, shown, tokens, yy, reparsed, eng, seps"""
    loaded = []
    ctx = {}
    try:
        r = build(case, tmpdir, loaded, ctx)
    except (re.error, R.REPPError, IndexError, ValueError) as e:
        return {"err": err_name(e)}
    rule_id = {}
    for i, ru in enumerate(case["rules"]):
        rule_id.setdefault((ru["pat"], ru["tpl"]), i)
    mask_id = {}
    for i, p in enumerate(case["masks"]):
        mask_id.setdefault(p, i)
    objs = {}
    collect_rules(r, objs, set())
    load = []
    for ru in case["rules"]:
        o = objs.get((ru["pat"], ru["tpl"]))
        load.append(None if o is None else {"tracked": [jseg(x) for x in o._tracked],
                                            "untracked": [jseg(x) for x in o._untracked],
                                            "ngroups": o._re.groups,
                                            "names": sorted([cps(k), v] for k, v in o._re.groupindex.items())})
    active = sorted(active_names(case["prog"]))
    obs = {"load": load, "tree": [dump_tree(o) for o in r.operations], "runs": [], "eng": [], "meng": [],
           "tokpat": r.tokenize_pattern,
           "loaded": loaded, "ltexts": Rendered(case).load_texts()}
    engseen = set()
    for inp in case["inputs"]:
        s = uncps(inp)
        run = {}
        try:
            def go():
                with warnings.catch_warnings():
                    warnings.simplefilter("ignore")
                    return list(r.trace(s, active=active, verbose=True))
            tr = with_timeout(2.0 if case["kind"] == "masked" else 5.0, go, floor=(0.5 if case["kind"] == "masked" else 2.0))
        except Exception as e:      # noqa: BLE001 - mapped to an enum
            obs["runs"].append({"err": err_name(e)})
            continue
        res = tr[-1]
        steps = tr[:-1]
        run["steps"] = [jstep(st, rule_id, mask_id) for st in steps]
        if case["kind"] == "masked":
            for js, st in zip(run["steps"], steps):
                js["mask"] = list(st.mask)
        run["string"] = cps(res.string)
        run["startmap"] = list(res.startmap)
        run["endmap"] = list(res.endmap)
        ap = r.apply(s, active=active)
        run["applysame"] = (ap.string == res.string and list(ap.startmap) == run["startmap"]
                            and list(ap.endmap) == run["endmap"])
        shown = list(r.trace(s, active=active, verbose=False))
        run["shown"] = [jstep(st, rule_id, mask_id) for st in shown[:-1]]
        run["shownlast"] = (shown[-1].string == res.string)
        for st in steps:
            op = st.operation
            if isinstance(op, R._REPPRule):
                key = (rule_id[(op.pattern, op.replacement)], st.input)
                if key not in engseen:
                    engseen.add(key)
                    obs["eng"].append({"id": key[0], "s": cps(st.input), "ms": [jmatch(m) for m in op._re.finditer(st.input)]})
            elif isinstance(op, R._REPPMask):
                key = ("m", mask_id[op.pattern], st.input)
                if key not in engseen:
                    engseen.add(key)
                    obs["meng"].append({"id": key[1], "s": cps(st.input), "ms": [jmatch(m) for m in op._re.finditer(st.input)]})
        if case.get("tok") is not None and want_tokens:
            pat = case["tok"]
            with warnings.catch_warnings():
                warnings.simplefilter("ignore")
                lat = r.tokenize(s, active=active) if case.get("tokline") else r.tokenize(s, pattern=pat, active=active)
            run["tokens"] = [[t.lnk.data[0], t.lnk.data[1], cps(t.form)] for t in lat.tokens]
            run["tokshape"] = all(t.id == i and t.start == i and t.end == i + 1 and t.paths == [1] and t.surface is None
                                  and t.ipos == 0 and t.lrules == ["null"] and t.pos == [] for i, t in enumerate(lat.tokens))
            ys = str(lat)
            run["yy"] = cps(ys)
            from delphin.tokens import YYTokenLattice
            back = YYTokenLattice.from_string(ys)
            run["reparsed"] = [jytok(t) for t in back.tokens]
            run["yysame"] = (back == lat)
            run["seps"] = [[m.start(), m.end()] for m in re.finditer(pat, res.string)]
        obs["runs"].append(run)
    obs["purity"] = purity_battery(case, r, ctx, obs, active) if battery else []
    if session and not any("err" in run for run in obs["runs"]):
        script = session_script(case)
        if script is not None:
            try:
                with warnings.catch_warnings():
                    warnings.simplefilter("ignore")
                    answers = with_timeout(3.0, lambda: run_session(case, ctx, script, rule_id, mask_id, obs, engseen),
                                           floor=0.5)
                obs["session"] = dict(script, answers=answers)
            except (Timeout, Diverges):
                pass
            except AssertionError as e:
                obs["purity"].append({"clause": "two REPP objects built from the same modules dict are not independent",
                                      "detail": str(e)[:300]})
    return obs


def session_script(case):
    """ONE object, a history of calls: default activations from the constructor, activate / deactivate (also
    twice, also of a module that is not active), apply and trace with `active` left out, empty, in another
    order and with duplicates — the calls of `Verif.C13.Link.runCalls`"""
    names = sorted(all_ext_names(case["prog"]))
    if not names or not case["inputs"]:
        return None
    if case["kind"] != "specimen" and len(json.dumps(case["prog"])) % 2:
        return None          # every second generated program (time)
    x, y = names[0], names[-1]
    s0, s1 = case["inputs"][0], case["inputs"][-1]
    d0 = [x] if len(case["inputs"]) % 2 else []

    def ap(s, a):
        return {"c": "apply", "s": s, "active": None if a is None else [cps(n) for n in a]}

    def tr(s, a, v):
        return {"c": "trace", "s": s, "active": None if a is None else [cps(n) for n in a], "verbose": v}
    calls = [ap(s0, None), {"c": "activate", "n": cps(y)}, ap(s1, None), tr(s0, [x], True),
             {"c": "deactivate", "n": cps(x)}, tr(s1, [y, x, y], False), {"c": "activate", "n": cps(x)},
             {"c": "activate", "n": cps(x)}, {"c": "deactivate", "n": cps(y)}, {"c": "deactivate", "n": cps(y)},
             tr(s0, None, True), ap(s1, []), {"c": "deactivate", "n": cps("nosuch")}, ap(s1, None)]
    # a SECOND object built from the same text and the same modules dict, its calls interleaved ("obj": 1)
    second = [dict({"c": "activate", "n": cps(x)}, obj=1), dict(ap(s0, None), obj=1), dict({"c": "deactivate", "n": cps(y)}, obj=1),
              dict(tr(s1, None, False), obj=1)]
    calls = calls[:2] + second[:2] + calls[2:9] + second[2:] + calls[9:]
    return {"defaults": [cps(n) for n in d0], "defaults2": [cps(y)], "calls": calls}


def run_session(case, ctx, script, rule_id, mask_id, obs, engseen):
    """the script on ONE real object; the engine answers met under every resolved active set are added to
    obs["eng"] / obs["meng"] (read from a second object so that the observed one sees only the script)"""
    Ds = [set(uncps(n) for n in script["defaults"]), set(uncps(n) for n in script.get("defaults2", []))]
    objs = ctx["pair"](sorted(Ds[0]), sorted(Ds[1]))
    probe = ctx["fresh"]()
    answers = []
    for c in script["calls"]:
        o, D = objs[c.get("obj", 0)], Ds[c.get("obj", 0)]
        if c["c"] == "activate":
            o.activate(uncps(c["n"]))
            D.add(uncps(c["n"]))
            answers.append(None)
        elif c["c"] == "deactivate":
            o.deactivate(uncps(c["n"]))
            D.discard(uncps(c["n"]))
            answers.append(None)
        else:
            s = uncps(c["s"])
            act = None if c["active"] is None else [uncps(n) for n in c["active"]]
            resolved = sorted(D) if act is None else sorted(set(act))
            prog2 = map_nodes(case["prog"], lambda nd: [dict(nd, active=(nd["name"] in resolved))]
                              if nd["k"] == "ext" and nd["active"] != (nd["name"] in resolved) else None)
            ref_run(dict(case, prog=prog2), prog2, s, [])          # Diverges: no session for this program
            for st in list(probe.trace(s, active=resolved, verbose=True))[:-1]:
                op = st.operation
                if isinstance(op, R._REPPRule):
                    key = (rule_id[(op.pattern, op.replacement)], st.input)
                    if key not in engseen:
                        engseen.add(key)
                        obs["eng"].append({"id": key[0], "s": cps(st.input), "ms": [jmatch(m) for m in op._re.finditer(st.input)]})
                elif isinstance(op, R._REPPMask):
                    key = ("m", mask_id[op.pattern], st.input)
                    if key not in engseen:
                        engseen.add(key)
                        obs["meng"].append({"id": key[1], "s": cps(st.input), "ms": [jmatch(m) for m in op._re.finditer(st.input)]})
            if c["c"] == "apply":
                x = o.apply(s) if act is None else o.apply(s, active=iter(act))
                answers.append({"string": cps(x.string), "startmap": list(x.startmap), "endmap": list(x.endmap)})
            else:
                t = list(o.trace(s, verbose=c["verbose"]) if act is None else o.trace(s, active=tuple(act), verbose=c["verbose"]))
                answers.append({"steps": [jstep(st, rule_id, mask_id) for st in t[:-1]], "string": cps(t[-1].string),
                                "startmap": list(t[-1].startmap), "endmap": list(t[-1].endmap)})
    return answers


def jytok(t):
    return {"id": t.id, "start": t.start, "end": t.end, "lnk": (list(t.lnk.data) if t.lnk.type == t.lnk.CHARSPAN else None),
            "paths": list(t.paths), "form": cps(t.form), "surface": None if t.surface is None else cps(t.surface),
            "ipos": t.ipos}


# ----------------------------------------------------------------------------------------------
# reference semantics (independent of delphin): ordered re.sub, iterate until unchanged

def ref_run(case, nodes, s, log):
    for nd in nodes:
        k = nd["k"]
        if k == "rule":
            ru = case["rules"][nd["id"]]
            o = re.sub(ru["pat"], ru["tpl"], s)
            log.append(["rule", nd["id"], s, o])
            s = o
            if len(s) > case.get("len_cap", LEN_CAP):
                raise Diverges()        # growth beyond the size the (interpreted) model is run on
        elif k == "mask":
            log.append(["mask", nd["id"], s, s])
        elif k == "iter":
            rounds = 0
            while True:
                o = ref_run(case, nd["ops"], s, log)
                rounds += 1
                if o == s:
                    break
                s = o
                if rounds > case.get("round_cap", ROUND_CAP) or len(s) > case.get("len_cap", LEN_CAP):
                    raise Diverges()
        elif k == "ext":
            if nd["active"]:
                s = ref_run(case, nd["ops"], s, log)
        elif k == "incl":
            s = ref_run(case, nd["lines"], s, log)
    return s


def terminates(case):
    try:
        for inp in case["inputs"]:
            ref_run(case, case["prog"], uncps(inp), [])
        return True
    except Diverges:
        return False
    except re.error:
        return True


def check_matches(s, ms, ngroups, pat=None):
    """the parameter assumptions on the engine's answers (Engine.lean `findIterOk`), and — with the pattern —
    the documented semantics of finditer/sub restated with `match` at single positions: no position between
    two listed matches (from the end of the previous one on) admits a match, i.e. the list is the leftmost
    non-overlapping one INCLUDING an empty match that starts where a non-empty one ended
    (re.sub('a*', '-', 'baac') == '-b--c-')"""
    pos, prev_empty = 0, False
    for m in ms:
        if not (pos <= m["s"] <= m["e"] <= len(s)):
            return "match list not ordered / not inside the string"
        if prev_empty and m["s"] == pos and m["e"] == pos:
            return "two empty matches at one position"
        if len(m["g"]) != ngroups:
            return "group count differs"
        for g in m["g"]:
            if g is not None and not (m["s"] <= g[0] <= g[1] <= m["e"]):
                return "group span outside its match"
        pos, prev_empty = m["e"], m["s"] == m["e"]
    if pat is not None:
        rx = re.compile(pat)
        pos, prev_empty = 0, False
        for m in ms + [{"s": len(s) + 1, "e": len(s) + 1}]:
            for p in range(pos, min(m["s"], len(s) + 1)):
                x = rx.match(s, p)
                if x is None:
                    continue
                if p == pos and prev_empty and x.end() == p:
                    continue        # an empty match here again is not allowed (a non-empty alternative is not examined)
                return "the pattern matches at %d but the list has no match starting there" % p
            pos, prev_empty = m["e"], m["s"] == m["e"]
    return None


def adjacent_empty(ms):
    """empty matches that start where the previous non-empty match ended (Engine.lean `adjacentEmpty`)"""
    n, prev = 0, 0
    for m in ms:
        if m["s"] == m["e"] and m["s"] == prev and prev > 0:
            n += 1
        prev = m["e"]
    return n


# ----------------------------------------------------------------------------------------------
# loader streams: raw line soups (every declaration kind, malformed lines, unbalanced groups, missing files)
# and normalised trees for the renderer round trip

LINE_POOL = ["#01", ">01", "#10", ">10", "#01", ">1", "!a\tb", "!a\t\tb c", "!(a)\t\\1\tx", "!a", "!\tb", "!a b\t", "=a ", "=", "#1", "#2", "#3", "#", "#", "#", "# ",
             "#x", "#1 ", ">1", ">2", ">3", ">4", ">", " >1", ">m0", ">m1", ">m9", ">m0 ", "<inc0.rpp", "<inc1.rpp", "<nofile",
             "<inc0.rpp  ", ":[ ]+", ": ", ":x", "@info", "@", ";c", "", "  ", " !a\tb", "?x", "!a\tb", "!b\t\\1x", "\t", ";"]


def gen_load_case(rng):
    def soup(n, allow):
        pool = [x for x in LINE_POOL if allow(x)]
        return [rng.choice(pool) for _ in range(rng.randrange(0, n))]
    r = rng.random()
    if r < 0.35:
        # a rendered program, damaged a little
        g = ProgGen(rng)
        prog = g.nodes(rng.choice([1, 2, 2]))
        c = make_case(prog, g.rules, [], [], via="file")
        rd = Rendered(c)
        files = dict(rd.files)
        for name, ls in rd.modules:
            files[name + ".rpp"] = ls
        main = list(rd.main)
        target = rng.choice([main] + list(files.values()))
        for _ in range(rng.randrange(0, 3)):
            op = rng.random()
            i = rng.randrange(len(target) + 1)
            if op < 0.3 and target:
                del target[min(i, len(target) - 1)]
            elif op < 0.6:
                target.insert(i, rng.choice(LINE_POOL))
            elif op < 0.8 and len(target) >= 2:
                a, b = rng.randrange(len(target)), rng.randrange(len(target))
                target[a], target[b] = target[b], target[a]
            elif target:
                target.insert(i, target[min(i, len(target) - 1)])
        mode, pre = "file", []
    else:
        files = {"inc0.rpp": soup(5, lambda x: not x.startswith("<") and not x.startswith(">m")),
                 "inc1.rpp": soup(5, lambda x: "inc1" not in x and not x.startswith(">m")),
                 "m1.rpp": soup(5, lambda x: not x.startswith(">m") and "inc1" not in x),
                 "m0.rpp": soup(6, lambda x: ">m0" not in x)}
        main = soup(9, lambda x: True)
        mode = rng.choice(["file", "file", "string", "stringpre"])
        pre = ["m1"] if mode == "stringpre" else []
        if mode != "file":
            files = {}
    if load_cyclic(main, files):
        return gen_load_case(rng)       # include / module cycles never terminate in the real loader
    c = {"kind": "load", "lines": [cps(x) for x in main], "files": {fn: [cps(x) for x in ls] for fn, ls in files.items()},
         "mode": mode, "pre": pre}
    if rng.random() < 0.5:
        # TEXT variants: line terminators (CRLF, bare CR, FF, NEL, LS ...), no final newline, trailing blank lines;
        # sometimes a boundary character inside a line
        c["eol"] = rng.choice(EOL_STYLES)
        if rng.random() < 0.2:
            tgt = rng.choice([main] + list(files.values()))
            tgt.insert(rng.randrange(len(tgt) + 1), rng.choice(BREAK_LINES))
            c["lines"] = [cps(x) for x in main]
            c["files"] = {fn: [cps(x) for x in ls] for fn, ls in files.items()}
    return c


def load_cyclic(main, files):
    def refs(ls):
        out = set()
        for ln in ls:
            if ln.startswith("<") and ln[1:].rstrip() in files:
                out.add(ln[1:].rstrip())
            if ln.startswith(">") and (ln[1:].rstrip() + ".rpp") in files:
                out.add(ln[1:].rstrip() + ".rpp")
        return out
    graph = {fn: refs(ls) for fn, ls in files.items()}
    state = {}

    def visit(n):
        if state.get(n) == 1:
            return True
        if state.get(n) == 2:
            return False
        state[n] = 1
        if any(visit(m) for m in graph.get(n, ())):
            return True
        state[n] = 2
        return False
    return any(visit(n) for n in list(graph))


def gen_render_case(rng):
    pre = rng.choice([[], ["m0"], ["m0", "mod"]])
    names = ["1", "2", "3", "10", "01"]
    rng.shuffle(names)
    defined = []
    bad = rng.random() < 0.25          # sometimes outside the well-formed trees

    def nodes(depth, n):
        out = []
        for _ in range(n):
            r = rng.random()
            if r < 0.45 or depth <= 0:
                ru = gen_rule(rng)
                tpl = ru["tpl"]
                if bad and rng.random() < 0.2:
                    tpl = rng.choice(["\t" + tpl, tpl + "\t", " " + tpl])
                out.append({"k": "rule", "pat": ru["pat"], "tpl": tpl})
            elif r < 0.55:
                out.append({"k": "mask", "pat": rng.choice(["a", "a ", " ", "[ab]+", "x\t"])})
            elif r < 0.75 and names:
                nm = names.pop()
                defined.append(nm)
                out.append({"k": "defcall", "n": nm, "body": nodes(depth - 1, rng.choice([0, 1, 2, 3])),
                            "after": rng.random() < 0.4})
                if bad and rng.random() < 0.15:
                    names.append(nm)            # defined twice
            elif r < 0.9:
                pool = ["1", "2", "3", "10", "01"] if (bad or rng.random() < 0.5) else list(defined)
                if pool:
                    out.append({"k": "call", "n": rng.choice(pool)})
            elif pre or bad:
                out.append({"k": "ext", "name": rng.choice(pre + (["m0 ", "zz"] if bad else []))})
        return out
    tree = nodes(rng.choice([1, 2, 3]), rng.choice([1, 2, 3, 4]))
    info = rng.choice([None, None, "info", "x y", "" if bad else "v1"])
    tok = rng.choice([None, None, "[ \\t]+", "x*", " " if bad else ","])
    return {"kind": "render", "nodes": tree, "info": info, "tok": tok, "pre": pre}


def py_rstrip_ok(s):
    return s == s.rstrip()


def render_expected(case):
    """what loading the rendered tree must give (ops, reachable group table) — or None when the tree is not
    one of the well-formed trees of `load_roundtrip`"""
    defs, calls = [], []
    ok = [True]

    def ops_of(nodes):
        out = []
        for nd in nodes:
            k = nd["k"]
            if k == "rule":
                if not nd["pat"] or "\t" in nd["pat"] or nd["tpl"].startswith("\t") or "\n" in nd["tpl"]:
                    ok[0] = False
                out.append({"k": "rule", "pat": cps(nd["pat"]), "tpl": cps(nd["tpl"])})
            elif k == "mask":
                out.append({"k": "mask", "pat": cps(nd["pat"])})
            elif k == "call":
                calls.append(nd["n"])
                out.append({"k": "call", "n": cps(nd["n"])})
            elif k == "ext":
                nm = nd["name"]
                if not nm or nm.isdigit() or not py_rstrip_ok(nm) or nm not in case["pre"]:
                    ok[0] = False
                out.append({"k": "ext", "name": cps(nm)})
            else:
                if not nd["n"].isdigit():
                    ok[0] = False
                calls.append(nd["n"])
                body = ops_of(nd["body"])
                defs.append((nd["n"], body))
                out.append({"k": "call", "n": cps(nd["n"])})
        return out
    top = ops_of(case["nodes"])
    names = [n for n, _ in defs]
    if len(set(names)) != len(names) or any(c not in names for c in calls):
        ok[0] = False
    for s in (case["info"], case["tok"]):
        if s is not None and not py_rstrip_ok(s):
            ok[0] = False
    if not ok[0]:
        return None
    m = {"ops": top, "groups": [[cps(n), b] for n, b in defs], "tok": None if case["tok"] is None else cps(case["tok"]),
         "info": None if case["info"] is None else cps(case["info"])}
    return prune_loaded({"ok": {"main": m, "mods": []}}, case["pre"])


INIT = lambda n: ([1] + [0] * (n + 1), [0] * (n + 1) + [-1])     # noqa: E731


def strip_obs(obs):
    """what a variant of the same program must reproduce"""
    if "err" in obs:
        return obs
    out = []
    for run in obs["runs"]:
        if "err" in run:
            out.append(run)
        else:
            out.append({k: run.get(k) for k in ("string", "startmap", "endmap", "tokens")})
    return out


# ---- pins (source constants the models mirror), shared by C13 and C14

def _is_message(c):
    import re as _re
    return bool("%" in c or _re.search(r"[A-Za-z]{2,} [A-Za-z(]{2,}", c) or c.endswith((": ", ": #", ": !")))


def pin_consts(fn):
    """string/number/bool constants of a function's code object (nested code objects included, in order);
    None, docstrings, log formats and exception message texts are dropped; tuples are written as '(a,b)'"""
    import types
    fn = getattr(fn, "__func__", fn)
    marks = []
    while not hasattr(fn, "__code__") and hasattr(fn, "__wrapped__"):
        marks.append("@" + type(fn).__name__)        # a decorator was put around the function: shows in the pin
        fn = fn.__wrapped__
    doc = fn.__doc__
    if marks:
        code0 = fn.__code__
        fn = type("F", (), {"__code__": code0, "__doc__": doc})
        return marks + pin_consts_code(code0, doc)
    return pin_consts_code(fn.__code__, doc)


def pin_consts_code(code0, doc):
    import types

    def walk(code):
        out = []
        for c in code.co_consts:
            if c is None:
                continue
            if isinstance(c, types.CodeType):
                out.extend(walk(c))
            elif isinstance(c, str):
                if c == doc or _is_message(c):
                    continue
                out.append(c)
            elif isinstance(c, tuple):
                out.append("(" + ",".join(str(x) for x in c) + ")")
            else:
                out.append(str(c))
        return out
    return walk(code0)


def pin_defaults(fn):
    fn = getattr(fn, "__func__", fn)
    return [repr(x) for x in (fn.__defaults__ or ())] + ["%s=%r" % kv for kv in sorted((fn.__kwdefaults__ or {}).items())]


def lean_list(name, xs):
    from .common import tables as T
    return "def %s : List String := [%s]" % (name, ", ".join(T.lean_strlit(x) for x in xs))


def c13_tables():
    from .common import tables as T
    lit = T.lean_strlit
    out = [
        "def c13ReplacementsRe : String := %s" % lit(R._replacements_re.pattern),
        "def c13ReplacementsReFlags : Nat := %d" % int(R._replacements_re.flags),
        "def c13AsciiEscapes : List (String × Nat) := [%s]" % ", ".join("(%s, %d)" % (lit(k), ord(v))
                                                                        for k, v in R._ascii_escapes.items()),
        "def c13MaskConsts : List Nat := [%d, %d, %d]" % (R._MASK_O, R._MASK_B, R._MASK_I),
    ]
    for name, fn in [("c13ParseTemplateConsts", R._parse_template), ("c13GetSegmentsConsts", R._get_segments),
                     ("c13ZeromapConsts", R._zeromap), ("c13InsertPartConsts", R._insert_part),
                     ("c13ProcessMatchConsts", R._process_match),
                     ("c13RuleApplyConsts", R._REPPRule._apply), ("c13MaskApplyConsts", R._REPPMask._apply),
                     ("c13GroupApplyConsts", R._REPPGroup._apply), ("c13IterApplyConsts", R._REPPInternalGroup._apply),
                     ("c13TraceConsts", R.REPP._trace),
                     ("c13CheckMaskConsts", R._check_mask), ("c13MakeMaskInfoConsts", R._make_mask_info),
                     ("c13GetMaskLenConsts", R._get_mask_len),
                     ("c13ParseModuleConsts", R._parse_repp_module), ("c13RewriteRuleConsts", R._parse_rewrite_rule),
                     ("c13GroupCallConsts", R._handle_group_call), ("c13InternalGroupConsts", R._handle_internal_group),
                     
                     ("c13ReppLinesConsts", R._repp_lines)]:
        out.append(lean_list(name, pin_consts(fn)))
    for name, fn in [("c13ApplyDefaults", R.REPP.apply), ("c13TraceDefaults", R.REPP.trace),
                     ("c13FromStringDefaults", R.REPP.from_string), ("c13FromFileDefaults", R.REPP.from_file),
                     ("c13InitDefaults", R.REPP.__init__)]:
        out.append(lean_list(name, pin_defaults(fn)))
    return out


def c14_tables():
    from .common import tables as T
    from delphin import tokens as TK, lnk as LK
    lit = T.lean_strlit
    out = [
        "def c14DefaultTokenizer : String := %s" % lit(R.DEFAULT_TOKENIZER),
        "def c14YyRe : String := %s" % lit(TK._yy_re.pattern),
        "def c14YyReFlags : Nat := %d" % int(TK._yy_re.flags),
        "def c14UnescapeDotall : Bool := %s" % ("true" if TK._unescape("\\\n") == "\n" else "false"),
    ]
    for name, fn in [("c14MergemapConsts", R._mergemap), ("c14ZeromapConsts", R._zeromap), ("c14TraceConsts", R.REPP._trace),
                     ("c14InsertPartConsts", R._insert_part),
                     ("c14ProcessMatchConsts", R._process_match), ("c14RuleApplyConsts", R._REPPRule._apply),
                     ("c14TokenizeConsts", R._tokenize), ("c14TokenizeResultConsts", R.REPP.tokenize_result),
                     ("c14TokenizeMethodConsts", R.REPP.tokenize),
                     ("c14EscapeConsts", TK._escape), ("c14UnescapeConsts", TK._unescape),
                     ("c14YYStrConsts", TK.YYToken.__str__), ("c14FromStringConsts", TK.YYTokenLattice.from_string),
                     ("c14LatticeStrConsts", TK.YYTokenLattice.__str__), ("c14LnkStrConsts", LK.Lnk.__str__),
                     ("c14LnkBoolConsts", LK.Lnk.__bool__)]:
        out.append(lean_list(name, pin_consts(fn)))
    for name, fn in [("c14TokenizeDefaults", R.REPP.tokenize), ("c14TokenizeResultDefaults", R.REPP.tokenize_result),
                     ("c14YYTokenNewDefaults", TK.YYToken.__new__)]:
        out.append(lean_list(name, pin_defaults(fn)))
    return out


class C13(Check):
    pid = "C13"
    driver = "Verif/C13/Driver.lean"
    quick_cases = 1100
    thorough_cases = 20000
    rule = ("REPP programs from a regex grammar (literals, classes, ? * + {m,n}, anchors, alternation, lookahead, 0-4 "
            "capture groups incl. optional, nested, empty and named) with templates mixing literals, \\N, \\g<N>, "
            "\\g<name>, \\g<0>, octal and ASCII escapes in any order; rule sequences, nested and repeated iterative "
            "groups, external modules active/inactive (string- and file-loaded), includes, mask-only modules and "
            "trailing masks; programs with masks before and between rules (blocked matches); loader texts: random "
            "line lists over every declaration kind incl. malformed ones, damaged rendered programs, include and "
            "module files, preloaded modules; normalised operation trees (well-formed and not) for the renderer "
            "round trip; 36 specimen rules on all strings over {a,b,x,' '} up to length 3 (quick) / 5 (thorough) "
            "and random strings up to length 10. One case = one program with several inputs; non-trivial if some "
            "rule applied; distinct by JSON text.")
    assumptions = [
        "the regex engine is a parameter of the model: every match list comes from the rule's own compiled pattern "
        "(rule._re.finditer); assumed and checked on every list: ordered, non-overlapping, inside the string, group "
        "spans inside the match",
        "the sandbox's 'regex' module does not import, so delphin.repp runs on stdlib 're' (REPPWarning silenced)",
        "iterative groups that do not reach a fixpoint never terminate in the real code: generated programs are kept "
        "only if the reference interpreter reaches the fixpoint within %d rounds (the rest are counted as "
        "'diverging_skipped', together with programs whose intermediate strings grow beyond %d characters); the "
        "implementation runs under a 5 s alarm" % (ROUND_CAP, LEN_CAP),
        "masks: the property's clauses are about modules without masks (mask rules alone / after the last rewrite "
        "rule run on the mask-free model); programs with masks before rewrite rules ('masked' stream) run on the "
        "mask-threading model of Mask.lean (blocking tests, _check_mask, new mask arrays) and are compared step by "
        "step incl. the mask arrays; an iterative group that never reaches a fixpoint under a mask times out in the "
        "real code and is not compared",
        "loader model (Loader.lean): compiling the expressions is a parameter (cases where re rejects a pattern or "
        "template are not compared), blanks and digits are ASCII, module/include cycles are excluded (the real "
        "loader does not terminate on them)",
        "module loading is modelled line by line (Loader.lean) and compared with the real loader on every program's "
        "rendered text (files, preloaded modules) and on raw / damaged line lists; the link from the loaded module "
        "to the executable operation tree of the semantics model (template parsing, call expansion) is made by the "
        "harness and checked by the oracle (loaded tree == program tree)",
        "one object under a history of activate / deactivate / apply / trace calls is modelled (Link.runCalls) and compared "
        "with ONE real REPP object per program with external modules; the rest of reuse / purity (other tokenization "
        "patterns, same files loaded again, argument types, abandoned trace generators, calls that raised, lattices "
        "written and read again) is decided by the direct oracle only",
        "text to lines (str.splitlines) is modelled (Text.lean) and compared on raw texts with CRLF / bare CR / FF / NEL / "
        "LS ... terminators, no final newline, trailing blank lines; the other construction paths (from_file directory= "
        "and modules=, from_config, module names) and long inputs (1024 / 4096 / 65536 characters, hundreds of rounds) "
        "are checked by the direct oracle only",
        "template validation by re (bad escapes) is not modelled; only 'group reference beyond the pattern's groups' "
        "is (re.error at load)",
    ]
    trusted_base = ["hand-written model lean/Verif/C13/Model.lean (+ C14/Model.lean for the maps), tied to "
                    "delphin.repp by the correspondence run", "CPython re (finditer, sub) as the reference engine"]

    def __init__(self):
        self.tmp = None
        self._cache = {}
        self._req = {}
        self.skipped = {}
        self.api_counts = {}
        self.diverging = 0

    def setup(self):
        self.tmp = tempfile.mkdtemp(dir="/var/tmp", prefix="c13-")

    def teardown(self):
        if self.tmp:
            shutil.rmtree(self.tmp, ignore_errors=True)
            self.tmp = None

    def note_skip(self, why):
        self.skipped[why] = self.skipped.get(why, 0) + 1

    def extra_evidence(self):
        return {"diverging_skipped": self.diverging, "regex_module": "stdlib re", "not_compared": dict(self.skipped),
                "alarms": TIMEOUTS["n"], "alarm_seconds": round(TIMEOUTS["spent"], 1),
                "construction_paths": dict(self.api_counts), "state_batteries": dict(BATTERY)}

    def tables(self):
        """Pins: constants of the anchored code that the hand-written models mirror (see c13_pins in Props.lean)"""
        return c13_tables()

    # ---- cases
    modes = None
    want_tok = False
    loader_stream = True

    def cases(self, rng, tier, n):
        L = 3 if tier == "quick" else 5
        yield from specimen_cases(L, tier)
        # a load error
        yield make_case([{"k": "rule", "id": 0}], [{"pat": "(a)(b)", "tpl": r"\1\3"}], [], ["ab"], kind="loaderr")
        if self.loader_stream:
            yield from long_cases(tier)
            for _ in range(40 if tier == "quick" else 400):
                yield gen_registry_case(rng)
        if self.loader_stream:
            k = 0
            while k < n // 4:
                c = gen_masked_case(rng)
                if terminates(c):
                    k += 1
                    yield c
            for _ in range(n // 3):
                yield gen_load_case(rng)
            for _ in range(n // 4):
                yield gen_render_case(rng)
        k = 0
        while k < n:
            c = gen_case(rng, mode=(rng.choice(self.modes) if self.modes else None), tok=self.want_tok)
            if not terminates(c):
                self.diverging += 1
                continue
            k += 1
            yield c

    def search_cases(self, rng, tier, n, seeds):
        if self.loader_stream and any(c["kind"] in ("load", "render") for c in seeds):
            for _ in range(n // 2):
                yield gen_load_case(rng)
                yield gen_render_case(rng)
            return
        for _ in range(n):
            c = gen_case(rng)
            if terminates(c):
                yield c

    # ---- implementation
    def full(self, case):
        key = json.dumps(case, sort_keys=True)
        if key not in self._cache:
            if len(self._cache) > 4:
                self._cache.clear()
            own = self.tmp is None
            if own:
                self.setup()
            try:
                self._cache[key] = observe(case, self.tmp, session=(self.pid == "C13"))
            finally:
                if own:
                    self.teardown()
        return self._cache[key]

    KEYS = ("steps", "string")

    def impl(self, case):
        if case["kind"] == "load":
            return self.impl_load(case)
        if case["kind"] == "render":
            return self.impl_render(case)
        if case["kind"] == "long":
            return self.impl_long(case)
        if case["kind"] == "registry":
            return run_registry(case)
        obs = self.full(case)
        self.model_request(case)          # built now, while the observation is at hand
        if "err" in obs:
            return {"err": obs["err"]}
        runs = []
        for run in obs["runs"]:
            runs.append(run if "err" in run else {k: run[k] for k in self.KEYS if k in run})
        out = {"load": [None if x is None else {"tracked": x["tracked"], "untracked": x["untracked"]} for x in obs["load"]],
               "runs": runs, "loaded": obs["loaded"]}
        if "session" in obs:
            out["session"] = obs["session"]["answers"]
        return out

    # ---- loader cases: raw line soups, and rendered trees
    def real_load(self, lines, files, mode, pre, eol=None):
        """the real loader on the given text; `pre`: names of preloaded one-rule modules"""
        own = self.tmp is None
        if own:
            self.setup()
        try:
            with warnings.catch_warnings():
                warnings.simplefilter("ignore")
                try:
                    return with_timeout(3.0, lambda: self._real_load(lines, files, mode, pre, eol), floor=1.0)
                except Timeout:
                    return {"err": "fuel"}
        finally:
            if own:
                self.teardown()

    def _real_load(self, lines, files, mode, pre, eol=None):
        if True:
            if True:
                try:
                    if mode == "file":
                        d = tempfile.mkdtemp(dir=self.tmp)
                        for fn, ls in files.items():
                            with open(os.path.join(d, fn), "w", encoding="utf-8", newline="") as f:
                                f.write(join_text(ls, eol))
                        with open(os.path.join(d, "main.rpp"), "w", encoding="utf-8", newline="") as f:
                            f.write(join_text(lines, eol))
                        r = REPP.from_file(os.path.join(d, "main.rpp"))
                    else:
                        mods = {n: REPP.from_string("!q\tr") for n in pre}
                        r = REPP.from_string("\n".join(lines) if eol is None else join_text(lines, eol), modules=mods)
                    return dump_loaded(r, pre)
                except R.REPPError:
                    return {"err": "REPPError"}
                except IndexError:
                    return {"err": "IndexError"}
                except AttributeError:
                    return {"err": "AttributeError"}
                except re.error:
                    return {"err": "re.error"}
                except RecursionError:
                    return {"err": "fuel"}

    def impl_long(self, case):
        """long inputs: result of apply (digest), maps' lengths, trace's last element"""
        import hashlib
        own = self.tmp is None
        if own:
            self.setup()
        try:
            r = build(case, self.tmp)
            runs = []
            for inp in case["inputs"]:
                s = uncps(inp)
                try:
                    x = with_timeout(20.0, lambda: r.apply(s), floor=5.0)
                except Exception as e:      # noqa: BLE001
                    runs.append({"err": err_name(e)})
                    continue
                *_, last = r.trace(s)
                runs.append({"len": len(x.string), "sha": hashlib.sha1(x.string.encode("utf-8")).hexdigest(),
                             "maps": [len(x.startmap), len(x.endmap)], "tracelast": last.string == x.string})
            return {"runs": runs}
        finally:
            if own:
                self.teardown()

    def oracle_long(self, case, res):
        import hashlib
        fails = []
        for inp, run in zip(case["inputs"], res["runs"]):
            s = uncps(inp)
            want = ref_run(case, case["prog"], s, [])
            if "err" in run:
                fails.append({"clause": "apply raises or does not terminate on a long input although the reference reaches a result",
                              "detail": repr((len(s), run["err"], len(want)))})
                continue
            if run["sha"] != hashlib.sha1(want.encode("utf-8")).hexdigest():
                fails.append({"clause": "apply(s).string differs from the ordered regex substitutions (long input / many rounds)",
                              "detail": repr((case["rules"], "len(s)=%d" % len(s), s[:12], "got len %d" % run["len"],
                                              "want len %d" % len(want)))})
            if run["maps"] != [len(want) + 2, len(want) + 2] or not run["tracelast"]:
                fails.append({"clause": "long input: maps' lengths / last element of trace", "detail": repr((len(s), run))})
        return fails

    def impl_load(self, case):
        return {"loaded": self.real_load([uncps(x) for x in case["lines"]],
                                         {fn: [uncps(x) for x in ls] for fn, ls in case["files"].items()},
                                         case["mode"], case["pre"], case.get("eol"))}

    def impl_render(self, case):
        lines = ([] if case["info"] is None else ["@" + case["info"]]) + ([] if case["tok"] is None else [":" + case["tok"]]) \
            + render_nodes(case["nodes"])
        return {"lines": [cps(x) for x in lines], "loaded": self.real_load(lines, {}, "string", case["pre"])}

    def model_request(self, case):
        key = json.dumps(case, sort_keys=True)
        if key in self._req:
            return self._req[key]
        req = self.build_request(case)
        if len(self._req) < 200000:
            self._req[key] = req
        return req

    def build_request(self, case):
        if case["kind"] == "long":
            return None
        if case["kind"] == "registry":
            return {"op": "registry", "d1": case["d1"], "d2": case["d2"], "probes": case["probes"]}
        if case["kind"] == "load":
            req = load_request([uncps(x) for x in case["lines"]], {fn: [uncps(x) for x in ls] for fn, ls in case["files"].items()},
                               case["mode"] == "file", case["pre"], eol=case.get("eol"))
            req["op"] = "load"
            return req
        if case["kind"] == "render":
            def conv(nodes):
                out = []
                for nd in nodes:
                    nd = {k: (cps(v) if isinstance(v, str) and k != "k" else v) for k, v in nd.items()}
                    if "body" in nd:
                        nd["body"] = conv(nd["body"])
                    out.append(nd)
                return out
            return {"op": "render", "nodes": conv(case["nodes"]), "info": None if case["info"] is None else cps(case["info"]),
                    "tok": None if case["tok"] is None else cps(case["tok"]), "files": [], "hasDir": False,
                    "pre": [cps(x) for x in case["pre"]], "fuel": 3000}
        obs = self.full(case)
        if "err" in obs:
            if obs["err"] != "re.error":
                return None
            rules = []
            for i, ru in enumerate(case["rules"]):
                try:
                    rx = re.compile(ru["pat"])
                except re.error:
                    return None
                rules.append({"id": i, "tpl": cps(ru["tpl"]), "ngroups": rx.groups,
                              "names": sorted([cps(k), v] for k, v in rx.groupindex.items())})
            return {"op": "run", "rules": rules, "prog": [], "eng": [], "inputs": [], "seps": [], "fuel": FUEL}
        rules = []
        for i, (ru, ld) in enumerate(zip(case["rules"], obs["load"])):
            if ld is None:
                rx = re.compile(ru["pat"])
                ld = {"ngroups": rx.groups, "names": sorted([cps(k), v] for k, v in rx.groupindex.items())}
            rules.append({"id": i, "pat": cps(ru["pat"]), "tpl": cps(ru["tpl"]), "ngroups": ld["ngroups"], "names": ld["names"]})

        def conv(nodes):
            out = []
            for nd in nodes:
                k = nd["k"]
                if k in ("rule", "mask"):
                    out.append({"k": k, "id": nd["id"]})
                elif k == "iter":
                    out.append({"k": "iter", "ops": conv(nd["ops"])})
                elif k == "ext":
                    out.append({"k": "ext", "active": bool(nd["active"]), "ops": conv(nd["ops"])})
                else:
                    out.append({"k": "incl", "lines": conv(nd["lines"])})
            return out
        inputs, seps = [], []
        for inp, run in zip(case["inputs"], obs["runs"]):
            inputs.append(inp)
            seps.append(run.get("seps") if "err" not in run else None)
        req = {"op": "run", "rules": rules, "prog": conv(case["prog"]), "eng": obs["eng"], "inputs": inputs,
               "seps": seps, "fuel": FUEL,
               "ltexts": [dict(load_request(lines, files, hd, pre), label=cps(label))
                          for label, lines, files, hd, pre in obs["ltexts"]],
               # the model runs what the TEXT gives (loader model + Link.lean), not the harness's tree
               "link": {"active": [cps(x) for x in sorted(active_names(case["prog"]))],
                        "masks": [cps(x) for x in case["masks"]]}}
        if case["kind"] == "masked":
            req["meng"] = obs["meng"]        # selects the mask-threading semantics of the model
        if "session" in obs and self.pid == "C13":
            req["calls"] = obs["session"]["calls"]
            req["defaults"] = obs["session"]["defaults"]
            req["defaults2"] = obs["session"].get("defaults2", [])
        return req

    def model_compare(self, case, expected, answer):
        if case["kind"] == "registry":
            return None if answer == expected else {"expected_from_impl": expected, "model": answer}
        if case["kind"] == "load":
            if expected["loaded"].get("err") == "re.error":
                self.note_skip("loader case: re rejects an expression (compiling is outside the loader model)")
                return None
            got = prune_loaded(answer, case["pre"]) if isinstance(answer, dict) else answer
            if isinstance(answer, dict) and "spliced" in answer and answer.get("err") != "fuel":
                sp = prune_loaded(answer["spliced"], case["pre"])
                main = {k: v for k, v in got.items() if k not in ("spliced", "splicefree")} if isinstance(got, dict) else got
                if sp != main and sp.get("err") != "fuel":
                    return {"splice": "model: the fully spliced text loads differently", "spliced": sp, "model": main}
                got = main
            return None if got == expected["loaded"] else {"expected_from_impl": expected["loaded"], "model": got}
        if case["kind"] == "render":
            if not isinstance(answer, dict) or answer.get("lines") != expected["lines"]:
                return {"renderer": "harness and Lean renderers differ", "expected_from_impl": expected["lines"],
                        "model": answer.get("lines") if isinstance(answer, dict) else answer}
            if expected["loaded"].get("err") == "re.error":
                self.note_skip("render case: re rejects an expression")
                return None
            got = prune_loaded(answer.get("loaded"), case["pre"])
            return None if got == expected["loaded"] else {"expected_from_impl": expected["loaded"], "model": got}
        if "err" not in expected and isinstance(answer, dict) and "runs" in answer:
            if answer.get("engok") is False:
                return {"engine": "a match list sent to the model fails Engine.findIterOk (parameter assumption)"}
            if "adjacent_empty" in answer and self.pid == "C13":
                want = sum(adjacent_empty(e["ms"]) for e in self.full(case)["eng"])
                if answer["adjacent_empty"] != want:
                    return {"engine": "adjacent empty matches", "expected_from_impl": want, "model": answer["adjacent_empty"]}
            if answer.get("treeagree") is False:
                return {"link": "the operation tree linked from the loaded text differs from the harness's tree"}
            obs = self.full(case)
            got = answer.get("loaded")
            if "loaded" not in expected:
                pass
            elif not isinstance(got, list) or len(got) != len(expected.get("loaded", [])):
                return {"loader": "missing", "model": got}
            for (label, _, _, _, pre), e, a in zip(obs["ltexts"], expected.get("loaded", []), got or []):
                a = prune_loaded(a, pre)
                if a != e:
                    return {"loader": label, "expected_from_impl": e, "model": a}
        if "err" in expected:
            if expected["err"] == "re.error":
                ok = isinstance(answer, dict) and any(isinstance(x, dict) and x.get("err") == "re.error"
                                                      for x in answer.get("load", []))
                return None if ok else {"expected_from_impl": expected, "model": answer}
            return None
        if not isinstance(answer, dict) or "runs" not in answer:
            return {"expected_from_impl": expected, "model": answer}
        if len(answer.get("load", [])) != len(expected["load"]):
            return {"load_entries": len(expected["load"]), "model_entries": len(answer.get("load", []))}
        for i, (e, a) in enumerate(zip(expected["load"], answer.get("load", []))):
            if e is not None and e != a:
                return {"rule": i, "expected_from_impl": e, "model": a}
        if "session" in expected:
            got = answer.get("session")
            if not isinstance(got, list) or len(got) != len(expected["session"]):
                return {"session": "missing", "model": got}
            for i, (e, a) in enumerate(zip(expected["session"], got)):
                if e is None or a is None:
                    if e is not a:
                        return {"session_call": i, "expected_from_impl": e, "model": a}
                    continue
                a = {k: a.get(k) for k in e} if isinstance(a, dict) else a
                if a != e:
                    bad = [k for k in e if not isinstance(a, dict) or a.get(k) != e[k]]
                    return {"session_call": i, "call": self.full(case)["session"]["calls"][i], "keys": bad,
                            "expected_from_impl": {k: e[k] for k in bad}, "model": a}
        if len(expected["runs"]) != len(answer["runs"]):
            return {"expected_runs": len(expected["runs"]), "model_runs": len(answer["runs"])}
        for i, (e, a) in enumerate(zip(expected["runs"], answer["runs"])):
            if "err" in e:
                if e["err"] == "timeout" and a.get("err") in ("fuel", "engine"):
                    self.note_skip("run: the real code hit the alarm (no fixpoint), model out of fuel / engine data")
                    continue        # no fixpoint: the real code does not terminate, the engine table stops there
                return {"input": i, "expected_from_impl": e, "model": a}
            got = {k: a.get(k) for k in e}
            if got != e:
                bad = [k for k in e if got.get(k) != e[k]]
                return {"input": i, "keys": bad, "expected_from_impl": {k: e[k] for k in bad},
                        "model": {k: got.get(k) for k in bad}}
        return None

    # ---- direct oracle
    def variant(self, case, prog, **kw):
        c = dict(case)
        c["prog"] = prog
        c.update(kw)
        own = self.tmp is None
        if own:
            self.setup()
        try:
            return observe(c, self.tmp, battery=False)
        finally:
            if own:
                self.teardown()

    def oracle(self, case, res):
        fails = []

        def fail(clause, detail):
            fails.append({"clause": clause, "detail": detail})
        if case["kind"] == "load":
            return self.oracle_load(case, res)
        if case["kind"] == "long":
            return self.oracle_long(case, res)
        if case["kind"] == "registry":
            # the property covers: the same dict with the same keys, or no module object in common; one module
            # object under DIFFERENT keys in two REPPs is object sharing by the caller (observed: it is renamed)
            names = {}
            for k, i in case["d1"] + case["d2"]:
                names.setdefault(i, set()).add(json.dumps(k))
            once = all(len(v) == 1 for v in names.values())          # every module object is named once
            if once and res["after"] != res["before"]:
                fail("two REPP objects built from the same modules dict are not independent", repr(res))
            return fails
        if case["kind"] == "render":
            want = render_expected(case)
            if want is not None and res["loaded"] != want and res["loaded"].get("err") != "re.error":
                fail("loading the rendered text of an operation tree does not give the tree back",
                     repr((res["loaded"], want))[:900])
            return fails
        if case["kind"] == "masked":
            return self.oracle_masked(case)
        obs = self.full(case)
        # load errors: the reference must reject the same template
        if "err" in obs:
            ref_err = None
            try:
                for ru in case["rules"]:
                    re.sub(ru["pat"], ru["tpl"], "")
            except re.error:
                ref_err = "re.error"
            if obs["err"] != ref_err:
                fail("module does not load although every rule is a valid regex substitution", repr((obs["err"], ref_err)))
            if case["kind"] == "loaderr":
                own = self.tmp is None
                if own:
                    self.setup()
                try:
                    fails.extend(config_error_paths(self.tmp))
                finally:
                    if own:
                        self.teardown()
            return fails
        if obs["tree"] != expected_tree(case, case["prog"]):
            fail("loaded operation tree differs from the program (groups, external calls, includes in place)",
                 repr((obs["tree"], expected_tree(case, case["prog"]))))
        ngroups = {i: (ld or {}).get("ngroups") for i, ld in enumerate(obs["load"])}
        for ent in obs["eng"]:
            why = check_matches(uncps(ent["s"]), ent["ms"], ngroups[ent["id"]], case["rules"][ent["id"]]["pat"])
            if why:
                fail("parameter assumption on the regex engine violated", repr((why, ent)))
        for inp, run in zip(case["inputs"], obs["runs"]):
            s = uncps(inp)
            log = []
            try:
                want = ref_run(case, case["prog"], s, log)
            except Diverges:
                continue
            if "err" in run:
                fail("apply raises or does not terminate although the reference reaches a result",
                     repr((s, run["err"], want)))
                continue
            got = uncps(run["string"])
            if got != want:
                fail("apply(s).string differs from the ordered regex substitutions", repr((s, got, want)))
            basic = [[st["kind"], st["id"], uncps(st["inp"]), uncps(st["out"])] for st in run["steps"]
                     if st["kind"] != "group"]
            if basic != log:
                fail("trace: rule/mask steps are not the substitutions performed in order", repr((s, basic[:6], log[:6])))
            cur = s
            for b in basic:
                if b[2] != cur:
                    fail("trace chain broken: a step's input is not the previous step's output", repr((s, b, cur)))
                    break
                cur = b[3]
            else:
                if cur != got:
                    fail("trace chain does not end in the result of apply", repr((s, cur, got)))
            for st in run["steps"]:
                if st["kind"] == "group" and (any(st["sm"]) or any(st["em"]) or len(st["sm"]) != len(st["out"]) + 2):
                    fail("group summary step reports non-zero maps", repr((s, st)))
                if st["kind"] == "mask" and (st["inp"] != st["out"] or any(st["sm"]) or any(st["em"])):
                    fail("a mask rule changed the string or a reported span", repr((s, st)))
            if not run["applysame"] or not run["shownlast"]:
                fail("last element of trace differs from apply", repr(s))
            if run["shown"] != [{k: v for k, v in st.items() if k != "mask"} for st in run["steps"] if st["applied"]]:
                fail("trace(verbose=False) is not the applied steps of trace(verbose=True)", repr(s))
            if not any(st["applied"] for st in run["steps"] if st["kind"] == "rule"):
                a, b = INIT(len(s))
                if got != s or run["startmap"] != a or run["endmap"] != b:
                    fail("no applicable rule, but the module does not return its input unchanged", repr((s, got)))
        fails.extend(obs.get("purity", []))
        # variants of the same program must behave identically
        base = strip_obs(obs)
        if has_kind(case["prog"], "incl"):
            spliced = map_nodes(case["prog"], lambda nd: nd["lines"] if nd["k"] == "incl" else None)
            v = self.variant(case, spliced)
            if strip_obs(v) != base:
                fail("including a file differs from splicing its lines in place", repr((strip_obs(v), base))[:600])
        if any(nd_inactive(case["prog"])):
            removed = map_nodes(case["prog"], lambda nd: [] if (nd["k"] == "ext" and not nd["active"]) else None)
            v = self.variant(case, removed)
            if strip_obs(v) != base:
                fail("an inactive external group changed the result", repr((strip_obs(v), base))[:600])
        if case["masks"]:
            nomask = map_nodes(case["prog"], lambda nd: [] if nd["k"] == "mask" else None)
            v = self.variant(case, nomask)
            if strip_obs(v) != base:
                fail("a mask rule by itself changed the string or a reported span", repr((strip_obs(v), base))[:600])
        if case["via"] == "string" and not has_kind(case["prog"], "incl"):
            v = self.variant(case, case["prog"], via="file")
            if strip_obs(v) != base:
                fail("loading from files differs from loading from strings", repr((strip_obs(v), base))[:600])
        # the other public construction paths (directory=, modules=, from_config, module names)
        if has_kind(case["prog"], "ext") or has_kind(case["prog"], "incl") or len(json.dumps(case)) % 5 == 0:
            want = [run if "err" in run else {k: run[k] for k in ("string", "startmap", "endmap")} for run in obs["runs"]]
            own = self.tmp is None
            if own:
                self.setup()
            try:
                for label, got in api_variants(case, self.tmp, sorted(active_names(case["prog"])), self.api_counts):
                    if got != want and not any("err" in w for w in want):
                        fail("construction path gives a different result: " + label.split(" ")[0],
                             repr((label, got, want))[:700])
            finally:
                if own:
                    self.teardown()
        return fails

    def oracle_masked(self, case):
        """programs WITH masks: every rule step rewrites exactly the matches that are not blocked —
        all of them when no match touches masked material (then the step is the plain substitution), and
        in any case some subset that contains every match free of masked material; a blocked match is
        left alone.  Chain, lengths and mask steps as for mask-free programs."""
        fails = []

        def fail(clause, detail):
            fails.append({"clause": clause, "detail": detail})
        obs = self.full(case)
        if "err" in obs:
            return fails
        for inp, run in zip(case["inputs"], obs["runs"]):
            s = uncps(inp)
            if "err" in run:
                if run["err"] != "timeout":
                    fail("apply raises on a program with masks", repr((s, run["err"])))
                continue
            cur = s
            mask = [0] * (len(s) + 2)
            for st in run["steps"]:
                si, so = uncps(st["inp"]), uncps(st["out"])
                if st["kind"] == "group":
                    if so != cur or any(st["sm"]) or any(st["em"]):
                        fail("group summary step does not report the current string with zero maps", repr((s, st)))
                elif si != cur:
                    fail("trace chain broken: a step's input is not the previous step's output", repr((s, st, cur)))
                    break
                if len(st["mask"]) != len(so) + 2 or len(st["sm"]) != len(so) + 2 or len(st["em"]) != len(so) + 2:
                    fail("step arrays do not have one entry per output position plus two sentinels", repr((s, st)))
                    break
                if st["kind"] == "mask":
                    if so != si or any(st["sm"]) or any(st["em"]):
                        fail("a mask rule changed the string or a reported span", repr((s, st)))
                elif st["kind"] == "rule":
                    ru = case["rules"][st["id"]]
                    ms = list(re.finditer(ru["pat"], si))
                    clean = [i for i, m in enumerate(ms) if not any(mask[m.start() + 1:m.end() + 1])]
                    dirty = [i for i in range(len(ms)) if i not in clean]
                    if not dirty:
                        if so != re.sub(ru["pat"], ru["tpl"], si):
                            fail("no match touches masked material, but the step is not the plain substitution",
                                 repr((ru, si, mask, so)))
                    elif len(dirty) <= 10:
                        ok = False
                        for bits in range(1 << len(dirty)):
                            keep = set(clean) | {d for j, d in enumerate(dirty) if bits >> j & 1}
                            if sub_subset(ru["pat"], ru["tpl"], si, keep) == so:
                                ok = True
                                break
                        if not ok:
                            fail("under a mask the step is not the substitution of the unmasked matches plus some of the "
                                 "masked ones (a blocked match must be left alone)", repr((ru, si, mask, so)))
                    if not st["applied"] and (so != si or any(st["sm"]) or any(st["em"][:-1])):
                        fail("a rule step that did not apply changed the string or the maps", repr((s, st)))
                    cur = so
                mask = st["mask"]
            if cur != uncps(run["string"]):
                fail("trace chain does not end in the result of apply", repr((s, cur, uncps(run["string"]))))
            if not run["applysame"]:
                fail("last element of trace differs from apply", repr(s))
            n, out = len(s), uncps(run["string"])
            if len(run["startmap"]) != len(out) + 2 or len(run["endmap"]) != len(out) + 2:
                fail("offset maps do not have one entry per output position plus two sentinels", repr((s, out)))
        fails.extend(obs.get("purity", []))
        return fails

    def oracle_load(self, case, res):
        """including a file equals splicing its lines in place — on the real loader, at every depth, for
        well-formed and malformed text alike (same module or same error)"""
        fails = []
        lines = [uncps(x) for x in case["lines"]]
        files = {fn: [uncps(x) for x in ls] for fn, ls in case["files"].items()}
        # TEXT variants: the line terminators (and a missing final newline, trailing blank lines) do not matter
        if case.get("eol") and not any(ch in ln for ln in lines + [x for ls in files.values() for x in ls]
                                       for ch in "\n\r\x0b\x0c\x1c\x1d\x1e\x85\u2028\u2029"):
            plain = self.real_load(lines, files, case["mode"], case["pre"], None)
            if plain != res["loaded"] and "fuel" not in (plain.get("err"), res["loaded"].get("err")):
                fails.append({"clause": "the line terminators of the text change the loaded module (style %s)" % case["eol"],
                              "detail": repr((res["loaded"], plain))[:900]})
        if case["mode"] != "file":
            return fails
        # EVERY include spliced in place, recursively (includes inside groups, inside included files): one flat text
        def splice_all(ls, depth=8):
            out = []
            for ln in ls:
                if ln.startswith("<") and ln[1:].rstrip() in files and depth > 0:
                    out.extend(splice_all(files[ln[1:].rstrip()], depth - 1))
                else:
                    out.append(ln)
            return out
        flat = splice_all(lines)
        if flat != lines and case.get("eol") is None:
            got = self.real_load(flat, {fn: splice_all(ls) for fn, ls in files.items()}, "file", [])
            if got != res["loaded"] and "fuel" not in (got.get("err"), res["loaded"].get("err")):
                fails.append({"clause": "including files differs from splicing ALL included lines in place (every depth)",
                              "detail": repr((flat, res["loaded"], got))[:900]})
        # splice the first include line of the main text, and the first one inside any file
        targets = [("main", lines)] + sorted(files.items())
        for label, ls in targets:
            for i, ln in enumerate(ls):
                if ln.startswith("<") and ln[1:].rstrip() in files and not ln.startswith(";"):
                    fl = files[ln[1:].rstrip()]
                    spliced = ls[:i] + fl + ls[i + 1:]
                    if label == "main":
                        got = self.real_load(spliced, files, "file", [], case.get("eol"))
                    else:
                        got = self.real_load(lines, dict(files, **{label: spliced}), "file", [], case.get("eol"))
                    if got != res["loaded"] and "fuel" not in (got.get("err"), res["loaded"].get("err")):
                        fails.append({"clause": "including a file differs from splicing its lines in place (loader)",
                                      "detail": repr((label, i, ln, res["loaded"], got))[:900]})
                    break
        return fails

    def stats(self, case, res, counters):
        def inc(k, n=1):
            counters[k] = counters.get(k, 0) + n
        inc("kind:" + case["kind"])
        if case["kind"] == "registry":
            inc("registry:" + ("unchanged" if res.get("after") == res.get("before") else "renamed"))
            return
        if case["kind"] == "long":
            for inp in case["inputs"]:
                inc("long:inputs")
                inc("long:len>=%d" % (65535 if len(inp) >= 65535 else 4095 if len(inp) >= 4095 else 1000 if len(inp) >= 1000 else 0))
            return
        if case["kind"] in ("load", "render"):
            ld = res.get("loaded", {}) if isinstance(res, dict) else {}
            inc("loader:" + (ld.get("err") or "ok"))
            if case["kind"] == "load":
                inc("loader_mode:" + case["mode"])
                inc("eol:" + str(case.get("eol")))
                txt = [uncps(x) for x in case["lines"]] + [uncps(x) for ls in case["files"].values() for x in ls]
                for ln in txt:
                    inc("line:" + (ln[0] if ln and ln[0] in "!<>=#:@;" else "other"))
            else:
                inc("render:" + ("wf" if render_expected(case) is not None else "illformed"))
            return
        inc("inputs", len(case["inputs"]))
        inc("via:" + case["via"])
        for k in ("iter", "ext", "incl", "mask"):
            if has_kind(case["prog"], k):
                inc("has:" + k)
        for ru in case["rules"]:
            t = ru["tpl"]
            refs = [int(x) for x in re.findall(r"\\(?:g<)?(\d)", t)]
            if t == "":
                inc("tpl:empty")
            elif refs == list(range(1, len(refs) + 1)):
                inc("tpl:inorder")
            else:
                inc("tpl:anyorder")
            if any(e in t for e in ESCAPES):
                inc("tpl:escapes")
        if not isinstance(res, dict) or "err" in res:
            inc("err:" + str((res or {}).get("err")))
            return
        obs = self.full(case)
        if case["kind"] == "masked":
            for inp, run in zip(case["inputs"], obs["runs"]):
                if "err" in run:
                    continue
                mask = [0] * (len(inp) + 2)
                for st in run["steps"]:
                    if st["kind"] == "rule":
                        ru = case["rules"][st["id"]]
                        si = uncps(st["inp"])
                        ms = list(re.finditer(ru["pat"], si))
                        inc("masked:rule_steps")
                        if any(any(mask[m.start() + 1:m.end() + 1]) for m in ms):
                            inc("masked:steps_with_masked_match")
                            if uncps(st["out"]) != re.sub(ru["pat"], ru["tpl"], si):
                                inc("masked:steps_with_blocked_match")
                            if ms and not st["applied"]:
                                inc("masked:steps_all_blocked")
                    mask = st["mask"]
        for ent in obs["eng"]:
            inc("rule_applications")
            inc("matches:empty_after_nonempty", adjacent_empty(ent["ms"]))
            for m in ent["ms"]:
                inc("matches")
                if m["s"] == m["e"]:
                    inc("matches:empty")
                if any(g is None for g in m["g"]):
                    inc("matches:unmatched_group")
        if "session" in obs:
            inc("session:histories")
            inc("session:calls", len(obs["session"]["calls"]))
        for run in obs["runs"]:
            if "err" in run:
                inc("run_err:" + run["err"])
                continue
            inc("steps", len(run["steps"]))
            rounds = sum(1 for st in run["steps"] if st["kind"] == "group")
            inc("group_summaries", rounds)
            if any(st["applied"] for st in run["steps"] if st["kind"] == "rule"):
                inc("runs:applied")
            else:
                inc("runs:identity")

    def nontrivial_key(self, case, res):
        if case["kind"] == "load":
            return json.dumps(case, sort_keys=True) if case["lines"] else None
        if case["kind"] == "render":
            return json.dumps(case, sort_keys=True) if case["nodes"] else None
        if case["kind"] == "long":
            return json.dumps(case["rules"]) + str([len(i) for i in case["inputs"]])
        if case["kind"] == "registry":
            return json.dumps(case, sort_keys=True)
        if not isinstance(res, dict) or "runs" not in res:
            return None
        obs = self.full(case)
        if not any(st["applied"] for run in obs["runs"] if "steps" in run for st in run["steps"] if st["kind"] == "rule"):
            return None
        return json.dumps(case, sort_keys=True)

    def shrink(self, case, still_fails):
        import time as _time
        t0 = _time.time()
        calls = [0]
        inner = still_fails

        def still_fails(c):          # noqa: F811 - bounded: a broken tree must still finish in about two minutes
            calls[0] += 1
            if calls[0] > 60 or _time.time() - t0 > 12:
                return False
            return inner(c)
        if case["kind"] == "load":
            changed = True
            while changed:
                changed = False
                for i in range(len(case["lines"])):
                    c = dict(case, lines=case["lines"][:i] + case["lines"][i + 1:])
                    if still_fails(c):
                        case, changed = c, True
                        break
            return case
        if case["kind"] == "render":
            return case
        # one input
        if len(case["inputs"]) > 1:
            for inp in case["inputs"]:
                c = dict(case, inputs=[inp])
                if still_fails(c):
                    case = c
                    break
        # drop nodes
        changed = True
        while changed:
            changed = False
            flat = list(iter_paths(case["prog"]))
            for path in flat:
                c = dict(case, prog=drop_path(case["prog"], path))
                if c["prog"] and still_fails(c):
                    case = c
                    changed = True
                    break
        # shorten the input
        if len(case["inputs"]) == 1:
            s = case["inputs"][0]
            i = 0
            while i < len(s):
                c = dict(case, inputs=[s[:i] + s[i + 1:]])
                if still_fails(c):
                    case = c
                    s = c["inputs"][0]
                else:
                    i += 1
        return case


def nd_inactive(nodes):
    for nd in nodes:
        if nd["k"] == "ext" and not nd["active"]:
            yield nd
        for key in ("ops", "lines"):
            if key in nd:
                yield from nd_inactive(nd[key])


def iter_paths(nodes, prefix=()):
    for i, nd in enumerate(nodes):
        yield prefix + (i,)
        for key in ("ops", "lines"):
            if key in nd:
                yield from iter_paths(nd[key], prefix + (i, key))


def drop_path(nodes, path):
    nodes = copy.deepcopy(nodes)
    cur = nodes
    for p in path[:-1]:
        cur = cur[p]
    del cur[path[-1]]
    return nodes


CHECK = C13()
