"""C15 — TDL text <-> TDL objects round trip: generators, implementation runner, direct oracle."""
import copy
import io
import json
import os
import re
import shutil
import tempfile
import warnings
from pathlib import Path

from .common import paths
from .common.runner import Check

paths.ensure_repo_on_path()
from delphin import tdl, tfs, util  # noqa: E402


def cps(s):
    return [ord(c) for c in s]


def uncps(a):
    return "".join(chr(x) for x in a)


# --------------------------------------------------------------------------- alphabets

TYPE_IDS = ["a", "b", "foo", "x-y", "*top*", "*list*", "*null*", "A", "Foo", "été", "名", "+", "n_1",
            "*LIST*", "very-long-type-name-that-forces-line-breaks", "another_quite_long_identifier-0123456789"]
FEATS = ["A", "B", "c", "Dd", "F-G", "REST", "first", "LIST", "x1", "SYNSEM", "LOCAL", "a"]
STR_UNITS = ["a", " ", "\\\"", "\\\\", "\\n", "é", ".", "&", "<", ";", "#|", "[", "x y", "$", "^", "'", ":=",
             "%", "\\\"\\\"\\\""]
RE_UNITS = ["a", ".", "*", "\\$", "\\\\", "[", "]", " ", "\"", "(b)", "^", "\\."]
DOC_UNITS = ["a", "b c", "\"", "\"\"", "\"\"\"", "\\", "\\\"", "\\\\", " ", "  ", "\n", "\n  ", "\n    ", "é",
             "|#", ";", "\"\"\"\"", "\\\n", ".", "\"\n"]
COMMENT_UNITS = ["a", " ", "b c", "\"", "\"\"\"", ";", "#|", "\\\\", "\\|", ":=", ".", "é", "|", "#", "[ x ]"]
MORPH_CHARS = ["a", "b", "c", "xyz", "é", "!", "?", "*", "(", "\"", "'", "$", "^", ";", ".", "#"]
MORPH_BAD = [")", " ", "\\", "\\)", "a b", "\\\\"]
STATUS = ["lex-rule", "rule", "instance", "token-mapping-rule", "x"]
INCLUDES = ["foo", "dir/bar", "a b", "lexicon.tdl", "x-y_z"]
AFFIX_M = ["*", "!a", "!a!b", "e", "?x", "\\*", "ab"]
AFFIX_R = ["s", "!aes", "\\)", "e\\ d", "ing", "!a!bx", "\\\\"]


def pick_units(rng, units, lens):
    return "".join(rng.choice(units) for _ in range(rng.choice(lens)))


def gen_doc(rng):
    return pick_units(rng, DOC_UNITS, [0, 1, 1, 2, 2, 3, 3, 4, 5, 6, 8])


def maybe_doc(rng, p=0.15):
    return cps(gen_doc(rng)) if rng.random() < p else None


def gen_ident(rng):
    return rng.choice(TYPE_IDS)


def gen_leaf(rng, docp=0.12):
    r = rng.random()
    d = maybe_doc(rng, docp)
    if r < 0.45:
        return {"k": "id", "d": d, "s": cps(gen_ident(rng))}
    if r < 0.65:
        return {"k": "str", "d": d, "s": cps(pick_units(rng, STR_UNITS, [0, 1, 1, 2, 3, 4]))}
    if r < 0.75:
        return {"k": "re", "d": d, "s": cps(pick_units(rng, RE_UNITS, [0, 1, 2, 3, 4]))}
    return {"k": "co", "d": d, "s": cps(rng.choice(["x", "1", "coref", "a-b", "X"]))}


def gen_path(rng):
    n = rng.choice([1, 1, 1, 2, 2, 3, 4])
    return [cps(rng.choice(FEATS)) for _ in range(n)]


def gen_avm(rng, depth, docp):
    n = rng.choice([0, 1, 1, 1, 2, 2, 3, 4])
    fv = []
    used = set()
    for _ in range(n):
        p = gen_path(rng)
        key = uncps(p[0]).upper()
        # mostly distinct first components; sometimes shared (merging, overwriting, errors)
        if key in used and rng.random() < 0.7:
            continue
        used.add(key)
        fv.append([p, gen_val(rng, depth - 1, docp, feature=True)])
    return {"k": "avm", "d": maybe_doc(rng, docp), "f": fv}


class _Exotic(Exception):
    pass


def _sim_avm(fv):
    """replay AVM(featvals) on the spec: raises _Exotic when a path is set *inside* an existing list
    or Conjunction value (that mutates a list / shared conjunction object: not a TDL object tree)"""
    tree = {}
    for path, val in fv:
        _check_spec(val)
        cur = tree
        for i, comp in enumerate(path):
            key = uncps(comp).upper()
            if i == len(path) - 1:
                cur[key] = ("avm", _sim_avm(val["f"])) if val["k"] == "avm" else ("val", val)
                break
            if key not in cur:
                cur[key] = ("avm", {})
            node = cur[key]
            if node[0] == "avm":
                cur = node[1]
            elif node[1]["k"] in ("conj", "cons", "diff"):
                raise _Exotic()
            else:
                break       # TFSError at construction
    return tree


def _check_spec(j):
    k = j["k"]
    if k == "hist":
        _check_spec(j["base"])
        for op in j["ops"]:
            for x in op[1:]:
                if isinstance(x, dict):
                    _check_spec(x)
        return
    if k == "conj":
        for t in j["t"]:
            _check_spec(t)
    elif k == "avm":
        _sim_avm(j["f"])
    elif k in ("cons", "diff"):
        for v in j["v"]:
            _check_spec(v)
        if k == "cons" and isinstance(j["e"], dict):
            _check_spec(j["e"])


def spec_exotic(j):
    try:
        _check_spec(j)
        return False
    except _Exotic:
        return True


def gen_items(rng, depth, docp):
    n = rng.choice([0, 0, 1, 1, 2, 2, 3, 3, 4, 5, 8])
    return [gen_val(rng, depth - 1, docp) for _ in range(n)]


def gen_term(rng, depth, docp=0.12):
    r = rng.random()
    if depth <= 0 or r < 0.35:
        return gen_leaf(rng, docp)
    if r < 0.65:
        return gen_avm(rng, depth, docp)
    if r < 0.88:
        vs = gen_items(rng, depth, docp)
        e = rng.random()
        if e < 0.45:
            end = "closed"
        elif e < 0.75:
            end = "open"
        elif vs:
            end = gen_val(rng, min(depth - 1, 1), docp)
            if rng.random() < 0.15:
                end = {"k": "id", "d": None, "s": cps(rng.choice(["*list*", "*null*", "*LIST*", "*Null*"]))}
        else:
            end = "closed"
        return {"k": "cons", "d": maybe_doc(rng, docp), "v": vs, "e": end}
    return {"k": "diff", "d": maybe_doc(rng, docp), "v": gen_items(rng, depth, docp)}


def gen_val(rng, depth, docp=0.12, feature=False):
    r = rng.random()
    if r < 0.72:
        return gen_term(rng, depth, docp)
    if r < 0.76:
        # one-term Conjunction object
        t = gen_term(rng, depth, docp)
        if feature and rng.random() < 0.5:
            t = {"k": "avm", "d": maybe_doc(rng, docp), "f": [[gen_path(rng), gen_val(rng, depth - 1, docp)]]}
        return {"k": "conj", "t": [t]}
    n = rng.choice([2, 2, 2, 3])
    return {"k": "conj", "t": [gen_term(rng, depth, docp) for _ in range(n)]}


def recase(rng, path):
    out = []
    for c in path:
        t = uncps(c)
        r = rng.random()
        out.append(cps(t.lower() if r < 0.3 else t.upper() if r < 0.6 else t))
    return out


def gen_hist_avm(rng, depth=2):
    """an AVM on which features are defined, deleted, re-defined and overwritten"""
    while True:
        base = gen_avm(rng, depth, 0.05)
        if not spec_exotic(base):
            break
    paths = [p for p, _ in base["f"]]
    deleted = []
    ops = []
    for _ in range(rng.choice([1, 2, 2, 3, 3, 4, 6])):
        c = rng.random()
        if c < 0.3 and paths:
            p = rng.choice(paths)
            q = p[:rng.randrange(1, len(p) + 1)]
            ops.append(["del", recase(rng, q)])
            deleted.append(q)
            paths = [x for x in paths if [uncps(a).upper() for a in x[:len(q)]] != [uncps(a).upper() for a in q]]
        elif c < 0.6 and deleted:
            q = rng.choice(deleted)
            ops.append(["set", recase(rng, q), gen_leaf(rng, 0.05)])
            paths.append(q)
        elif c < 0.75 and paths:
            ops.append(["set", recase(rng, rng.choice(paths)), gen_leaf(rng, 0.05)])
        elif c < 0.95:
            p = gen_path(rng)
            v = gen_val(rng, 1, 0.05, feature=True)
            if not spec_exotic(v):
                ops.append(["set", p, v])
                paths.append(p)
        else:
            ops.append(["normalize"])
    return {"k": "hist", "base": base, "ops": ops}


def gen_hist_cons(rng):
    base = {"k": "cons", "d": maybe_doc(rng, 0.05), "v": [gen_leaf(rng, 0.0) for _ in range(rng.choice([0, 0, 1, 2]))],
            "e": "open"}
    ops = [["append", gen_val(rng, 1, 0.05)] for _ in range(rng.choice([0, 1, 2, 3, 5]))]
    r = rng.random()
    if r < 0.3:
        ops.append(["terminate", "closed"])
    elif r < 0.5:
        ops.append(["terminate", "open"])
    elif r < 0.8:
        ops.append(["terminate", rng.choice([gen_leaf(rng, 0.0), {"k": "str", "d": None, "s": []},
                                             {"k": "cons", "d": None, "v": [], "e": "closed"},
                                             {"k": "diff", "d": None, "v": []}])])
    if rng.random() < 0.15:
        ops.append(["append", gen_leaf(rng, 0.0)])
    if rng.random() < 0.1:
        ops.append(["normalize"])
    return {"k": "hist", "base": base, "ops": ops}


def gen_hist_conj(rng):
    base = {"k": "conj", "t": [gen_leaf(rng, 0.05)] + ([gen_avm(rng, 1, 0.0)] if rng.random() < 0.6 else [])}
    ops = []
    for _ in range(rng.choice([1, 2, 3])):
        c = rng.random()
        if c < 0.35:
            ops.append(["add", gen_term(rng, 1, 0.05)])
        elif c < 0.55:
            ops.append(["and", gen_leaf(rng, 0.05)])
        elif c < 0.7:
            ops.append(["add", {"k": "conj", "t": [gen_leaf(rng, 0.0), gen_leaf(rng, 0.0)]}])
        elif c < 0.85:
            ops.append(["normalize"])
        else:
            ops.append(["add", gen_avm(rng, 1, 0.0)])
    for op in ops:
        for x in op[1:]:
            if isinstance(x, dict) and spec_exotic(x):
                return gen_hist_conj(rng)
    if spec_exotic(base):
        return gen_hist_conj(rng)
    return {"k": "hist", "base": base, "ops": ops}


def gen_hist_item(rng):
    """a definition whose body (or a value in it) came about through mutator calls"""
    r = rng.random()
    sup = {"k": "id", "d": None, "s": cps(gen_ident(rng))}
    if r < 0.45:
        ts = [sup, gen_hist_avm(rng)]
    elif r < 0.6:
        ts = [sup, {"k": "avm", "d": None, "f": [[[cps("L")], gen_hist_cons(rng)], [[cps("M")], gen_leaf(rng, 0.0)]]}]
    elif r < 0.75:
        ts = [sup, {"k": "avm", "d": None, "f": [[[cps("C")], gen_hist_conj(rng)]]}]
    else:
        ts = [sup, gen_avm(rng, 2, 0.05), gen_leaf(rng, 0.0)]
        if spec_exotic(ts[1]):
            ts[1] = {"k": "avm", "d": None, "f": [[[cps("A")], gen_leaf(rng, 0.0)]]}
    it = {"k": rng.choice(["typedef", "typedef", "addendum"]), "id": cps(gen_ident(rng)), "t": ts,
          "d": maybe_doc(rng, 0.1)}
    if r >= 0.75 or rng.random() < 0.2:
        ops = []
        paths = [p for p, _ in ts[1]["f"]] if ts[1]["k"] == "avm" else []
        for _ in range(rng.choice([1, 2, 3])):
            c = rng.random()
            if c < 0.35 and paths:
                p = rng.choice(paths)
                ops.append(["del", recase(rng, p[:rng.randrange(1, len(p) + 1)])])
                ops.append(["set", recase(rng, p[:1]), gen_leaf(rng, 0.0)])
            elif c < 0.7:
                ops.append(["set", gen_path(rng), gen_leaf(rng, 0.0)])
            else:
                ops.append(["normalize"])
        it["ops"] = ops
    return it


def gen_def(rng, depth=3):
    docp = rng.choice([0.0, 0.1, 0.3])
    kind = rng.choice(["typedef", "typedef", "typedef", "addendum", "lexrule"])
    n = rng.choice([1, 1, 2, 2, 3, 4])
    ts = []
    while len(ts) < n:
        t = gen_term(rng, depth, docp)
        if not spec_exotic(t):
            ts.append(t)
    if kind == "typedef" and not any(t["k"] in ("id", "str", "re") for t in ts):
        ts.insert(rng.randrange(len(ts) + 1), {"k": "id", "d": maybe_doc(rng, docp), "s": cps(gen_ident(rng))})
    it = {"k": kind, "id": cps(gen_ident(rng)), "t": ts, "d": maybe_doc(rng, max(docp, 0.1))}
    if kind == "addendum" and rng.random() < 0.12:
        it["t"] = []
        if it["d"] is None:
            it["d"] = cps(gen_doc(rng))
    if kind == "lexrule":
        it["a"] = cps(rng.choice(["prefix", "suffix"]))
        it["p"] = [[cps(rng.choice(AFFIX_M)), cps(rng.choice(AFFIX_R))] for _ in range(rng.choice([0, 1, 2, 3]))]
    return it


def gen_morph(rng, bad=0.1):
    k = rng.choice(["letterset", "wildcard"])
    units = MORPH_CHARS + (MORPH_BAD if rng.random() < 3 * bad else [])
    chars = pick_units(rng, units, [1, 1, 2, 3, 5])
    var = ("!" if k == "letterset" else "?") + rng.choice(["a", "b", "v", "1", "!", "?", "é"])
    return {"k": k, "var": cps(var), "chars": cps(chars)}


def gen_comment(rng):
    if rng.random() < 0.5:
        return {"k": "lcomment", "s": cps(pick_units(rng, [u for u in COMMENT_UNITS], [0, 1, 2, 3, 5]))}
    s = pick_units(rng, COMMENT_UNITS + ["\n", "\n  "], [0, 1, 2, 3, 5])
    return {"k": "bcomment", "s": cps(s)}


def regex_blowup(text):
    """the lexer's regex alternative `\\^([^$\\\\]*(?:\\\\.|[^$\\\\]*)*)\\$` backtracks exponentially when it is tried at a `^`
    that has no unescaped `$` after it on the same line (nested stars): such malformed lines of more than a dozen
    characters are kept out of the `lex` cases (they are not formatter output; the real lexer does not come back)"""
    for line in text.split("\n"):
        for p_ in [i for i, ch in enumerate(line) if ch == "^"]:
            rest = re.sub(r"\\.", "", line[p_ + 1:])
            if "$" not in rest and len(line) - p_ > 12:
                return True
    return False


def block_comment_ok(s):
    """text a BlockComment can hold: the lexer's own scan of `#|s|#` returns s"""
    i = 0
    while i < len(s):
        if s.startswith("|#", i):
            return False
        i += 2 if s[i] == "\\" else 1
    return i == len(s)


def gen_simple_item(rng, depth=3):
    r = rng.random()
    if r < 0.62:
        return gen_def(rng, depth)
    if r < 0.74:
        return gen_morph(rng)
    if r < 0.82:
        return {"k": "include", "v": cps(rng.choice(INCLUDES))}
    while True:
        c = gen_comment(rng)
        if c["k"] == "lcomment" or block_comment_ok(uncps(c["s"])):
            return c


def gen_file(rng, depth=3, maxitems=4):
    """flat item list with balanced, possibly nested environments"""
    out = []

    def block(level):
        for _ in range(rng.choice([0, 1, 1, 2, maxitems])):
            if level < 2 and rng.random() < 0.18:
                inst = rng.random() < 0.6
                out.append({"k": "begin", "inst": inst, "status": cps(rng.choice(STATUS)) if inst else None})
                block(level + 1)
                out.append({"k": "end", "inst": inst})
            else:
                out.append(gen_simple_item(rng, depth))
    block(0)
    if not out:
        out.append(gen_simple_item(rng, depth))
    return out


# --------------------------------------------------------------------------- long files (LookaheadIterator buffer)

LONG_MIXES = ["amp", "paths", "lists", "docs", "envs"]


def _I(s_, d=None):
    return {"k": "id", "d": None if d is None else cps(d), "s": cps(s_)}


def _S(s_):
    return {"k": "str", "d": None, "s": cps(s_)}


def _C(s_):
    return {"k": "co", "d": None, "s": cps(s_)}


def _avm(fv, d=None):
    return {"k": "avm", "d": None if d is None else cps(d), "f": [[[cps(c) for c in p.split(".")], v] for p, v in fv]}


def _conj(*ts):
    return {"k": "conj", "t": list(ts)}


def _cons(vs, e="closed"):
    return {"k": "cons", "d": None, "v": list(vs), "e": e}


def _diff(vs):
    return {"k": "diff", "d": None, "v": list(vs)}


def _td(name, ts, d=None, kind="typedef"):
    return {"k": kind, "id": cps(name), "t": ts, "d": None if d is None else cps(d)}


def long_entities(mix, i):
    """the i-th block of entities of a mix (deterministic; entities differ in shape with i so that every
    kind of token falls on every alignment as the leading comment run grows)"""
    n = "t%d" % i
    if mix == "amp":
        k = 2 + i % 5
        return [_td(n, [_I("s%d" % j) for j in range(k)] + [_avm([("F", _conj(*[_I("v%d" % j) for j in range(1 + i % 4)]
                                                                                 ) if i % 4 else _I("v"))])])]
    if mix == "paths":
        depth = 1 + i % 4
        path = ".".join(["A", "B", "C", "D"][:depth])
        return [_td(n, [_I("s"), _avm([(path, _I("x")), ("E.F", _conj(_I("y"), _C("z"))),
                                       ("G", _avm([("H.I", _S("q")), ("J", _avm([]))]))][: 1 + i % 3])])]
    if mix == "lists":
        m = i % 7
        items = [_I("a%d" % j) if j % 2 else _conj(_I("b"), _C("c%d" % j)) for j in range(m)]
        return [_td(n, [_I("s"), _avm([("L", _cons(items, ["closed", "open", "closed", "open"][i % 4])),
                                       ("M", _diff(items[:i % 4])),
                                       ("N", _cons([_I("a")] + items[:i % 3], _C("r")))][: 1 + i % 3])])]
    if mix == "docs":
        r = i % 4
        if r == 0:
            return [_td(n, [_I("s", "doc of s"), _avm([("F", _I("x", "inner\n  doc \"\"\" q"))])], "def doc %d" % i)]
        if r == 1:
            return [_td(n, [], "only a docstring", kind="addendum")]
        if r == 2:
            it = _td(n, [_I("s"), _avm([("A.B", _S("x"))])], kind="lexrule")
            it["a"] = cps("suffix")
            it["p"] = [[cps("!a"), cps("!as")], [cps("*"), cps("s")]][: 1 + i % 2]
            return [it]
        return [_td(n, [_avm([("A", _I("x"))], "avm doc"), _I("u")], kind="addendum")]
    if mix == "envs":
        r = i % 5
        if r == 0:
            return [{"k": "begin", "inst": True, "status": cps("lex-rule")}, _td(n, [_I("s"), _avm([("A.B", _I("x"))])]),
                    {"k": "letterset", "var": cps("!a"), "chars": cps("ab)c d")}, {"k": "end", "inst": True}]
        if r == 1:
            return [{"k": "begin", "inst": False, "status": None}, {"k": "begin", "inst": True, "status": cps("rule")},
                    _td(n, [_I("s")]), {"k": "end", "inst": True}, {"k": "include", "v": cps("inc%d" % i)},
                    {"k": "end", "inst": False}]
        if r == 2:
            return [{"k": "bcomment", "s": cps(" block %d " % i)}, _td(n, [_I("s"), _I("u")])]
        if r == 3:
            return [{"k": "wildcard", "var": cps("?x"), "chars": cps("xyz")}, {"k": "include", "v": cps("f%d" % i)}]
        return [_td(n, [_I("s"), _avm([("L", _cons([_I("a"), _I("b")]))])], "d")]
    raise ValueError(mix)


# --------------------------------------------------------------------------- building real objects

def b_term(j):
    k = j["k"]
    if k == "hist":
        return b_val(j)
    d = None if j.get("d") is None else uncps(j["d"])
    if k == "id":
        return tdl.TypeIdentifier(uncps(j["s"]), docstring=d)
    if k == "str":
        return tdl.String(uncps(j["s"]), docstring=d)
    if k == "re":
        return tdl.Regex(uncps(j["s"]), docstring=d)
    if k == "co":
        return tdl.Coreference(uncps(j["s"]), docstring=d)
    if k == "avm":
        fv = [(".".join(uncps(c) for c in p), b_val(v)) for p, v in j["f"]]
        # both documented argument forms: a sequence of pairs, or (when the paths are distinct and the
        # choice, a function of the spec, falls that way) a mapping
        names = [p.upper() for p, _ in fv]
        if fv and len(set(names)) == len(names) and sum(len(p) for p in names) % 3 == 0:
            return tdl.AVM(dict(fv), docstring=d)
        return tdl.AVM(fv, docstring=d)
    if k == "cons":
        e = j["e"]
        end = tdl.EMPTY_LIST_TYPE if e == "closed" else tdl.LIST_TYPE if e == "open" else b_val(e)
        return tdl.ConsList([b_val(v) for v in j["v"]], end=end, docstring=d)
    if k == "diff":
        return tdl.DiffList([b_val(v) for v in j["v"]], docstring=d)
    raise ValueError(k)


def b_val(j):
    if j["k"] == "conj":
        return tdl.Conjunction([b_term(t) for t in j["t"]])
    if j["k"] == "hist":
        obj = b_val(j["base"])
        for op in j["ops"]:
            obj = apply_op(obj, op)
        return obj
    return b_term(j)


def _plain_path(obj, path):
    """raise _Exotic unless the assignment/deletion stays inside plain AVMs (or ends in a constructor error)"""
    cur = obj
    if isinstance(cur, tdl.Conjunction):
        avms = [t for t in cur.terms if isinstance(t, tdl.AVM)]
        if not avms:
            return
        cur = avms[-1]
    if type(cur) is not tdl.AVM:
        raise _Exotic()
    for comp in path[:-1]:
        nxt = cur._avm.get(uncps(comp).upper())
        if nxt is None:
            return
        if isinstance(nxt, (tdl.TypeTerm, tdl.Coreference)):
            return
        if type(nxt) is not tdl.AVM:
            raise _Exotic()
        cur = nxt


def apply_op(obj, op):
    """one public mutator call"""
    name = op[0]
    if name == "set":
        _plain_path(obj, op[1])
        obj[".".join(uncps(c) for c in op[1])] = b_val(op[2])
    elif name == "del":
        if isinstance(obj, tdl.Conjunction) and any(isinstance(t, (tdl.ConsList, tdl.DiffList)) for t in obj.terms):
            raise _Exotic()
        _plain_path(obj, op[1])
        del obj[".".join(uncps(c) for c in op[1])]
    elif name == "normalize":
        obj.normalize()
    elif name == "append":
        obj.append(b_val(op[1]))
    elif name == "terminate":
        e = op[1]
        obj.terminate(tdl.EMPTY_LIST_TYPE if e == "closed" else tdl.LIST_TYPE if e == "open" else b_val(e))
    elif name == "add":
        obj.add(b_val(op[1]))
    elif name == "and":
        obj = obj & b_val(op[1])
    else:
        raise ValueError(name)
    return obj


def b_item(j):
    k = j["k"]
    d = None if j.get("d") is None else uncps(j["d"])
    if k in ("typedef", "addendum", "lexrule"):
        conj = tdl.Conjunction([b_term(t) for t in j["t"]])
        if k == "typedef":
            td = tdl.TypeDefinition(uncps(j["id"]), conj, docstring=d)
        elif k == "addendum":
            td = tdl.TypeAddendum(uncps(j["id"]), conj, docstring=d)
        else:
            td = tdl.LexicalRuleDefinition(uncps(j["id"]), uncps(j["a"]), [(uncps(m), uncps(r)) for m, r in j["p"]],
                                           conj, docstring=d)
        for op in j.get("ops", []):
            if op[0] == "set":
                if any(isinstance(t, (tdl.ConsList, tdl.DiffList)) for t in td.conjunction.terms):
                    raise _Exotic()
                _plain_path(td.conjunction, op[1])
                td[".".join(uncps(c) for c in op[1])] = b_val(op[2])
            elif op[0] == "del":
                if any(isinstance(t, (tdl.ConsList, tdl.DiffList)) for t in td.conjunction.terms):
                    raise _Exotic()
                _plain_path(td.conjunction, op[1])
                del td[".".join(uncps(c) for c in op[1])]
            elif op[0] == "normalize":
                td.conjunction.normalize()
            else:
                raise ValueError(op[0])
        return td
    if k == "letterset":
        return tdl.LetterSet(uncps(j["var"]), uncps(j["chars"]))
    if k == "wildcard":
        return tdl.WildCard(uncps(j["var"]), uncps(j["chars"]))
    if k == "include":
        return tdl.FileInclude(uncps(j["v"]), basedir="")
    if k == "lcomment":
        return tdl.LineComment(uncps(j["s"]))
    if k == "bcomment":
        return tdl.BlockComment(uncps(j["s"]))
    raise ValueError(k)


def b_tree(items, with_comments=True):
    """flat items -> list of top-level objects (environments nested as real objects)"""
    top = []
    stack = [top]
    envs = []
    for j in items:
        if j["k"] == "begin":
            env = (tdl.InstanceEnvironment(uncps(j["status"]) if j["status"] is not None else None)
                   if j["inst"] else tdl.TypeEnvironment())
            env.entries = []
            stack[-1].append(env)
            stack.append(env.entries)
            envs.append(env)
        elif j["k"] == "end":
            stack.pop()
        else:
            if not with_comments and j["k"] in ("lcomment", "bcomment") and len(stack) > 1:
                continue
            stack[-1].append(b_item(j))
    return top


# --------------------------------------------------------------------------- canonical dumps

def ndoc(d):
    if d is None:
        return None
    try:
        return cps(tdl._format_docstring(d, 0)[3:-3])
    except IndexError:
        return {"err": "IndexError"}


def unindent(c):
    """contents of a docstring as the lexer returns it, without the indentation the formatter
    put after every newline (plain string operation; raw text if it is not of that shape)"""
    k = len(c) - len(c.rstrip(" "))
    if not c.startswith("\n") or not c.endswith("\n" + " " * k):
        return c
    lines = c.split("\n")
    if any(not l.startswith(" " * k) for l in lines[1:]):
        return c
    return "\n".join([lines[0]] + [l[k:] for l in lines[1:]])


def rdoc(d):
    return None if d is None else cps(unindent(d))


def avm_keys(a):
    return a._feats if len(a._feats) == len(a._avm) else list(a._avm)


def d_term(t, ndoc=ndoc):
    doc = ndoc(t.docstring)
    if isinstance(t, tdl.ConsList):
        vals = t.values()
        if not t.terminated:
            e = "open"
        elif t._avm is not None and t[t._last_path] is not None:
            e = d_val(vals[-1], ndoc)
            vals = vals[:-1]
        else:
            e = "closed"
        return {"k": "cons", "d": doc, "v": [d_val(v, ndoc) for v in vals], "e": e}
    if isinstance(t, tdl.DiffList):
        return {"k": "diff", "d": doc, "v": [d_val(v, ndoc) for v in t.values()]}
    if isinstance(t, tdl.AVM):
        return {"k": "avm", "d": doc, "f": [[cps(k), d_val(t._avm[k], ndoc)] for k in avm_keys(t)]}
    if isinstance(t, tdl.TypeIdentifier):
        return {"k": "id", "d": doc, "s": cps(str(t))}
    if isinstance(t, tdl.String):
        return {"k": "str", "d": doc, "s": cps(str(t))}
    if isinstance(t, tdl.Regex):
        return {"k": "re", "d": doc, "s": cps(str(t))}
    if isinstance(t, tdl.Coreference):
        return {"k": "co", "d": doc, "s": cps("" if t.identifier is None else t.identifier)}
    raise TypeError(type(t))


def d_val(v, ndoc=ndoc):
    if isinstance(v, tdl.Conjunction):
        return {"k": "conj", "t": [d_term(t, ndoc) for t in v.terms]}
    return d_term(v, ndoc)


def d_obj(o, ndoc=ndoc):
    if isinstance(o, tdl.LexicalRuleDefinition):
        return {"k": "lexrule", "id": cps(o.identifier), "a": cps(o.affix_type),
                "p": [[cps(m), cps(r)] for m, r in o.patterns],
                "t": [d_term(t, ndoc) for t in o.conjunction.terms], "d": ndoc(o.docstring)}
    if isinstance(o, tdl.TypeAddendum):
        return {"k": "addendum", "id": cps(o.identifier), "t": [d_term(t, ndoc) for t in o.conjunction.terms],
                "d": ndoc(o.docstring)}
    if isinstance(o, tdl.TypeDefinition):
        return {"k": "typedef", "id": cps(o.identifier), "t": [d_term(t, ndoc) for t in o.conjunction.terms],
                "d": ndoc(o.docstring)}
    if isinstance(o, tdl.LetterSet):
        return {"k": "letterset", "var": cps(o.var), "chars": cps(o.characters)}
    if isinstance(o, tdl.WildCard):
        return {"k": "wildcard", "var": cps(o.var), "chars": cps(o.characters)}
    if isinstance(o, tdl.FileInclude):
        return {"k": "include", "v": cps(o.value)}
    if isinstance(o, tdl.LineComment):
        return {"k": "lcomment", "s": cps(str(o))}
    if isinstance(o, tdl.BlockComment):
        return {"k": "bcomment", "s": cps(str(o))}
    raise TypeError(type(o))


def s_doc(d):
    return None if d is None else cps(d)


def s_term(t):
    """constructor spec of a real term: what it is, not how it came about"""
    doc = s_doc(t.docstring)
    if isinstance(t, tdl.ConsList):
        vals = t.values()
        if not t.terminated:
            e = "open"
        elif t._avm is not None and t[t._last_path] is not None:
            e = s_val(vals[-1])
            vals = vals[:-1]
        else:
            e = "closed"
        return {"k": "cons", "d": doc, "v": [s_val(v) for v in vals], "e": e}
    if isinstance(t, tdl.DiffList):
        return {"k": "diff", "d": doc, "v": [s_val(v) for v in t.values()]}
    if isinstance(t, tdl.AVM):
        return {"k": "avm", "d": doc, "f": [[[cps(k)], s_val(t._avm[k])] for k in t._avm]}
    kind = {tdl.TypeIdentifier: "id", tdl.String: "str", tdl.Regex: "re"}.get(type(t))
    if kind:
        return {"k": kind, "d": doc, "s": cps(str(t))}
    return {"k": "co", "d": doc, "s": cps(t.identifier)}


def s_val(v):
    if isinstance(v, tdl.Conjunction):
        return {"k": "conj", "t": [s_term(t) for t in v.terms]}
    return s_term(v)


def rebuilt_in_one_go(o):
    """a fresh TypeDefinition with the same structure, made by one constructor call per node"""
    ts = tdl.Conjunction([b_term(s_term(t)) for t in o.conjunction.terms])
    if isinstance(o, tdl.LexicalRuleDefinition):
        return tdl.LexicalRuleDefinition(o.identifier, o.affix_type, list(o.patterns), ts, docstring=o.docstring)
    return type(o)(o.identifier, ts, docstring=o.docstring)


def d_env_begin(env):
    if isinstance(env, tdl.InstanceEnvironment):
        return {"k": "begin", "inst": True, "status": None if env.status is None else cps(env.status)}
    return {"k": "begin", "inst": False, "status": None}


def d_flat(objs, ndoc=ndoc):
    out = []
    for o in objs:
        if isinstance(o, tdl._Environment):
            out.append(d_env_begin(o))
            out.extend(d_flat(o.entries, ndoc))
            out.append({"k": "end", "inst": isinstance(o, tdl._Environment) and isinstance(o, tdl.InstanceEnvironment)})
        else:
            out.append(d_obj(o, ndoc))
    return out


def d_events(events):
    out = []
    for ev, obj, _ in events:
        if ev == "BeginEnvironment":
            out.append(d_env_begin(obj))
        elif ev == "EndEnvironment":
            out.append({"k": "end", "inst": isinstance(obj, tdl.InstanceEnvironment)})
        else:
            out.append(d_obj(obj, s_doc))
    return out


def d_leaf(v, ndoc=ndoc):
    return None if v is None else d_val(v, ndoc)


def d_expand(o, ndoc=ndoc):
    if not isinstance(o, tdl.TypeDefinition):
        return None
    return [[[cps(c) for c in p.split(".")], d_leaf(v, ndoc)] for p, v in o.features(expand=True)]


def d_toks(text):
    out = []
    for gid, tok, _ in tdl._lex(io.StringIO(text)):
        out.append([gid, cps(tok)])      # docstrings raw: the model knows the indentation of every place
    return out


EXC = (tdl.TDLSyntaxError, tdl.TDLError, tfs.TFSError, IndexError, KeyError, TypeError, AssertionError, ValueError)


def exc_name(e):
    return type(e).__name__


def rebuild_from_events(events):
    """objects to format again: definitions etc. as parsed; environments rebuilt from the event
    stream so that comments stay where they were read"""
    top = []
    stack = [top]
    for ev, obj, _ in events:
        if ev == "BeginEnvironment":
            env = (tdl.InstanceEnvironment(obj.status) if isinstance(obj, tdl.InstanceEnvironment)
                   else tdl.TypeEnvironment())
            env.entries = []
            stack[-1].append(env)
            stack.append(env.entries)
        elif ev == "EndEnvironment":
            stack.pop()
        else:
            stack[-1].append(obj)
    return top


def fmt_all(objs):
    return "\n".join(tdl.format(o) for o in objs) + "\n"


# --------------------------------------------------------------------------- naive helpers of the oracle

def naive_lines(d):
    """independent restatement of what a docstring says: its dedented lines, blank lines at the
    beginning and at the end not counted (white space = ' ' and newline only).  Whether blank edge
    lines drift from one formatting to the next is decided by the text-equality clauses."""
    L = d.split("\n")
    L = ["" if l.strip(" ") == "" else l for l in L]
    ind = [len(l) - len(l.lstrip(" ")) for l in L if l != ""]
    m = min(ind) if ind else 0
    L = [l[m:] for l in L]
    while L and L[0] == "":
        L = L[1:]
    while L and L[-1] == "":
        L = L[:-1]
    return L


def align_escaped(orig, got):
    """`got` equals `orig` except for backslashes inserted directly before a double quote"""
    i = j = 0
    while i < len(orig) and j < len(got):
        if orig[i] == got[j]:
            i += 1
            j += 1
        elif got[j] == "\\" and j + 1 < len(got) and got[j + 1] == '"':
            j += 1
        else:
            return False
    return i == len(orig) and j == len(got)


def doc_equiv(o, p):
    if o is None or p is None:
        return o is None and p is None
    lo, lp = naive_lines(o), naive_lines(p)
    return len(lo) == len(lp) and all(align_escaped(a, b) for a, b in zip(lo, lp))


def same_val(a, b, where):
    """independent structural comparison of two real objects; returns None or a description"""
    if isinstance(a, tdl.Conjunction) and len(a.terms) == 1 and not isinstance(b, tdl.Conjunction):
        a = a.terms[0]
    if isinstance(b, tdl.Conjunction) and len(b.terms) == 1 and not isinstance(a, tdl.Conjunction):
        b = b.terms[0]
    if isinstance(a, tdl.Conjunction) or isinstance(b, tdl.Conjunction):
        if not (isinstance(a, tdl.Conjunction) and isinstance(b, tdl.Conjunction)):
            return where + ": conjunction vs term"
        if len(a.terms) != len(b.terms):
            return where + ": number of terms"
        for i, (x, y) in enumerate(zip(a.terms, b.terms)):
            r = same_val(x, y, "%s&%d" % (where, i))
            if r:
                return r
        return None
    if a is None or b is None:
        return None if a is b else where + ": None vs value"
    ca = "AVM" if type(a) is tdl._ImplicitAVM else type(a).__name__
    cb = "AVM" if type(b) is tdl._ImplicitAVM else type(b).__name__
    if ca != cb:
        return "%s: class %s vs %s" % (where, ca, cb)
    if not doc_equiv(a.docstring, b.docstring):
        return where + ": docstring"
    if isinstance(a, tdl.TypeTerm):
        return None if str(a) == str(b) else where + ": text"
    if isinstance(a, tdl.Coreference):
        return None if a.identifier == b.identifier else where + ": coreference"
    if isinstance(a, (tdl.ConsList, tdl.DiffList)):
        va, vb = a.values(), b.values()
        if len(va) != len(vb):
            return where + ": list length"
        if isinstance(a, tdl.ConsList) and a.terminated != b.terminated:
            return where + ": open/closed"
        for i, (x, y) in enumerate(zip(va, vb)):
            r = same_val(x, y, "%s<%d>" % (where, i))
            if r:
                return r
        if isinstance(a, tdl.ConsList):
            da = a.terminated and a._avm is not None and a[a._last_path] is not None
            db = b.terminated and b._avm is not None and b[b._last_path] is not None
            if da != db:
                return where + ": dotted end"
        return None
    ka, kb = avm_keys(a), avm_keys(b)
    if list(ka) != list(kb):
        return where + ": feature names"
    for k in ka:
        r = same_val(a[k], b[k], where + "." + k)
        if r:
            return r
    return None


def same_obj(a, b):
    if type(a) is not type(b):
        return "entity class %s vs %s" % (type(a).__name__, type(b).__name__)
    if isinstance(a, tdl.TypeDefinition):
        if a.identifier != b.identifier:
            return "identifier"
        if not doc_equiv(a.docstring, b.docstring):
            return "definition docstring"
        if isinstance(a, tdl.LexicalRuleDefinition):
            if a.affix_type != b.affix_type or [tuple(p) for p in a.patterns] != [tuple(p) for p in b.patterns]:
                return "affix patterns"
        if len(a.conjunction.terms) != len(b.conjunction.terms):
            return "number of top-level terms"
        for i, (x, y) in enumerate(zip(a.conjunction.terms, b.conjunction.terms)):
            r = same_val(x, y, "term%d" % i)
            if r:
                return r
        return None
    if isinstance(a, tdl._MorphSet):
        return None if (a.var, a.characters) == (b.var, b.characters) else "letter-set/wild-card value"
    if isinstance(a, tdl.FileInclude):
        return None if (a.value, a.path.name) == (b.value, b.path.name) else "include value"
    return None if str(a) == str(b) else "comment text"


def leaves_same(fa, fb):
    if [p for p, _ in fa] != [p for p, _ in fb]:
        return "paths differ: %r vs %r" % ([p for p, _ in fa], [p for p, _ in fb])
    for (p, x), (_, y) in zip(fa, fb):
        r = same_val(x, y, p)
        if r:
            return r
    return None


def rand_case(rng_seed, s):
    out = []
    x = rng_seed
    for c in s:
        x = (x * 1103515245 + 12345) & 0x7FFFFFFF
        out.append(c.upper() if (x >> 16) & 1 else c.lower())
    return "".join(out)


# --------------------------------------------------------------------------- neutralising known classes

def unwrap_unit_conj(j, feature=False, end=False):
    """spec without one-term Conjunction objects around an AVM in feature-value position or around
    a list-type name at the end of a dotted list"""
    j = dict(j)
    k = j["k"]
    if k == "hist":
        j["base"] = unwrap_unit_conj(j["base"], feature, end)
        j["ops"] = [[op[0]] + [unwrap_unit_conj(x, op[0] == "set") if isinstance(x, dict) else x for x in op[1:]]
                    for op in j["ops"]]
        return j
    if k == "conj":
        if feature and len(j["t"]) == 1 and j["t"][0]["k"] == "avm" and j["t"][0].get("d") is None:
            return unwrap_unit_conj(j["t"][0], True)
        if end and len(j["t"]) == 1 and j["t"][0]["k"] in ("id", "str", "re") \
                and uncps(j["t"][0]["s"]).lower() in ("*list*", "*null*"):
            return j["t"][0]
        j["t"] = [unwrap_unit_conj(t) for t in j["t"]]
    elif k == "avm":
        j["f"] = [[p, unwrap_unit_conj(v, True)] for p, v in j["f"]]
    elif k in ("cons", "diff"):
        j["v"] = [unwrap_unit_conj(v) for v in j["v"]]
        if k == "cons" and isinstance(j["e"], dict):
            j["e"] = unwrap_unit_conj(j["e"], end=True)
    return j


def map_items(case, f_term=None, f_item=None):
    c = copy.deepcopy(case)
    out = []
    for it in c["items"]:
        if f_item is not None:
            it = f_item(it)
            if it is None:
                continue
        if f_term is not None and "t" in it:
            it["t"] = [f_term(t) for t in it["t"]]
        out.append(it)
    c["items"] = out
    return c


def obj_has(o, pred):
    """walk a real term/value"""
    if isinstance(o, tdl.Conjunction):
        return any(obj_has(t, pred) for t in o.terms)
    if o is None:
        return False
    if pred(o):
        return True
    if isinstance(o, (tdl.ConsList, tdl.DiffList)):
        return any(obj_has(v, pred) for v in o.values())
    if isinstance(o, tdl.AVM):
        return any(obj_has(o._avm[k], pred) for k in (o._avm or {}))
    return False


def is_list_type_term(t):
    if isinstance(t, tdl.TypeIdentifier):
        return t.lower() in (tdl.LIST_TYPE, tdl.EMPTY_LIST_TYPE)
    return isinstance(t, (tdl.String, tdl.Regex)) and str(t) in (tdl.LIST_TYPE, tdl.EMPTY_LIST_TYPE)


def has_triv_conj(o):
    def pred(t):
        if isinstance(t, tdl.ConsList) and t.terminated and t._avm is not None:
            e = t[t._last_path]
            if isinstance(e, tdl.Conjunction) and len(e.terms) == 1 and is_list_type_term(e.terms[0]):
                return True
        if type(t) in (tdl.AVM, tdl._ImplicitAVM):
            for k in t._avm:
                v = t._avm[k]
                if (isinstance(v, tdl.Conjunction) and len(v.terms) == 1
                        and type(v.terms[0]) is tdl.AVM and len(v.terms[0]._avm) == 1
                        and v.terms[0].docstring is None):
                    return True
        return False
    return obj_has(o, pred)


# --------------------------------------------------------------------------- the check

class C15(Check):
    pid = "C15"
    props_modules = ["Verif.C15.Props", "Verif.C15.PropsText", "Verif.C15.PropsLex"]
    quick_cases = 700
    thorough_cases = 8000
    rule = ("flat item lists (type definitions, addenda, lexical rules with affix patterns, letter-sets, wild-cards, "
            "includes, line/block comments, nested :type/:instance environments) whose bodies are term trees to depth 3 "
            "(quick) / 4 (thorough): conjunctions (also one-term Conjunction objects), AVMs with dotted paths of 1-4 "
            "names (shared prefixes merge), cons lists closed/open/dotted with 0-8 items and long identifiers so that "
            "inline and broken layouts occur, diff lists, coreferences, strings/regexes over escape-rich alphabets, "
            "docstrings with quotes, quote runs, backslashes, blank lines and indentation; AVMs built from pair lists and from "
            "mappings; lists of 16, 65 and 200 items; every text also read without final newline, with CRLF line ends, "
            "with blank lines around it and as a UTF-16 file (iterparse encoding option, Path argument); docstring/escape cases "
            "exhaustive over {\", \\, a, LF} up to length 5; mutated token streams for the parser's error branches; "
            "path set/get cases with random letter case; constructor histories (AVMs, ConsLists, Conjunctions and definition "
            "bodies built by __setitem__/__delitem__ with plain and dotted paths in varying letter case, re-setting deleted or "
            "existing features, append/terminate, add/&, normalize) compared with the same structure built in one go; "
            "deterministic blocks for define-delete-define, falsy dotted list ends and backslash runs before quote runs in "
            "docstrings; in every run 288 long files (>1024, >2048, >4096 lexer tokens; 41-484 "
            "entities; five entity mixes: & chains, dotted paths, lists, docstrings/addenda/lexical rules, environments) "
            "preceded by k=0..40 one-token line comments so that every later token is swept against the 1024-token "
            "look-ahead buffer boundaries (k step 1 for >1024, step 4 for the larger ones in the quick tier). Non-trivial = has at least one term or character; distinct by "
            "JSON text.")
    assumptions = [
        "white space inside docstrings and letter-set/affix texts is ' ' and LF only (textwrap.dedent with tabs, "
        "str.splitlines on other separators and \\s on other white space are not modelled)",
        "feature names are ASCII (Python str.upper on non-ASCII is not modelled)",
        "String/Regex/comment texts are in the lexer's own source form (no raw '\"' in a String, no '|#' in a block "
        "comment): DESIGN C15 'Reading'",
        "comments inside definitions are not generated (the parser drops them by design)",
        "the text layout (line breaks, indentation, inline/broken lists against the 79-column width) IS modelled "
        "(Text.lean: fmtFile) and compared character by character with tdl.format on every entity; the link from that "
        "text to the token stream is the real lexer (compared, not proved); identifiers are non-empty (the width "
        "computation of _format_conjunction raises ValueError on an empty term text)",
        "long files of more than 2048 tokens are oracle-only (not sent to the Lean model); the token buffer of "
        "util.LookaheadIterator is not modelled (the model parser works on a plain token list)",
        "the regex-based lexer IS modelled at character level (Lex.lean: the 30 alternatives in source order) and compared "
        "with tdl._lex on every formatted text and on character-mutated texts; that it returns the formatter's token stream "
        "for EVERY file is proved per token class only (identifier, string, regex, coreference, docstring)",
    ]
    trusted_base = ["hand-written model lean/Verif/C15/Model.lean, tied to delphin.tdl/tfs by the correspondence run "
                    "(the formatter's text character by character, first and second; tokens of the real lexer on that "
                    "text with raw docstrings, parsed structure with raw docstrings, second tokens, expanded "
                    "features, constructor results, docstring formatting/escaping/scanning, parser errors on mutated "
                    "token streams)"]

    # ---- pins: source constants that the hand-written model mirrors (checked inside Lean on every run)
    MESSAGE = re.compile(r"^(un)?expected|^Expected|^unterminated|^invalid|^[Cc]annot|^Empty list must|^no supertypes|"
                         r"^no AVM|^not a valid|^Subtype operator|^Single-quoted|; Continuing|^ or $|object at feature|"
                         r"does not support|^docstring$|^block comment$")

    @staticmethod
    def strip_verbose(pat):
        """remove what re.VERBOSE ignores: white space and #-comments outside character classes"""
        out = []
        i = 0
        in_class = False
        while i < len(pat):
            c = pat[i]
            if c == "\\":
                out.append(pat[i:i + 2])
                i += 2
                continue
            if in_class:
                out.append(c)
                if c == "]":
                    in_class = False
            elif c == "[":
                in_class = True
                out.append(c)
                if pat[i + 1:i + 2] == "^":
                    out.append("^")
                    i += 1
                if pat[i + 1:i + 2] == "]":
                    out.append("]")
                    i += 1
            elif c.isspace():
                pass
            elif c == "#":
                while i < len(pat) and pat[i] != "\n":
                    i += 1
                continue
            else:
                out.append(c)
            i += 1
        return "".join(out)

    def fn_consts(self, fn):
        import types

        def walk(code):
            out = []
            for c in code.co_consts:
                if isinstance(c, types.CodeType):
                    out += walk(c)
                elif isinstance(c, bool) or c is None:
                    continue
                elif isinstance(c, (int, float)):
                    out.append(str(c))
                elif isinstance(c, str):
                    if c == fn.__doc__ or self.MESSAGE.search(c):
                        continue        # docstrings and exception/warning texts are not pinned
                    out.append(c)
            return out
        return walk(fn.__code__)

    def tables(self):
        from .common import tables as T
        lit = T.lean_strlit
        fns = [("tdl." + n, getattr(tdl, n)) for n in (
            "_is_comment", "_shift", "_lex", "_bounded", "_parse_tdl", "_parse_tdl_definition", "_parse_letterset",
            "_parse_tdl_affixes", "_parse_tdl_conjunction", "_parse_tdl_term", "_parse_tdl_feature_structure",
            "_parse_tdl_list", "_parse_tdl_begin_environment", "_parse_tdl_end_environment", "_parse_tdl_include",
            "_format_term", "_format_string", "_format_regex", "_format_coref", "_format_avm", "_format_conslist",
            "_format_difflist", "_format_conjunction", "_format_typedef", "_format_typedef_body", "_format_docstring",
            "_escape_docstring", "_format_morphset", "_format_environment", "_format_include", "_format_linecomment",
            "_format_blockcomment", "_collect_list_items")]
        fns += [("tdl.ConsList.append", tdl.ConsList.append), ("tdl.ConsList.terminate", tdl.ConsList.terminate),
                ("tdl.DiffList.__init__", tdl.DiffList.__init__), ("tdl.AVM.features", tdl.AVM.features),
                ("tdl.Coreference.__str__", tdl.Coreference.__str__),
                ("tfs.FeatureStructure.__setitem__", tfs.FeatureStructure.__setitem__),
                ("tfs.FeatureStructure.__getitem__", tfs.FeatureStructure.__getitem__),
                ("tfs.FeatureStructure._is_notable", tfs.FeatureStructure._is_notable),
                ("tfs.FeatureStructure.features", tfs.FeatureStructure.features)]
        defaults = [("tdl.ConsList.__init__", tdl.ConsList.__init__), ("tdl.DiffList.__init__", tdl.DiffList.__init__),
                    ("tdl.format", tdl.format), ("tdl._peek", tdl._peek), ("tdl.AVM.features", tdl.AVM.features),
                    ("tfs.FeatureStructure.features", tfs.FeatureStructure.features),
                    ("tdl.TypeAddendum.__init__", tdl.TypeAddendum.__init__)]
        lines = [
            "def c15LexPattern : String := %s" % lit(self.strip_verbose(tdl._tdl_lex_re.pattern)),
            "def c15LexFlags : Nat := %d" % int(tdl._tdl_lex_re.flags),
            "def c15LexGroups : Nat := %d" % tdl._tdl_lex_re.groups,
            "def c15IdentifierPattern : String := %s" % lit(tdl._identifier_pattern),
            "def c15Layout : List Nat := [%d, %d, %d]" % (tdl._base_indent, tdl._max_inline_list_items, tdl._line_width),
            "def c15ListNames : List String := [%s]" % ", ".join(lit(x) for x in (
                tdl.LIST_TYPE, tdl.EMPTY_LIST_TYPE, tdl.LIST_HEAD, tdl.LIST_TAIL, tdl.DIFF_LIST_LIST,
                tdl.DIFF_LIST_LAST)),
            "def c15Operators : List String := [%s]" % ", ".join(lit(c._operator) for c in (
                tdl.TypeDefinition, tdl.TypeAddendum, tdl.LexicalRuleDefinition)),
            "def c15Defaults : List (String × String) := [\n%s]" % ",\n".join(
                "  (%s, %s)" % (lit(n), lit(repr(f.__defaults__))) for n, f in defaults),
            "def c15Consts : List (String × List String) := [\n%s]" % ",\n".join(
                "  (%s, [%s])" % (lit(n), ", ".join(lit(c) for c in self.fn_consts(f))) for n, f in fns),
        ]
        return lines

    def setup(self):
        self.tmp = tempfile.mkdtemp(prefix="c15-", dir="/var/tmp")
        self.skips = {}
        self.no_request = 0

    def teardown(self):
        shutil.rmtree(getattr(self, "tmp", ""), ignore_errors=True)

    # ---- generators
    def cases(self, rng, tier, n):
        import itertools
        depth = 3 if tier == "quick" else 4
        L = 5 if tier == "quick" else 6
        alpha = ['"', "\\", "a", "\n"]
        k = 0
        for ln in range(0, L + 1):
            for tup in itertools.product(alpha, repeat=ln):
                s = "".join(tup)
                k += 1
                yield {"kind": "esc", "s": cps(s), "rest": cps(rng.choice(["", ".", "\"", "\"\"\" x", "\n a"])),
                       "close": 1}
                if ln <= 4:
                    yield {"kind": "doc", "doc": cps(s), "indent": (k % 4) * 2, "rest": cps(".")}
        for tup in itertools.product(["|", "#", "\\", "a"], repeat=4):
            yield {"kind": "esc", "s": cps("".join(tup)), "rest": cps(" x"), "close": 2}
        # every list shape of the ConsList table, and diff lists, by size
        a = {"k": "id", "d": None, "s": cps("a")}
        co = {"k": "co", "d": None, "s": cps("x")}
        for nn in range(0, 6):
            for end in ["closed", "open", co, {"k": "conj", "t": [co, a]}]:
                if isinstance(end, dict) and nn == 0:
                    continue
                lst = {"k": "cons", "d": None, "v": [a] * nn, "e": end}
                yield {"kind": "items", "items": [{"k": "typedef", "id": cps("t"), "d": None,
                                                   "t": [a, {"k": "avm", "d": None, "f": [[[cps("L")], lst]]}]}]}
            yield {"kind": "items", "items": [{"k": "typedef", "id": cps("t"), "d": None,
                                               "t": [a, {"k": "avm", "d": None,
                                                         "f": [[[cps("L")], {"k": "diff", "d": None, "v": [a] * nn}]]}]}]}
        # constructor histories: define / delete / define again (plain and dotted paths, any letter case)
        x, y, z = _I("x"), _I("y"), _I("z")

        def hist_case(base_fv, ops, item_ops=None):
            it = _td("t", [_I("s"), {"k": "hist", "base": _avm(base_fv), "ops": ops}])
            if item_ops:
                it["ops"] = item_ops
            return {"kind": "items", "hist": True, "items": [it]}
        P = lambda s_: [cps(c) for c in s_.split(".")]
        yield hist_case([("A", x), ("B", y)], [["del", P("A")], ["set", P("A"), z]])
        yield hist_case([("A", x), ("B", y)], [["del", P("a")], ["set", P("A"), z], ["del", P("A")], ["set", P("a"), x]])
        yield hist_case([("A", x), ("B", y)], [["set", P("a"), z], ["set", P("B"), z]])
        yield hist_case([("A.B", x), ("A.C", y), ("D", z)], [["del", P("A.B")], ["set", P("a.b"), z]])
        yield hist_case([("A.B", x), ("A.C", y), ("D", z)], [["del", P("A")], ["set", P("A.B"), z], ["set", P("A.C"), x]])
        yield hist_case([("A.B.C", x)], [["del", P("A.B.C")], ["set", P("A.B.C"), y], ["set", P("A.B.D"), z]])
        yield hist_case([("A", x), ("B", y)], [], [["del", P("A")], ["set", P("A"), z]])
        yield hist_case([("A", x), ("B", y), ("C", z)], [["del", P("B")], ["del", P("A")], ["set", P("B"), x],
                                                       ["set", P("A"), y], ["normalize"]])
        yield hist_case([("A", _conj(_avm([("B", x)])))], [["normalize"]])
        yield {"kind": "items", "hist": True, "items": [_td("t", [_I("s"), _avm([
            ("L", {"k": "hist", "base": _cons([], "open"), "ops": [["append", x], ["append", y], ["terminate", "closed"]]}),
            ("M", {"k": "hist", "base": _cons([x], "open"), "ops": [["append", y], ["terminate", _C("r")]]}),
            ("N", {"k": "hist", "base": _conj(x, _avm([("F", y)])), "ops": [["add", _C("c")], ["and", z], ["normalize"]]})])])]}
        # shapes of earlier seeded changes, kept deterministic
        yield {"kind": "items", "items": [_td("a", [_I("b"), _avm([("F", x)]), _I("c")]),
                                          _td("a", [_I("b"), _avm([("F", x)]), _C("r"), _S("q"), _avm([("G", y)]), _I("c")]),
                                          _td("a", [_avm([("F", x)]), _I("c")], kind="addendum")]}
        beg = lambda inst: {"k": "begin", "inst": inst, "status": cps("rule") if inst else None}
        end_ = lambda inst: {"k": "end", "inst": inst}
        yield {"kind": "items", "items": [beg(False), _td("a", [_I("b")]), beg(True), _td("c", [_I("d")]), beg(False),
                                          _td("e", [_I("f")]), end_(False), _td("g", [_I("h")]), end_(True),
                                          {"k": "include", "v": cps("x")}, _td("i", [_I("j")]), end_(False),
                                          _td("k", [_I("l")]), beg(True), end_(True), _td("m", [_I("n")])]}
        for empty in (_avm([]), _cons([], "closed"), _cons([], "open"), _diff([])):
            yield {"kind": "items", "items": [_td("t", [_I("s"), _avm([
                ("A", empty), ("B", _conj(empty)), ("C.D", empty), ("E.F.G", _conj(empty)), ("H", _conj(empty, x))])])]}
        long_id = "very-long-type-name-that-forces-line-breaks"
        for nn in (3, 4, 5, 8):
            for e in ("open", _C("r"), "closed"):
                yield {"kind": "items", "items": [_td("t", [_I("s"), _avm([("L", _cons([x] * nn, e))])])]}
        for e in ("open", _C("r")):
            yield {"kind": "items", "items": [_td("t", [_I("s"), _avm([("L", _cons([_I(long_id), _I(long_id)], e)),
                                                                   ("M", _diff([_I(long_id)] * 2))])])]}
        # the 79-column decision of _format_conslist / _format_difflist swept across its boundary: two and three
        # items whose joint width runs through 79 +-3 at the indentation of `t := s & [ L <here> ]`, and one step
        # further in (after `a & `, inside an environment) so that the running width of a conjunction counts too
        for total in range(62, 72):
            for mk in (lambda vs: _cons(vs, "closed"), lambda vs: _cons(vs, "open"), lambda vs: _cons(vs, _C("r")),
                       _diff):
                two = [_I("x" * 33), _I("y" * (total - 33))]
                three = [_I("x" * 20), _I("y" * 20), _I("z" * (total - 42))]
                yield {"kind": "items", "width": True, "items": [
                    _td("t", [_I("s"), _avm([("L", mk(two)), ("M", _conj(_I("a"), mk(three)))])]),
                    {"k": "begin", "inst": False, "status": None},
                    _td("u", [_I("s"), _avm([("L", mk(three)), ("M.N", _conj(_I("a"), mk(two)))])], "d"),
                    {"k": "end", "inst": False}]}
        # long lists (boundary sizes beyond anything the inline/broken layout needs)
        for nn in (16, 65, 200):
            its = [_I("a%d" % (j_ % 7)) if j_ % 5 else _conj(_I("b"), _C("c%d" % j_)) for j_ in range(nn)]
            yield {"kind": "items", "items": [_td("t", [_I("s"), _avm([("L", _cons(its, "closed")), ("M", _diff(its))])]),
                                              _td("u", [_I("s"), _avm([("L", _cons(its, "open")),
                                                                       ("N.O", _cons(its, _C("r")))])])]}
        # dotted lists whose end is "empty" in Python's sense
        for end in (_S(""), _cons([], "closed"), _diff([]), _cons([], "open"), _avm([]), {"k": "re", "d": None, "s": []}):
            for nn in (1, 2, 4):
                yield {"kind": "items", "items": [_td("t", [_I("s"), _avm([("L", _cons([x] * nn, end))])])]}
        # backslash runs directly before quote runs in docstrings (even and odd lengths)
        for nb in range(0, 5):
            for nq in range(1, 6):
                d = "a" + "\\" * nb + '"' * nq
                for tail in ("", "b", "\n"):
                    yield {"kind": "doc", "doc": cps(d + tail), "indent": 2, "rest": cps(".")}
                yield {"kind": "items", "items": [_td("t", [_I("s", d)], d + " z")]}
        # token streams for parser branches that random token mutation reaches only now and then (each compared with
        # the model): `:<`, quoted symbol, definition without supertype, bad letter-set, environment keyword errors,
        # include errors, list not closed after a dotted end, missing final dot, unexpected top-level token
        T = lambda *ts: {"kind": "toks", "toks": [[g, cps(t)] for g, t in ts]}
        a_, b_, dot, defop = (24, "a"), (24, "b"), (10, "."), (7, ":=")
        yield T(a_, (7, ":<"), b_, dot)
        yield T(a_, defop, (5, "sym"), (11, "&"), (13, "["), (16, "]"), dot)
        yield T(a_, defop, (13, "["), (24, "F"), (24, "x"), (16, "]"), dot)
        yield T(a_, (8, ":+"), (13, "["), (24, "F"), (24, "x"), (16, "]"), dot)
        yield T((20, "letter-set (a b)"))
        yield T((20, "wild-card (?a )"))
        yield T((25, ":begin"), (24, "x"))
        yield T((25, ":begin"), (27, ":type"), (24, "x"))
        yield T((25, ":begin"), (27, ":instance"), (24, "x"))
        yield T((25, ":begin"), (27, ":instance"), (28, ":status"), (24, "r"), (24, "x"))
        yield T((25, ":begin"), (27, ":instance"), dot, (26, ":end"), (27, ":type"), dot)
        yield T((25, ":begin"), (27, ":type"), dot, (26, ":end"), (27, ":instance"), dot)
        yield T((25, ":begin"), (27, ":type"), dot, (26, ":end"), (27, ":type"), (24, "x"))
        yield T((26, ":end"), (27, ":type"), dot)
        yield T((29, ":include"), (24, "x"), dot)
        yield T((29, ":include"), (4, "f"), (24, "x"))
        yield T(a_, defop, b_, (11, "&"), (15, "<"), a_, dot, b_, (24, "c"), (18, ">"), dot)
        yield T(a_, defop, b_, (11, "&"), (15, "<"), a_, (24, "c"), (18, ">"), dot)
        yield T(a_, defop, b_, (11, "&"), (14, "<!"), a_, (12, ","), (9, "..."), (17, "!>"), dot)
        yield T(a_, defop, b_, (11, "&"), (15, "<"), (9, "..."), a_, (18, ">"), dot)
        yield T(a_, defop, b_, (1, "doc"), (24, "c"))
        yield T(a_, defop, b_, (24, "c"))
        yield T(a_, b_)
        yield T(dot)
        yield T(a_, defop, b_, (11, "&"), (13, "["), (24, "F"), dot, (4, "s"), (16, "]"), dot)
        yield T(a_, defop, b_, (11, "&"), (13, "["), (4, "F"), (16, "]"), dot)
        yield T(a_, defop, b_, (11, "&"), (13, "["), (24, "F"), a_, (24, "G"), (16, "]"), dot)
        # the lexer alone on texts that are NOT what the formatter writes: formatted files with single characters
        # deleted / inserted / replaced (unterminated strings and docstrings, stray delimiters, glued tokens, keyword
        # prefixes, odd white space), compared with the character-level lexer model
        LEXPOOL = ['"', '"""', "#|", "|#", ";", "'", "^", "$", ":", ":=", ":<", ":+", "...", ".", "&", ",", "[", "<!", "<",
                   "]", "!>", ">", "#", "%", "%(", "%suffix", "%prefix ", "(", ")", "(a b)", "( a b)", "(a  b\\) c)", "/",
                   "\\", "\\\"", ":begin", ":beginx", ":end", ":type", ":instance", ":status", ":include", ":typ", "\t", "\n",
                   " ", "\u00a0", "\u2003", "\x0b", "\x1c", "x", "é", "!", "|", "=", "*", "a'b", "a#b", "%(letter-set (!a b))x",
                   "%(wild-card (?a b)) ", "% (x)", "%(x) )", "^a\\$b$", "^a\n", '"a\\', "''"]
        for t_ in LEXPOOL + [a_ + b_ for a_ in LEXPOOL[:30] for b_ in ("", " ", "x", ".")][:60]:
            if not regex_blowup(t_):
                yield {"kind": "lex", "text": cps(t_ + "\n")}
                yield {"kind": "lex", "text": cps("a := b & " + t_)}
        for _ in range(110):
            its = [it for it in gen_file(rng, 2, 2)]
            try:
                with warnings.catch_warnings():
                    warnings.simplefilter("ignore")
                    t_ = fmt_all(b_tree(its))
            except (_Exotic,) + EXC:
                continue
            if len(t_) > 1500:
                continue
            for _ in range(rng.choice([1, 1, 2, 3])):
                i_ = rng.randrange(len(t_) + 1)
                r_ = rng.random()
                if r_ < 0.35:
                    t_ = t_[:i_] + t_[i_ + 1:]
                elif r_ < 0.75:
                    t_ = t_[:i_] + rng.choice(LEXPOOL) + t_[i_:]
                else:
                    t_ = t_[:i_] + rng.choice(LEXPOOL) + t_[i_ + 1:]
            if not regex_blowup(t_):
                yield {"kind": "lex", "text": cps(t_)}
        # the public API around the modelled core (oracle only): format() of terms and conjunctions at an indentation,
        # & / add / get / [] / del / in / string / supertypes / documentation / len, constructor defaults and errors
        for i_ in range(12):
            yield {"kind": "api", "terms": [gen_term(rng, 2, 0.2) for _ in range(3)], "indent": [0, 1, 2, 3, 5, 8][i_ % 6]}
        # util.LookaheadIterator against a plain list (oracle only): next / peek with and without skip and drop, buffer
        # sizes 1..5 so that every refill position is crossed
        for i_ in range(60):
            data = [rng.choice([2, 3, 24, 24, 10, 11]) for _ in range(rng.choice([0, 1, 2, 3, 5, 8, 13]))]
            ops = []
            for _ in range(rng.choice([1, 3, 6, 10])):
                if rng.random() < 0.45:
                    ops.append(["next", rng.random() < 0.5])
                else:
                    ops.append(["peek", rng.choice([0, 0, 1, 1, 2, 3]), rng.random() < 0.6, rng.random() < 0.5])
            yield {"kind": "look", "n": 1 + i_ % 5, "data": data, "ops": ops}
        # long files: every later token swept against the 1024-token buffer boundaries of LookaheadIterator
        for target in ((1024, 2048, 4096) if tier == "quick" else (1024, 2048, 4096, 8192)):
            mixes = LONG_MIXES if target <= 2048 else LONG_MIXES[: 2 + (target == 4096)]
            for mi, mix in enumerate(mixes):
                ks = range(0, 41) if target == 1024 else range((mi * 3) % 4, 41, 4 if tier == "quick" else 1)
                for k in ks:
                    yield {"kind": "long", "mix": mix, "k": k, "target": target}
        yield from self.random_cases(rng, n, depth)

    _long_cache = {}

    def long_items(self, case):
        """k one-token line comments, then entities of the mix until the lexer has seen more than `target`
        tokens (plus a margin so that the boundary is crossed well inside the file)"""
        key = (case["mix"], case["target"])
        if key not in self._long_cache:
            items, ntok, i = [], 0, 0
            while ntok <= case["target"] + 80:
                block = long_entities(case["mix"], i)
                with warnings.catch_warnings():
                    warnings.simplefilter("ignore")
                    ntok += sum(1 for _ in tdl._lex(io.StringIO(fmt_all(b_tree(block)))))
                items.extend(block)
                i += 1
            self._long_cache[key] = (items, ntok)
        items, ntok = self._long_cache[key]
        return [{"k": "lcomment", "s": cps(" c%d" % j)} for j in range(case["k"])] + items

    MODEL_LONG_MAX = 2048

    @staticmethod
    def long_text_compared(case):
        """the interpreted driver needs ~0.1 s for the text of a long file: compared for every 8th alignment only
        (layout does not depend on the alignment; tokens, parsed items and expanded features are compared for all)"""
        return case["k"] % 8 == 0

    def model_expected(self, case, impl_res):
        if case["kind"] == "long" and isinstance(impl_res, dict) and not self.long_text_compared(case):
            return {k: v for k, v in impl_res.items() if k not in ("text", "text2", "lex")}
        return impl_res

    def random_cases(self, rng, n, depth, kinds=None):
        for _ in range(n):
            r = rng.random()
            kind = rng.choice(kinds) if kinds else None
            if kind == "items" or (kind is None and r < 0.5):
                yield {"kind": "items", "items": gen_file(rng, depth)}
            elif kind is None and r < 0.6:
                yield {"kind": "items", "hist": True, "items": [gen_hist_item(rng)]}
            elif kind == "toks" or (kind is None and r < 0.72):
                c = self.gen_toks_case(rng, depth)
                if c is not None:
                    yield c
            elif kind == "doc" or (kind is None and r < 0.82):
                yield {"kind": "doc", "doc": cps(gen_doc(rng)), "indent": rng.choice([0, 2, 2, 4, 7]),
                       "rest": cps(rng.choice(["", ".", " b.", "\"", "\n"]))}
            elif kind == "esc" or (kind is None and r < 0.88):
                close = rng.choice([1, 1, 2])
                units = DOC_UNITS if close == 1 else COMMENT_UNITS + ["\n", "\\", "|#"]
                yield {"kind": "esc", "s": cps(pick_units(rng, units, [0, 1, 2, 3, 5, 8])),
                       "rest": cps(rng.choice(["", ".", "\"", "|#", " x\n y"])), "close": close}
            else:
                yield self.gen_path_case(rng)

    def gen_path_case(self, rng):
        avm = gen_avm(rng, 2, 0.0)
        p = gen_path(rng)
        if avm["f"] and rng.random() < 0.5:
            # extend or reuse an existing path
            q = rng.choice(avm["f"])[0]
            p = q[:rng.randrange(1, len(q) + 1)] + (gen_path(rng) if rng.random() < 0.5 else [])
        seed = rng.randrange(1 << 30)
        g = [cps(rand_case(seed + i, uncps(c))) for i, c in enumerate(p)]
        if rng.random() < 0.15:
            g = gen_path(rng)
        return {"kind": "path", "avm": avm, "set": p, "val": gen_leaf(rng, 0.0), "get": g}

    def gen_toks_case(self, rng, depth):
        items = [it for it in gen_file(rng, depth, 2) if it["k"] not in ("lcomment", "bcomment")]
        try:
            with warnings.catch_warnings():
                warnings.simplefilter("ignore")
                text = fmt_all(b_tree(items))
                toks = [[g, unindent(t) if g == 1 else t] for g, t, _ in tdl._lex(io.StringIO(text))]
        except EXC:
            return None
        if not toks:
            return None
        pool = [[10, "."], [11, "&"], [12, ","], [13, "["], [16, "]"], [15, "<"], [18, ">"], [14, "<!"], [17, "!>"],
                [9, "..."], [24, "a"], [1, "doc"], [7, ":="], [7, ":<"], [8, ":+"], [5, "sym"], [19, "x"], [4, "s"],
                [25, ":begin"], [26, ":end"], [27, ":type"], [27, ":instance"], [28, ":status"], [29, ":include"],
                [23, "/"], [21, "suffix"], [22, "a b"], [20, "letter-set (!a ab)"], [20, "wild-card (?a ab)"],
                [20, "letter-set (!a a b)"], [24, "*list*"], [24, "*null*"]]
        for _ in range(rng.choice([0, 1, 1, 1, 2, 3])):
            i = rng.randrange(len(toks))
            op = rng.random()
            if op < 0.3:
                del toks[i]
            elif op < 0.5:
                toks.insert(i, list(toks[i]))
            elif op < 0.8:
                toks[i] = list(rng.choice(pool))
            elif op < 0.9 and len(toks) > 1:
                j = rng.randrange(len(toks))
                toks[i], toks[j] = toks[j], toks[i]
            else:
                toks = toks[:i]
            if not toks:
                return None
        return {"kind": "toks", "toks": [[g, cps(t)] for g, t in toks]}

    def search_cases(self, rng, tier, n, seeds):
        kinds = sorted({c["kind"] for c in seeds}) or None
        yield from self.random_cases(rng, n, 3, kinds)

    # ---- implementation
    def run_items(self, case):
        """everything the oracle and the correspondence need, computed once on the real code"""
        with warnings.catch_warnings():
            warnings.simplefilter("ignore")
            out = {}
            try:
                objs = b_tree(case["items"])
            except _Exotic:
                return {"construct": "unmodelled"}, None
            except EXC as e:
                return {"construct": exc_name(e)}, None
            out["orig"] = d_flat(objs)
            before = d_flat(objs, s_doc)
            try:
                text1 = fmt_all(objs)
            except EXC as e:
                out["fmt"] = {"err": exc_name(e)}
                return out, {"objs": objs}
            aux = {"objs": objs, "text1": text1, "changed_by_format": d_flat(objs, s_doc) != before}
            out["text"] = cps(text1)
            try:
                out["toks"] = d_toks(text1)
            except EXC as e:
                out["toks"] = {"err": exc_name(e)}
            out["lex"] = out["toks"]     # the lexer model run on the model's text must return the real tokens
            fn = os.path.join(self.tmp, "c.tdl")
            with open(fn, "w", encoding="utf-8", newline="\n") as f:
                f.write(text1)
            try:
                events = list(tdl.iterparse(fn))
            except EXC as e:
                out["parsed"] = out["toks2"] = out["expand2"] = out["text2"] = {"err": exc_name(e)}
                out["expand"] = [d_expand(o) for o in self.flat_objs(objs)]
                return out, aux
            aux["events"] = events
            out["parsed"] = d_events(events)
            if len(text1) < self.VARIANT_MAX:
                aux["variants"] = self.text_variants(text1)
            out["expand"] = [d_expand(o) for o in self.flat_objs(objs)]
            out["expand2"] = [d_expand(o, s_doc) if ev not in ("BeginEnvironment", "EndEnvironment") else None
                              for ev, o, _ in events]
            try:
                text2 = fmt_all(rebuild_from_events(events))
                aux["text2"] = text2
                out["text2"] = cps(text2)
                out["toks2"] = d_toks(text2)
            except EXC as e:
                out["toks2"] = out["text2"] = {"err": exc_name(e)}
            return out, aux

    VARIANT_MAX = 6000

    def text_variants(self, text1):
        """the same text as other files: without the final newline (what `f.write(tdl.format(x))` leaves), with CRLF
        line ends, with blank lines around it, in another encoding (option `encoding` of iterparse, path given as a
        Path object); each parsed by the public entry point; returns [(name, dump of the events | error name)]"""
        body = text1[:-1] if text1.endswith("\n") else text1
        variants = [("no-final-newline", body.encode("utf-8"), "utf-8"),
                    ("crlf", text1.replace("\n", "\r\n").encode("utf-8"), "utf-8"),
                    ("blank-lines-around", ("\n\n" + text1 + "\n  \n\n").encode("utf-8"), "utf-8"),
                    ("utf-16", text1.encode("utf-16"), "utf-16")]
        out = []
        for name, data, enc in variants:
            fn = Path(self.tmp) / ("v-%s.tdl" % name)
            fn.write_bytes(data)
            try:
                out.append((name, d_events(list(tdl.iterparse(fn, encoding=enc) if enc != "utf-8"
                                                 else tdl.iterparse(fn)))))
            except EXC as e:
                out.append((name, {"err": exc_name(e)}))
        return out

    @staticmethod
    def flat_objs(objs):
        out = []
        for o in objs:
            if isinstance(o, tdl._Environment):
                out.append(None)
                out.extend(C15.flat_objs(o.entries))
                out.append(None)
            else:
                out.append(o)
        return out

    def impl(self, case):
        k = case["kind"]
        if k == "items":
            out, aux = self.run_items(case)
            self._aux = (id(case), aux)
            return out
        if k == "long":
            out, aux = self.run_items({"kind": "items", "items": self.long_items(case)})
            self._aux = (id(case), aux)
            if case["target"] > self.MODEL_LONG_MAX:
                # oracle only: keep the observation small
                return {"tokens": len(out.get("toks", [])) if isinstance(out.get("toks"), list) else out.get("toks"),
                        "events": len(out["parsed"]) if isinstance(out.get("parsed"), list) else out.get("parsed")}
            return out
        if k == "toks":
            toks = [(g, uncps(t), 1) for g, t in case["toks"]]
            with warnings.catch_warnings():
                warnings.simplefilter("ignore")
                try:
                    events = list(tdl._parse_tdl(util.LookaheadIterator(iter(toks)), Path("x.tdl")))
                    return d_events(events)
                except EXC as e:
                    return {"err": exc_name(e)}
        if k == "lex":
            try:
                return d_toks(uncps(case["text"]))
            except EXC as e:
                return {"err": exc_name(e)}
        if k == "api":
            return self.run_api(case)
        if k == "look":
            return self.run_look(case)
        if k == "doc":
            try:
                c = tdl._format_docstring(uncps(case["doc"]), case["indent"])[3:-3]
            except IndexError:
                return {"fmt": {"err": "IndexError"}}
            return {"fmt": cps(c), "scan": self.real_scan('"""', c + '"""' + uncps(case["rest"]))}
        if k == "esc":
            s = uncps(case["s"])
            rest = uncps(case["rest"])
            close = '"""' if case["close"] == 1 else "|#"
            e = tdl._escape_docstring(s)
            return {"esc": cps(e), "scan": self.real_scan(close, s + close + rest),
                    "escscan": self.real_scan('"""', e + '"""' + rest)}
        if k == "path":
            try:
                avm = b_term(case["avm"])
            except EXC as e:
                return {"construct": exc_name(e)}
            v = b_val(case["val"])
            try:
                avm[".".join(uncps(c) for c in case["set"])] = v
            except EXC as e:
                return {"set": {"err": exc_name(e)}}
            avm.docstring = None
            try:
                out = {"set": d_term(avm)}
            except EXC:
                return {"set": {"err": "unmodelled"}}    # a list object was mutated by the assignment
            try:
                got = avm[".".join(uncps(c) for c in case["get"])]
            except EXC as e:
                out["get"] = {"err": exc_name(e)}
            else:
                try:
                    out["get"] = d_leaf(got)
                except (AttributeError,) + EXC:
                    out["get"] = {"err": "unmodelled"}   # internal list structure (FIRST/REST, None tails) read out
            return out
        raise ValueError(k)

    # ---- public API battery (oracle only)
    def run_api(self, case):
        """observations of the real API; every entry is [name, observed, expected] with the expectation restated
        naively from the documentation of the method"""
        obs = []

        def ob(name, f, want):
            try:
                with warnings.catch_warnings():
                    warnings.simplefilter("ignore")
                    got = f()
            except (AttributeError, StopIteration) + EXC as e:
                got = "raises " + exc_name(e)
            obs.append([name, got if isinstance(got, (str, int, bool, list, type(None))) else repr(got), want])
        k = case["indent"]
        try:
            T = [b_term(t) for t in case["terms"]]
        except (_Exotic,) + EXC:
            return {"obs": []}
        specs = [json.dumps(s_term(t)) for t in T]
        sp = lambda v: json.dumps(s_val(v))
        fn = os.path.join(self.tmp, "api.tdl")

        def reparse(text):
            with open(fn, "w", encoding="utf-8") as f:
                f.write(text)
            evs = list(tdl.iterparse(fn))
            return evs[0][1]
        # format(term, indent) / format(conjunction, indent): read back inside an addendum
        for i, t in enumerate(T):
            ob("format(term,%d) parses back" % k,
               lambda: same_val(tdl.Conjunction([t]), reparse("t :+ " + tdl.format(t, k) + ".\n").conjunction, "t"), None)
            ob("format(term,%d) twice" % k, lambda: tdl.format(t, k) == tdl.format(t, k), True)
            ob("format(parsed term,%d) same text" % k, lambda: tdl.format(
                reparse(" " * k + "t :+\n" + " " * k + tdl.format(t, k) + ".\n").conjunction.terms[0], k) == tdl.format(t, k)
                or has_triv_conj(tdl.Conjunction([t])), True)
        conj = tdl.Conjunction(T)
        ob("format(conjunction,%d) parses back" % k,
           lambda: same_val(conj, reparse("t :+ " + tdl.format(conj, k) + ".\n").conjunction, "c"), None)
        ob("format(empty conjunction)", lambda: tdl.format(tdl.Conjunction()), "")
        ob("format(non-TDL object)", lambda: tdl.format(object()), "raises ValueError")
        ob("format(bare Term)", lambda: tdl.format(tdl.Term()), "raises TDLError")
        ob("_format_docstring(None)", lambda: tdl._format_docstring(None, k), "")
        # & and add
        ob("term & term", lambda: [json.dumps(s_term(x)) for x in (T[0] & T[1]).terms], specs[:2])
        ob("term & conj", lambda: [json.dumps(s_term(x)) for x in (T[0] & tdl.Conjunction(T[1:])).terms], specs)
        ob("conj & term", lambda: [json.dumps(s_term(x)) for x in (tdl.Conjunction(T[:2]) & T[2]).terms], specs)
        ob("conj & conj", lambda: [json.dumps(s_term(x)) for x in (tdl.Conjunction(T[:1]) & tdl.Conjunction(T[1:])).terms], specs)
        ob("term & 5", lambda: T[0] & 5, "raises TypeError")
        ob("conj & 5", lambda: tdl.Conjunction(T) & 5, "raises TypeError")
        ob("conj.add(5)", lambda: tdl.Conjunction(T).add(5), "raises TypeError")
        ob("& leaves operands alone", lambda: [json.dumps(s_term(x)) for x in T], specs)
        ob("Conjunction([t]) == t", lambda: tdl.Conjunction([tdl.TypeIdentifier("a")]) == tdl.TypeIdentifier("A"), True)
        ob("Conjunction == Conjunction", lambda: tdl.Conjunction([tdl.String("a")]) == tdl.Conjunction([tdl.String("a")]), True)
        ob("Conjunction == 5", lambda: tdl.Conjunction([tdl.String("a")]) == 5, False)
        ob("TypeIdentifier == str in other case", lambda: tdl.TypeIdentifier("Ab") == "aB", True)
        ob("TypeIdentifier != str in other case", lambda: tdl.TypeIdentifier("Ab") != "aB", False)
        ob("TypeIdentifier == String", lambda: tdl.TypeIdentifier("a") == tdl.String("a"), False)
        ob("TypeIdentifier != String", lambda: tdl.TypeIdentifier("a") != tdl.String("a"), True)
        ob("String == String", lambda: [tdl.String("a") == tdl.String("a"), tdl.String("a") == tdl.String("A"),
                                        tdl.String("a") != tdl.String("A"), tdl.String("a") == tdl.Regex("a"),
                                        tdl.String("a") != tdl.Regex("a")], [True, False, True, False, True])
        # item access through a conjunction with two AVMs
        x, y, z = tdl.TypeIdentifier("x"), tdl.TypeIdentifier("y"), tdl.String("z")
        c2 = tdl.Conjunction([x, tdl.AVM([("A.B", y)]), z, tdl.AVM([("A.B", z), ("C", x)])])
        ob("conj[two AVMs]", lambda: [json.dumps(s_term(t_)) for t_ in c2["a.b"].terms], [json.dumps(s_term(y)), json.dumps(s_term(z))])
        ob("conj[one AVM] is the value", lambda: c2["c"] is x, True)
        ob("conj[missing]", lambda: c2["D"], "raises KeyError")
        ob("conj.get(missing)", lambda: c2.get("D", 7), 7)
        ob("conj.get(missing dotted)", lambda: c2.get("a.q"), None)
        ob("missing in conj", lambda: ["D" in c2, "a.q" in c2, "a.b" in c2, "c.d" in c2], [False, False, True, False])
        ob("del conj[missing]", lambda: c2.__delitem__("D"), "raises KeyError")
        ob("conj.string()", lambda: [c2.string(), tdl.Conjunction([x]).string()], ["z", None])
        ob("conj.types()", lambda: [str(t_) for t_ in c2.types()], ["x", "z"])
        td = tdl.TypeDefinition("t", tdl.Conjunction([tdl.TypeIdentifier("x", docstring="dx"), tdl.AVM([("A", y)], docstring="da")]),
                                docstring="dt")
        ob("supertypes", lambda: [str(t_) for t_ in td.supertypes], ["x"])
        ob("documentation", lambda: [td.documentation(), td.documentation("TOP"),
                                     tdl.TypeDefinition("t", tdl.Conjunction([x])).documentation(),
                                     tdl.TypeDefinition("t", tdl.Conjunction([x]), docstring="q").documentation("first")],
           ["dx", ["dx", "da", "dt"], None, "q"])
        ob("del td[last] then in", lambda: (td.__delitem__("a"), "A" in td)[1], False)
        # lists
        ob("ConsList() is the open empty list", lambda: [tdl.format(tdl.ConsList()), len(tdl.ConsList()),
                                                         tdl.ConsList().terminated, tdl.ConsList().values()], ["< ... >", 0, False, []])
        ob("len(ConsList)", lambda: [len(tdl.ConsList(T, end=tdl.EMPTY_LIST_TYPE)), len(tdl.ConsList(T)),
                                     len(tdl.ConsList(T, end=tdl.Coreference("r"))), len(tdl.DiffList(T)), len(tdl.DiffList())],
           [3, 3, 4, 3, 0])
        cl = tdl.ConsList(T, end=tdl.EMPTY_LIST_TYPE)
        ob("terminate a closed list", lambda: cl.terminate(tdl.LIST_TYPE), "raises TDLError")
        ob("append to a closed list", lambda: cl.append(x), "raises TDLError")
        ob("closed list unchanged by the failed calls", lambda: [tdl.format(cl) == tdl.format(tdl.ConsList(T, end=tdl.EMPTY_LIST_TYPE)),
                                                                  len(cl.values())], [True, 3])
        ob("empty list with a dotted end", lambda: tdl.ConsList([], end=tdl.Coreference("r")), "raises TDLError")
        ob("Coreference(None)", lambda: [str(tdl.Coreference(None)), tdl.format(tdl.Coreference(None))], ["", "#"])
        # AVM value type check leaves the AVM unchanged
        avm = tdl.AVM([("A", x)])
        ob("AVM[...] = 'str'", lambda: avm.__setitem__("B.C", "str"), "raises TypeError")
        ob("AVM unchanged by the failed assignment", lambda: [tdl.format(avm), "B" in avm], ["[ A x ]", False])
        ob("AVM[...] = None", lambda: (avm.__setitem__("N", None), avm["n"])[1], None)
        ob("FeatureStructure ==", lambda: [tfs.FeatureStructure([("A.B", 1)]) == tfs.FeatureStructure({"a": tfs.FeatureStructure([("b", 1)])}),
                                           tfs.FeatureStructure([("A", 1)]) == tfs.FeatureStructure([("A", 2)]),
                                           tfs.FeatureStructure() == 5], [True, False, False])
        # addendum without conjunction argument
        ob("TypeAddendum(id, docstring=...)", lambda: same_obj(tdl.TypeAddendum("a", docstring="d"),
                                                               reparse(tdl.format(tdl.TypeAddendum("a", docstring="d")) + "\n")), None)
        # errors of the public entry point carry the file name
        def err_filename(text):
            try:
                reparse(text)
            except tdl.TDLSyntaxError as e:
                return os.path.basename(str(e.filename))
            return "no error"
        ob("syntax error names the file", lambda: [err_filename("a := [ F x ].\n"), err_filename("a := b"), err_filename("a := b & ].")],
           ["api.tdl"] * 3)
        ob("normalize on a conjunction holding a bare Term", lambda: tdl.Conjunction([tdl.Term()]).normalize(), "raises TDLError")
        ob("excessively nested text", lambda: reparse("a := b & " + "[ A " * 600 + "x" + " ]" * 600 + ".\n"), "raises TDLError")
        ob(":< is read as :=", lambda: same_obj(reparse("a :< b & [ F x ].\n"), reparse("a := b & [ F x ].\n")), None)
        ob("'sym is read as sym", lambda: same_obj(reparse("a := 'b & [ F 'x ].\n"), reparse("a := b & [ F x ].\n")), None)
        return {"obs": obs}

    def run_look(self, case):
        """util.LookaheadIterator and a plain list side by side; the history stops at the first StopIteration (what is
        left in the buffer after a failed peek is not part of any contract)"""
        skip = lambda d: 2 <= d[0] <= 3
        data = [(g, i) for i, g in enumerate(case["data"])]
        it = util.LookaheadIterator(iter(list(data)), n=case["n"])
        rest = list(data)
        out = []
        for op in case["ops"]:
            if op[0] == "next":
                if op[1]:
                    while rest and skip(rest[0]):
                        rest.pop(0)
                want = list(rest.pop(0)) if rest else "StopIteration"
                try:
                    got = list(it.next(skip=skip if op[1] else None))
                except StopIteration:
                    got = "StopIteration"
            else:
                _, n, sk, drop = op
                if not sk:
                    # (beyond the end of a non-empty rest the code raises IndexError, not StopIteration: a quirk of a
                    # call form that tdl.py never uses - it always peeks with skip - so it is mirrored, not judged)
                    want = list(rest[n]) if n < len(rest) else "IndexError" if rest else "StopIteration"
                else:
                    idx = [i for i, d in enumerate(rest) if not skip(d)]
                    if n < len(idx):
                        want = list(rest[idx[n]])
                        if drop:
                            rest = [d for i, d in enumerate(rest) if i > idx[n] or not skip(d)]
                    else:
                        want = "StopIteration"
                try:
                    got = list(it.peek(n=n, skip=skip if sk else None, drop=drop))
                except StopIteration:
                    got = "StopIteration"
                except IndexError:
                    got = "IndexError"
            out.append([op, got, want])
            if isinstance(got, str) or isinstance(want, str):
                break
        return {"steps": out}

    @staticmethod
    def real_scan(close, text):
        """tdl._bounded on `text` (the opening delimiter already consumed)"""
        if text == "":
            return None
        lines = text.split("\n")
        lines = [l + "\n" for l in lines[:-1]] + ([lines[-1]] if lines[-1] != "" else [])
        it = enumerate(lines[1:], 2)
        try:
            s, _, _, line, pos = tdl._bounded('"""' if close == '"""' else "#|", close, lines[0], 0, 1, it)
        except tdl.TDLSyntaxError:
            return None
        rest = line[pos:] + "".join(l for _, l in it)
        return [cps(s), cps(rest)]

    def model_request(self, case):
        k = case["kind"]
        if k == "items":
            return {"op": "items", "items": case["items"]}
        if k == "long":
            if case["target"] > self.MODEL_LONG_MAX:
                self.no_request += 1
                return None
            return {"op": "items", "items": self.long_items(case), "text": self.long_text_compared(case)}
        if k == "lex":
            return {"op": "lex", "text": case["text"]}
        if k == "toks":
            # Feature names are upper-cased by the code (str.upper, full Unicode) and by the model (ASCII letters only,
            # DESIGN §4).  A token stream carrying a non-ASCII letter that has an upper-case form is therefore outside
            # what the model defines: not compared (counted), still judged by the oracle.
            for _cls, cps in case["toks"]:
                if any(cp > 127 and chr(cp).upper() != chr(cp) for cp in cps):
                    self.no_request += 1
                    return None
            return {"op": "toks", "toks": case["toks"]}
        if k == "doc":
            return {"op": "doc", "doc": case["doc"], "indent": case["indent"], "rest": case["rest"]}
        if k == "esc":
            return {"op": "esc", "s": case["s"], "rest": case["rest"], "close": case["close"]}
        if k == "path":
            return {"op": "path", "avm": case["avm"], "set": case["set"], "val": case["val"], "get": case["get"]}
        return None

    def model_compare(self, case, expected, answer):
        """Only the key whose value is `unmodelled` (on either side) is left out; every other key of the
        case is still compared.  What was left out is counted and written into the evidence."""
        sk = self.skips
        if isinstance(answer, dict) and isinstance(expected, dict):
            answer = {k: v for k, v in answer.items() if k not in ("flags", "dangling")}
            dropped = [k for k in sorted(set(answer) | set(expected))
                       if '"unmodelled"' in json.dumps(answer.get(k)) or '"unmodelled"' in json.dumps(expected.get(k))]
            if "construct" in dropped:
                dropped = sorted(set(answer) | set(expected))   # the object itself is outside the model
            if "set" in dropped and case.get("kind") == "path" and "get" not in dropped:
                dropped.append("get")      # the state after an unmodelled assignment is unknown to the model
            if dropped:
                kind = case.get("kind", "?")
                for k in dropped:
                    key = "unmodelled-key:%s.%s" % (kind, k)
                    sk[key] = sk.get(key, 0) + 1
                answer = {k: v for k, v in answer.items() if k not in dropped}
                expected = {k: v for k, v in expected.items() if k not in dropped}
                if not answer and not expected:
                    sk["cases-with-nothing-compared:" + kind] = sk.get("cases-with-nothing-compared:" + kind, 0) + 1
                else:
                    sk["cases-partly-compared:" + kind] = sk.get("cases-partly-compared:" + kind, 0) + 1
        elif '"unmodelled"' in json.dumps(answer) or '"unmodelled"' in json.dumps(expected):
            sk["cases-with-nothing-compared:" + case.get("kind", "?")] = \
                sk.get("cases-with-nothing-compared:" + case.get("kind", "?"), 0) + 1
            return None
        return super().model_compare(case, expected, answer)

    def extra_evidence(self):
        out = dict(self.skips)
        out["cases-without-model-request:long(oracle only, > %d tokens) or token stream with a non-ASCII cased letter" % self.MODEL_LONG_MAX] = self.no_request
        return {"model_comparison_gaps": out}

    # ---- direct oracle
    def oracle(self, case, res):
        k = case["kind"]
        fails = []

        def fail(clause, detail):
            fails.append({"clause": clause, "detail": detail})
        if k == "long":
            aux = self._aux[1] if getattr(self, "_aux", (None, None))[0] == id(case) else None
            items = self.long_items(case)
            c2 = {"kind": "items", "items": items, "onego": False}
            if aux is None:
                _, aux = self.run_items(c2)
            self._aux = (id(c2), aux)
            fails = self.oracle(c2, res if "orig" in res else {})
            self._aux = (id(case), aux)
            ntok = sum(1 for _ in tdl._lex(io.StringIO(aux["text1"]))) if aux and "text1" in aux else 0
            if ntok <= case["target"]:
                fails.append({"clause": "harness: long file is not longer than its target", "detail": repr(ntok)})
            if aux and "events" in aux:
                want_n = len(items)
                if len(aux["events"]) != want_n:
                    fails.append({"clause": "parsed event kinds differ from the entities written",
                                  "detail": "expected %d events, got %d" % (want_n, len(aux["events"]))})
            return fails
        if k == "items":
            aux = None
            if getattr(self, "_aux", (None, None))[0] == id(case):
                aux = self._aux[1]
            else:
                _, aux = self.run_items(case)
            if aux is None:
                return fails          # constructor rejected the object: not an object of the quantifier
            if any(spec_exotic(t) for it in case["items"] for t in it.get("t", [])):
                return fails          # a list / Conjunction object was mutated by a path assignment
            objs = aux["objs"]
            if "text1" not in aux:
                fail("format raises on a TDL entity", json.dumps(res.get("fmt")))
                return fails
            text1 = aux["text1"]
            # however the object came about (constructor or a history of mutator calls), it is written like the
            # same structure built in one go
            for o in (self.flat_objs(objs) if case.get("onego", True) else []):
                if isinstance(o, tdl.TypeDefinition):
                    try:
                        with warnings.catch_warnings():
                            warnings.simplefilter("ignore")
                            t_hist, t_once = tdl.format(o), tdl.format(rebuilt_in_one_go(o))
                        if t_hist != t_once:
                            fail("an object built by a history of calls is written differently from the same "
                                 "structure built in one go", repr((t_hist, t_once))[:700])
                    except EXC as e:
                        fail("an object built by a history of calls is written differently from the same "
                             "structure built in one go", "rebuilding raises " + exc_name(e))
            if "events" not in aux:
                fail("formatted text does not parse", repr(text1)[:600])
                return fails
            events = aux["events"]
            # (1) same structure, entity by entity, on the event stream
            want = []

            def walk(os_):
                for o in os_:
                    if isinstance(o, tdl._Environment):
                        want.append(("BeginEnvironment", o))
                        walk(o.entries)
                        want.append(("EndEnvironment", o))
                    else:
                        want.append((type(o).__name__, o))
            walk(objs)
            got = [(ev, o) for ev, o, _ in events]
            if [e for e, _ in want] != [e for e, _ in got]:
                fail("parsed event kinds differ from the entities written",
                     repr(([e for e, _ in want], [e for e, _ in got])))
                return fails
            for i, ((ev, a), (_, b)) in enumerate(zip(want, got)):
                if ev in ("BeginEnvironment", "EndEnvironment"):
                    if type(a) is not type(b) or (isinstance(a, tdl.InstanceEnvironment)
                                                  and (a.status or "instance") != b.status):
                        fail("parsed environment differs", repr((i, type(a).__name__, getattr(a, "status", None),
                                                                 type(b).__name__, getattr(b, "status", None))))
                    continue
                r = same_obj(a, b)
                if r:
                    fail("parsed entity does not have the same structure", "item %d: %s; text: %s"
                         % (i, r, repr(text1)[:400]))
                if isinstance(a, tdl.TypeDefinition):
                    r = leaves_same(a.features(expand=True), b.features(expand=True))
                    if r:
                        fail("expanded feature list changed by the round trip", "item %d: %s" % (i, r))
                    # stored values are retrieved by their path in any letter case
                    for t in b.conjunction.terms:
                        if type(t) is tdl.AVM:
                            for n_, (fp, v) in enumerate(t.features()):
                                for q in (fp.lower(), fp.upper(), rand_case(i * 31 + n_, fp)):
                                    try:
                                        ok = t[q] is v and t.get(q) is v and q in t
                                    except EXC:
                                        ok = False
                                    if not ok:
                                        fail("a stored value is not retrieved by its path in another letter case",
                                             repr((fp, q)))
                        # ... and through the definition / its Conjunction when the body has exactly one AVM term
                        avms = [t for t in b.conjunction.terms if isinstance(t, tdl.AVM)]
                        if len(avms) == 1 and type(avms[0]) is tdl.AVM:
                            for n_, (fp, v) in enumerate(avms[0].features()):
                                q = rand_case(i * 17 + n_, fp)
                                try:
                                    ok = (v is None or (b[q] is v and b.conjunction[q] is v and b.conjunction.get(q) is v)) \
                                        and q in b and q in b.conjunction
                                except EXC:
                                    ok = False
                                if not ok:
                                    fail("a stored value is not retrieved by its path in another letter case",
                                         "through the definition: " + repr((fp, q)))
            # the same text as a file without final newline / with CRLF / with blank lines around / in UTF-16
            for name, dump in aux.get("variants", []):
                if dump != res.get("parsed"):
                    fail("the same text read from a file variant parses differently", "%s: %s" % (name, repr(dump)[:300]))
            if aux.get("changed_by_format"):
                fail("formatting changes the object that is formatted", repr(text1)[:300])
            # formatting does not change the object: the same objects give the same text again
            try:
                with warnings.catch_warnings():
                    warnings.simplefilter("ignore")
                    again = fmt_all(objs)
                if again != text1:
                    fail("formatting the same objects a second time gives a different text", repr((text1, again))[:600])
            except EXC as e:
                fail("formatting the same objects a second time gives a different text", "raises " + exc_name(e))
            # environments as parsed objects: entries (without comments) format to the same block
            wo = b_tree(case["items"], with_comments=False)
            penvs = [o for ev, o, _ in events if ev == "BeginEnvironment"]
            oenvs = []

            def envs_of(os_):
                for o in os_:
                    if isinstance(o, tdl._Environment):
                        oenvs.append(o)
                        envs_of(o.entries)
            envs_of(wo)
            for a, b in zip(oenvs, penvs):
                try:
                    with warnings.catch_warnings():
                        warnings.simplefilter("ignore")
                        if tdl.format(a) != tdl.format(b):
                            fail("formatting a parsed environment gives a different block",
                                 repr((tdl.format(a), tdl.format(b)))[:600])
                except EXC as e:
                    fail("formatting a parsed environment raises", exc_name(e))
            # (2) same text
            if "text2" not in aux:
                fail("formatting the parsed entities raises", json.dumps(res.get("toks2")))
            elif aux["text2"] != text1:
                fail("formatting the parsed entities gives a different text", repr((text1, aux["text2"]))[:900])
            else:
                # entity by entity too (indent 0)
                for (ev, a), (_, b) in zip(want, got):
                    if ev in ("BeginEnvironment", "EndEnvironment"):
                        continue
                    with warnings.catch_warnings():
                        warnings.simplefilter("ignore")
                        if tdl.format(a) != tdl.format(b):
                            fail("formatting one parsed entity gives a different text",
                                 repr((tdl.format(a), tdl.format(b)))[:600])
        elif k == "api":
            for name, got, want in res["obs"]:
                if got != want:
                    fail("public API around the TDL objects: " + name, repr((got, want))[:400])
        elif k == "look":
            for op, got, want in res["steps"]:
                if got != want:
                    fail("LookaheadIterator differs from a plain list", repr((case["n"], case["data"], op, got, want)))
        elif k == "doc":
            if "err" in (res["fmt"] if isinstance(res["fmt"], dict) else {}):
                fail("format raises on a TDL entity", "docstring " + repr(uncps(case["doc"])))
                return fails
            c = uncps(res["fmt"])
            rest = uncps(case["rest"])
            # the real lexer reads back exactly the contents
            text = 'a := b """' + c + '"""' + rest + "\n"
            try:
                toks = list(tdl._lex(io.StringIO(text)))
                if toks[3][0] != 1 or toks[3][1] != c:
                    fail("docstring contents are not read back by the lexer", repr((c, toks[3:5])))
            except EXC as e:
                if not (isinstance(e, tdl.TDLSyntaxError) and rest.startswith('"')):
                    fail("docstring contents are not read back by the lexer", repr((c, exc_name(e))))
            if res["scan"] != [cps(c), cps(rest)]:
                fail("docstring scan does not stop at the closing quotes", repr((c, res["scan"])))
            d = uncps(case["doc"])
            if not doc_equiv(d, c):
                fail("formatted docstring does not hold the documentation text", repr((d, c)))
            try:
                c2 = tdl._format_docstring(c, case["indent"])[3:-3]
                if c2 != c:
                    fail("formatting a read docstring again changes it", repr((c, c2)))
            except IndexError:
                fail("formatting a read docstring again raises", repr(c))
        elif k == "esc" and case["close"] == 1:
            s = uncps(case["s"])
            e = uncps(res["esc"])
            if tdl._escape_docstring(e) != e:
                fail("escaping an escaped docstring changes it", repr((s, e)))
            if not align_escaped(s, e):
                fail("escaping changes more than adding backslashes before quotes", repr((s, e)))
            # unless the text ends inside an escape, the escaped text is read back whole
            n = len(e) - len(e.rstrip("\\"))
            if n % 2 == 0 or "\n" in e[-1:]:
                if res["escscan"] != [cps(e), case["rest"]]:
                    fail("escaped docstring is not delimited by the closing quotes", repr((e, res["escscan"])))
        elif k == "path":
            if "set" in res and not (isinstance(res["set"], dict) and "err" in res["set"]):
                same = [uncps(a).upper() for a in case["set"]] == [uncps(a).upper() for a in case["get"]]
                # the clause is about FeatureStructure paths: every existing intermediate value is a plain AVM
                # (a Conjunction on the way answers with the conjunction of all its AVMs' values, by design)
                cur = b_term(case["avm"])
                for comp in case["set"][:-1]:
                    nxt = cur._avm.get(uncps(comp).upper()) if type(cur) is tdl.AVM else None
                    if nxt is None:
                        break
                    if type(nxt) is not tdl.AVM:
                        same = False
                        break
                    cur = nxt
                if same:
                    # independent: plain FeatureStructure with the same operations
                    avm = b_term(case["avm"])
                    v = b_val(case["val"])
                    avm[".".join(uncps(c) for c in case["set"])] = v
                    try:
                        gp = ".".join(uncps(c) for c in case["get"])
                        ok = avm[gp] is v and avm.get(gp) is v and gp in avm
                    except EXC:
                        ok = False
                    if not ok:
                        fail("a stored value is not retrieved by its path in another letter case",
                             repr((case["set"], case["get"])))
                    fs = tfs.FeatureStructure()
                    try:
                        fs[".".join(uncps(c) for c in case["set"])] = 1
                        if fs[".".join(uncps(c) for c in case["get"])] != 1:
                            fail("a stored value is not retrieved by its path in another letter case", "tfs")
                    except EXC as e:
                        fail("a stored value is not retrieved by its path in another letter case", "tfs " + exc_name(e))
        return fails

    # ---- known findings
    def classify(self, case, failure):
        """F44 only: the case holds a one-term Conjunction around a one-feature AVM without docstring in
        feature-value position (or around a list-type name as the end of a dotted list) AND the failure
        disappears when exactly those Conjunction wrappers are removed."""
        if case.get("kind") != "items":
            return None
        clause = failure["clause"]
        try:
            with warnings.catch_warnings():
                warnings.simplefilter("ignore")
                objs = [o for o in self.flat_objs(b_tree(case["items"])) if isinstance(o, tdl.TypeDefinition)]
        except EXC:
            return None
        if not any(has_triv_conj(o.conjunction) for o in objs):
            return None
        c2 = map_items(case, f_term=unwrap_unit_conj)
        r, aux = self.run_items(c2)
        self._aux = (id(c2), aux)
        if any(f["clause"] == clause for f in self.oracle(c2, r)):
            return None
        return "F44"

    # ---- evidence
    def nontrivial_key(self, case, res):
        if case["kind"] == "items" and not case["items"]:
            return None
        if case["kind"] in ("esc", "doc") and not (case.get("s") or case.get("doc")):
            return None
        return super().nontrivial_key(case, res)

    def stats(self, case, res, c):
        def inc(k, n=1):
            c[k] = c.get(k, 0) + n
        k = case["kind"]
        inc("kind:" + k)
        if k == "long":
            inc("long:%s:>%d" % (case["mix"], case["target"]))
            inc("long-model-compared" if case["target"] <= self.MODEL_LONG_MAX else "long-oracle-only")
            aux = self._aux[1] if getattr(self, "_aux", (None,))[0] == id(case) else None
            if aux and "events" in aux:
                inc("long-entities", len(aux["events"]))
            return
        if k == "items" and case.get("width"):
            inc("width-boundary-cases")
        if k == "items" and case.get("hist"):
            inc("history-cases")
            for op in re.findall(r'\["(set|del|normalize|append|terminate|add|and)"', json.dumps(case["items"])):
                inc("history-op:" + op)
        if k == "items":
            inc("items:%d" % min(len(case["items"]), 8))
            for it in case["items"]:
                inc("item:" + it["k"])

            def walk(j, depth):
                if isinstance(j, dict) and "k" in j:
                    inc("node:" + j["k"])
                    if j.get("d") is not None and j["k"] not in ("typedef", "addendum", "lexrule"):
                        inc("term-docstring")
                    if j["k"] in ("cons", "diff"):
                        inc("list-len:%d" % min(len(j["v"]), 8))
                        if j["k"] == "cons":
                            inc("cons-end:" + (j["e"] if isinstance(j["e"], str) else "dotted"))
                    if j["k"] == "avm":
                        for p, _ in j["f"]:
                            inc("path-len:%d" % len(p))
                        names = [".".join(uncps(c_) for c_ in p).upper() for p, _ in j["f"]]
                        if names and len(set(names)) == len(names) and sum(len(p) for p in names) % 3 == 0:
                            inc("avm-built-from-mapping")
                    if j["k"] in ("cons", "diff") and len(j["v"]) >= 16:
                        inc("list-len>=16")
                    c["max-depth"] = max(c.get("max-depth", 0), depth)
                    for v in j.values():
                        walk(v, depth + 1)
                elif isinstance(j, list):
                    for v in j:
                        walk(v, depth)
            walk(case["items"], 0)
            if isinstance(res, dict):
                if "construct" in res:
                    inc("construct-error:" + res["construct"])
                elif "fmt" in res:
                    inc("format-error:" + res["fmt"]["err"])
                else:
                    aux = self._aux[1] if getattr(self, "_aux", (None,))[0] == id(case) else None
                    if aux and "text1" in aux:
                        t = aux["text1"]
                        inc("text-lines", t.count("\n"))
                        if re.search(r"<!? [^<>\n]*,\n", t):
                            inc("broken-list-layout")
                        if re.search(r"<!? [^<>\n]+, [^<>\n]+ !?>", t):
                            inc("inline-list-layout")
                        if max(len(l) for l in t.split("\n")) > 79:
                            inc("line-over-79")
                        if '\\"' in t:
                            inc("text-with-escaped-quote")
                    if isinstance(res.get("parsed"), dict):
                        inc("parse-error:" + res["parsed"]["err"])
        elif k == "lex":
            inc("lex-result:" + (res["err"] if isinstance(res, dict) else "ok"))
            if not isinstance(res, dict):
                for g_, _ in res:
                    inc("lex-gid:%d" % g_)
        elif k == "api":
            inc("api-observations", len(res["obs"]))
        elif k == "look":
            for op, got, _ in res["steps"]:
                inc("look-op:%s%s" % (op[0], ":stop" if got == "StopIteration" else ""))
        elif k == "toks":
            inc("toks-result:" + (res["err"] if isinstance(res, dict) else "ok"))
        elif k == "doc":
            inc("doc-result:" + ("IndexError" if isinstance(res["fmt"], dict) else "ok"))
            d = uncps(case["doc"])
            if '"""' in d:
                inc("doc-with-triple-quote")
            if "\\" in d:
                inc("doc-with-backslash")
        elif k == "esc":
            inc("esc-scan:" + ("none" if res["scan"] is None else "ok"))
        elif k == "path":
            if "construct" in res:
                inc("path-construct-error:" + res["construct"])
            elif isinstance(res["set"], dict) and "err" in res["set"]:
                inc("path-set-error:" + res["set"]["err"])
            else:
                g = res.get("get")
                inc("path-get:" + (g["err"] if isinstance(g, dict) and "err" in g else "ok"))

    def shrink(self, case, still_fails):
        if case.get("kind") != "items":
            return case
        cur = case
        changed = True
        while changed:
            changed = False
            for i in range(len(cur["items"])):
                if cur["items"][i]["k"] in ("begin", "end"):
                    continue
                c2 = dict(cur)
                c2["items"] = cur["items"][:i] + cur["items"][i + 1:]
                try:
                    if c2["items"] and still_fails(c2):
                        cur = c2
                        changed = True
                        break
                except Exception:
                    pass
        return cur


CHECK = C15()
