"""C20 — commands.convert: document assembly, codec/converter selection, readers, error isolation.

Implementation runner, structured generators, the direct oracle (every clause of the property restated
naively on the real code) and the request builder for the Lean model (lean/Verif/C20)."""
import contextlib
import copy
import functools
import glob
import importlib
import io
import json
import logging
import os
import pathlib
import re
import shutil
import sys
import tempfile
import warnings
from unittest import mock

from .common import paths, semgen, tables
from .common.runner import Check
from . import integration

paths.ensure_repo_on_path()
import delphin.codecs  # noqa: E402
from delphin import commands, tsdb, util  # noqa: E402
from delphin.cli import convert as _cli  # noqa: E402
from delphin import dmrs as _dmrs  # noqa: E402
from delphin import eds as _eds  # noqa: E402
from delphin import mrs as _mrs  # noqa: E402
from delphin.exceptions import PyDelphinException  # noqa: E402
from delphin.lnk import Lnk  # noqa: E402

for _lg in ("delphin.commands", "delphin.codecs.dmrspenman", "delphin.codecs.edspenman"):
    logging.getLogger(_lg).setLevel(logging.CRITICAL)


def cps(s):
    return [ord(c) for c in s]


def uncps(a):
    return "".join(chr(x) for x in a)


class _Bound:
    """the indexedmrs module with the harness's SEM-I bound to its pickle-API functions"""
    def __init__(self, mod, semi):
        self._mod, self._semi = mod, semi

    def __getattr__(self, a):
        v = getattr(self._mod, a)
        if a in ("load", "loads", "decode", "dump", "dumps", "encode"):
            return functools.partial(v, semi=self._semi)
        return v


def _make_semi():
    """a SEM-I that licenses exactly the predicates of lead_item / gen_indexed_item (no variable properties)"""
    from delphin import semi as _semi
    preds = {}
    for i in range(8):
        roles = [{"name": "ARG0", "value": "e"}] + ([{"name": "ARG1", "value": "e"}] if i else [])
        preds["_p%d_v_1" % i] = {"parents": [], "synopses": [{"roles": roles}]}
    return _semi.SemI.from_dict({
        "variables": {"u": {"parents": []}, "i": {"parents": ["u"]}, "p": {"parents": ["u"]}, "h": {"parents": ["p"]},
                      "e": {"parents": ["i"]}, "x": {"parents": ["i", "p"]}},
        "properties": {}, "roles": {"ARG0": {"value": "i"}, "ARG1": {"value": "u"}}, "predicates": preds})


SEMI = _make_semi()


def codec(name):
    m = util.import_codec(name)
    return _Bound(m, SEMI) if name == "indexedmrs" else m


ALL_CODECS = sorted(util.namespace_modules(delphin.codecs))
REP = {n: codec(n).CODEC_INFO["representation"].lower() for n in ALL_CODECS}
READABLE = [n for n in ALL_CODECS if hasattr(codec(n), "load")]
WRITABLE = [n for n in ALL_CODECS if hasattr(codec(n), "encode")]
EXPORT_ONLY = [n for n in WRITABLE if n not in READABLE]
# indexedmrs needs a SEM-I matching every predicate and property list: not generated (see assumptions)
SOURCES = [n for n in READABLE if n != "indexedmrs"]
TARGETS = [n for n in WRITABLE if n != "indexedmrs"]
CONVERTIBLE = {("mrs", "dmrs"), ("dmrs", "mrs"), ("mrs", "eds")}
JSON_FAMILY = ("mrsjson", "dmrsjson", "edsjson")
XML_FAMILY = ("mrx", "dmrx")
# hyphenated / mixed-case spellings accepted by _parse_format_name
SPELLINGS = {
    "simplemrs": ["simplemrs", "simple-mrs", "SimpleMRS", "Simple-MRS"],
    "mrsjson": ["mrsjson", "mrs-json", "MRS-JSON"],
    "mrx": ["mrx", "MRX"],
    "mrsprolog": ["mrsprolog", "mrs-prolog"],
    "simpledmrs": ["simpledmrs", "simple-dmrs", "SimpleDMRS"],
    "dmrsjson": ["dmrsjson", "dmrs-json", "DMRS-JSON"],
    "dmrx": ["dmrx", "DMRX"],
    "dmrspenman": ["dmrspenman", "dmrs-penman"],
    "dmrstikz": ["dmrstikz", "dmrs-tikz"],
    "eds": ["eds", "EDS", "e-d-s"],
    "edsjson": ["edsjson", "eds-json"],
    "edspenman": ["edspenman", "eds-penman", "EDS-Penman"],
    "ace": ["ace", "ACE"],
    "indexedmrs": ["indexedmrs", "indexed-mrs"],
}
LINES_SPELLINGS = ["-lines", "-LINES", "-Lines"]


# (source that keeps a dangling link/edge, target whose encode raises KeyError on it)
ISOLATION_PAIRS = [("dmrsjson", "dmrspenman"), ("dmrx", "dmrspenman"), ("simpledmrs", "dmrstikz"), ("dmrsjson", "dmrstikz"),
                   ("edsjson", "eds"), ("edsjson", "edspenman")]


def norm_name(x):
    """documented normalisation of a format name: lower-case, '-lines' suffix, hyphens removed"""
    x = x.lower()
    lines = x.endswith("-lines")
    if lines:
        x = x[:len(x) - len("-lines")]
    return "".join(ch for ch in x if ch != "-"), lines


def naive_converter(src_rep, tgt_rep, predmod):
    """the oracle's own statement of which conversion belongs to a representation pair"""
    if src_rep == tgt_rep:
        return None
    if (src_rep, tgt_rep) == ("mrs", "dmrs"):
        return lambda m: _dmrs.from_mrs(m, representative_priority=None)
    if (src_rep, tgt_rep) == ("dmrs", "mrs"):
        return lambda d: _mrs.from_dmrs(d)
    if (src_rep, tgt_rep) == ("mrs", "eds"):
        return lambda m: _eds.from_mrs(m, predicate_modifiers=predmod)
    raise ValueError((src_rep, tgt_rep))


def supported(src, tgt):
    return REP[src] == REP[tgt] or (REP[src], REP[tgt]) in CONVERTIBLE


# ------------------------------------------------------------------ items: JSON <-> objects

def _lnk_j(l):
    if l is None or l.type != Lnk.CHARSPAN:
        return None
    return [l.data[0], l.data[1]]


def _lnk_o(j):
    """[a, b] = character span; {"k": "chart", "v": [a, b]} chart span; {"k": "tokens", "v": [..]} token list;
    {"k": "edge", "v": n} edge id.  Built with the Lnk class methods, never through the string parser."""
    if j is None:
        return None
    if isinstance(j, dict):
        if j["k"] == "chart":
            return Lnk.chartspan(j["v"][0], j["v"][1])
        if j["k"] == "tokens":
            return Lnk.tokens(list(j["v"]))
        if j["k"] == "edge":
            return Lnk.edge(j["v"])
        raise ValueError(j)
    return Lnk.charspan(j[0], j[1])


def _strip_kinds(j, units):
    """copy of the item description with the non-character lnks taken out (semgen builds character spans only)"""
    j2 = copy.deepcopy(j)
    for u in j2[units]:
        if isinstance(u.get("lnk"), dict):
            u["lnk"] = None
    return j2


# which Lnk kinds a format carries on predications / nodes (read off the codecs: the text formats write str(lnk), the
# XML and JSON formats only cfrom/cto resp. from/to); deliberately a literal table, not measured through the readers
TEXT_LNK_FORMATS = {"simplemrs", "simpledmrs", "eds", "edspenman", "ace"}
# targets that cannot take the non-character kinds at all (item-codec matters, kept out): DMRS-PENMAN's encoder raises
# ValueError on them; Indexed MRS writes str(lnk) but its lexer only knows <from:to>
NO_KIND_TARGETS = {"dmrspenman", "indexedmrs"}
LNK_KINDS = ["char", "chart", "tokens", "edge", "none"]


def lnk_kinds_of(fmt):
    return list(LNK_KINDS) if fmt in TEXT_LNK_FORMATS else ["char", "none"]


def make_lnk(rng, kind, k):
    if kind == "none":
        return None
    if kind == "char":
        return _span(rng, k)
    if kind == "chart":
        a = k + rng.randrange(3)
        return {"k": "chart", "v": [a, a + rng.randrange(1, 4)]}
    if kind == "tokens":
        a = k + rng.randrange(3)
        return {"k": "tokens", "v": list(range(a, a + rng.randrange(1, 4)))}
    return {"k": "edge", "v": 3 * k + rng.randrange(1, 40)}


def apply_lnk_kinds(rng, rep, items, kinds, p=0.45, force=None):
    """replace lnks that are there (and, with `force`, every lnk incl. the graph-level one) by other kinds"""
    for it in items:
        units = it["rels"] if rep == "mrs" else it["nodes"]
        for k, u in enumerate(units):
            if force is not None:
                u["lnk"] = make_lnk(rng, force, k)
            elif u.get("lnk") is not None and rng.random() < p:
                u["lnk"] = make_lnk(rng, rng.choice(kinds), k)
        if force is not None and rep != "eds":
            it["mlnk"] = make_lnk(rng, force, len(units))
            if force == "none":
                it.pop("msurface", None)
        elif it.get("mlnk") is not None and rng.random() < p:
            it["mlnk"] = make_lnk(rng, rng.choice([x for x in kinds if x != "none"]), len(units))
    return items


def mrs_var_names(m):
    """every variable / handle name an MRS mentions, verbatim"""
    out = set(m.variables)
    out.update(v for v in (m.top, m.index) if v is not None)
    for ep in m.rels:
        out.add(ep.label)
        out.update(a for r, a in ep.args.items() if r != "CARG")
    for h in m.hcons:
        out.update((h.hi, h.lo))
    for i in m.icons:
        out.update((i.left, i.right))
    return out


def zpad_mrs(m, mode):
    """the same MRS with ZERO-PADDED variable numbers: mode 'pad' -- every name gets two digits (h00, e02, x04);
    mode 'mixed' -- handles padded, and among the other variables one keeps its plain name (x4) while another of the
    same sort is renamed to the padded spelling of the SAME number (x04): two distinct variables whose numbers are
    equal as integers"""
    names = sorted(mrs_var_names(m), key=lambda v: (v[0], int(v[1:])))
    mp = {v: "%s%02d" % (v[0], int(v[1:])) for v in names}
    if mode == "mixed":
        plain = [v for v in names if v[0] != "h"]
        for a_ in plain:
            b_ = next((w for w in plain if w != a_ and w[0] == a_[0]), None)
            if b_ is not None:
                mp[a_] = a_
                mp[b_] = "%s0%s" % (a_[0], a_[1:])
                break

    def rn(v):
        return mp.get(v, v)
    rels = [_mrs.EP(ep.predicate, rn(ep.label), args={r: (a if r == "CARG" else rn(a)) for r, a in ep.args.items()},
                    lnk=ep.lnk, surface=ep.surface, base=ep.base) for ep in m.rels]
    return _mrs.MRS(rn(m.top) if m.top else m.top, rn(m.index) if m.index else m.index, rels,
                    [_mrs.HCons(rn(h.hi), h.relation, rn(h.lo)) for h in m.hcons],
                    [_mrs.ICons(rn(i.left), i.relation, rn(i.right)) for i in m.icons],
                    {rn(v): dict(ps) for v, ps in m.variables.items()},
                    lnk=m.lnk, surface=m.surface, identifier=m.identifier)


def build_item(rep, j):
    """fresh object of representation `rep` from its JSON description"""
    if rep == "mrs" and j.get("zpad"):
        j2 = dict(j)
        mode = j2.pop("zpad")
        return zpad_mrs(build_item(rep, j2), mode)
    if rep == "mrs":
        m = semgen.mrs_from_json(_strip_kinds(j, "rels"))
        for ep, je in zip(m.rels, j["rels"]):
            if isinstance(je.get("lnk"), dict):
                ep.lnk = _lnk_o(je["lnk"])
        m.lnk = _lnk_o(j.get("mlnk")) if j.get("mlnk") is not None else m.lnk
        m.surface = j.get("msurface")
        m.identifier = j.get("mident")
        return m
    if rep == "dmrs":
        d = semgen.dmrs_from_json(_strip_kinds(j, "nodes"))
        for nd, jn in zip(d.nodes, j["nodes"]):
            if isinstance(jn.get("lnk"), dict):
                nd.lnk = _lnk_o(jn["lnk"])
        if j.get("mlnk") is not None:
            d.lnk = _lnk_o(j["mlnk"])
        d.surface = j.get("msurface")
        d.identifier = j.get("mident")
        return d
    if rep == "eds":
        nodes = [_eds.Node(n["id"], n["pred"], type=n.get("type"), edges=dict((k, v) for k, v in n["edges"]),
                           properties=dict((k, v) for k, v in n.get("props", [])), carg=n.get("carg"),
                           lnk=_lnk_o(n.get("lnk")), surface=n.get("surface"), base=n.get("base"))
                 for n in j["nodes"]]
        return _eds.EDS(top=j.get("top"), nodes=nodes, lnk=_lnk_o(j.get("mlnk")), surface=j.get("msurface"),
                        identifier=j.get("mident"))
    raise ValueError(rep)


def _l(x):
    return None if x is None else str(x)


def view(x):
    """complete codec-independent description of a structure (everything a codec could carry);
    argument / property / link order is not part of it"""
    if isinstance(x, _mrs.MRS):
        return {"rep": "mrs", "top": x.top, "index": x.index,
                "rels": [{"pred": ep.predicate, "label": ep.label, "args": sorted(ep.args.items()),
                          "lnk": _l(ep.lnk), "surface": ep.surface, "base": ep.base} for ep in x.rels],
                "hcons": sorted((h.hi, h.relation, h.lo) for h in x.hcons),
                "icons": sorted((i.left, i.relation, i.right) for i in x.icons),
                "vars": sorted((v, sorted(ps.items())) for v, ps in x.variables.items()),
                "lnk": _l(x.lnk), "surface": x.surface, "ident": x.identifier}
    if isinstance(x, _dmrs.DMRS):
        return {"rep": "dmrs", "top": x.top, "index": x.index,
                "nodes": [{"id": n.id, "pred": n.predicate, "type": n.type, "props": sorted(n.properties.items()),
                           "carg": n.carg, "lnk": _l(n.lnk), "surface": n.surface, "base": n.base} for n in x.nodes],
                "links": sorted((l.start, l.end, l.role or "", l.post) for l in x.links),
                "lnk": _l(x.lnk), "surface": x.surface, "ident": x.identifier}
    if isinstance(x, _eds.EDS):
        return {"rep": "eds", "top": x.top,
                "nodes": [{"id": n.id, "pred": n.predicate, "type": n.type, "edges": sorted(n.edges.items()),
                           "props": sorted(n.properties.items()), "carg": n.carg, "lnk": _l(n.lnk),
                           "surface": n.surface, "base": n.base} for n in x.nodes],
                "lnk": _l(x.lnk), "surface": x.surface, "ident": x.identifier}
    return {"rep": "other", "repr": repr(type(x))}


# "up to the information both formats carry": what a format carries is measured on the codec itself, by
# sending a fully populated probe structure through encode+decode (with the same flags) and looking at
# which field groups survive.  This is independent of commands.convert.
_NOLNK = ("<-1:-1>", "", "None", None)


def _probe(rep):
    if rep == "mrs":
        return build_item("mrs", {
            "top": ["h", 0], "index": ["e", 2],
            "rels": [{"pred": "_bark_v_1", "label": ["h", 1], "args": [["ARG0", ["e", 2]], ["ARG1", ["x", 4]]],
                      "carg": None, "lnk": [0, 3], "surface": "barks", "base": "bark"},
                     {"pred": "named", "label": ["h", 3], "args": [["ARG0", ["x", 4]]], "carg": "Kim",
                      "lnk": [4, 7], "surface": "Kim", "base": "kim"}],
            "hcons": [[["h", 0], "qeq", ["h", 1]]], "icons": [],
            "vars": [[["e", 2], [["TENSE", "PRES"]]], [["x", 4], [["NUM", "sg"]]]],
            "mlnk": [0, 7], "msurface": "barks Kim", "mident": "42"})
    if rep == "dmrs":
        return build_item("dmrs", {
            "top": 10003, "index": 10005,
            "nodes": [{"id": 10005, "pred": "_bark_v_1", "type": "e", "props": [["TENSE", "PRES"]], "carg": None,
                       "lnk": [0, 3], "surface": "barks", "base": "bark"},
                      {"id": 10003, "pred": "named", "type": "x", "props": [["NUM", "sg"]], "carg": "Kim",
                       "lnk": [4, 7], "surface": "Kim", "base": "kim"}],
            "links": [[10005, 10003, "ARG1", "NEQ"]], "mlnk": [0, 7], "msurface": "barks Kim", "mident": "42"})
    return build_item("eds", {
        "top": "e9",
        "nodes": [{"id": "_3", "pred": "named", "type": "x", "edges": [], "props": [["NUM", "sg"]], "carg": "Kim",
                   "lnk": [4, 7], "surface": "Kim", "base": "kim"},
                  {"id": "e9", "pred": "_bark_v_1", "type": "e", "edges": [["ARG1", "_3"]], "props": [["TENSE", "PRES"]],
                   "carg": None, "lnk": [0, 3], "surface": "barks", "base": "bark"}],
        "mlnk": [0, 7], "msurface": "barks Kim", "mident": "42"})


_CARRIED = {}
GROUPS = ("toplnk", "topsurface", "ident", "index", "lnk", "surface", "base", "type", "props", "propcase", "ids", "order")


def carried(fmt, properties, lnk):
    """field groups that survive encode+decode of format `fmt` under the given flags"""
    key = (fmt, properties, lnk)
    if fmt == "indexedmrs":
        got = set(GROUPS) - {"toplnk", "topsurface", "ident", "surface", "base", "props", "propcase"}
        return got if lnk else got - {"lnk"}
    if key not in _CARRIED:
        c = codec(fmt)
        o = _probe(REP[fmt])
        with warnings.catch_warnings():
            warnings.simplefilter("ignore")
            x = c.decode(c.encode(o, properties=properties, lnk=lnk, indent=None))
        a, b = view(o), view(x)
        ia = a.get("rels") or a.get("nodes")
        ib = b.get("rels") or b.get("nodes")
        got = set()
        if a["lnk"] == b["lnk"]:
            got.add("toplnk")
        if a["surface"] == b["surface"]:
            got.add("topsurface")
        if a["ident"] == b["ident"]:
            got.add("ident")
        if a.get("index") == b.get("index"):
            got.add("index")
        for g in ("lnk", "surface", "base"):
            if sorted(str(i[g]) for i in ia) == sorted(str(i[g]) for i in ib):
                got.add(g)
        if a["rep"] == "mrs":
            got |= {"type", "ids", "order"}
            va, vb = dict(a["vars"]), dict(b["vars"])
            if all([k for k, _ in va[v]] == [k for k, _ in vb.get(v, [])] for v in va):
                got.add("props")
            if va == vb:
                got.add("propcase")
        else:
            if sorted(str(i["type"]) for i in ia) == sorted(str(i["type"]) for i in ib):
                got.add("type")
            if sorted([k for k, _ in i["props"]] for i in ia) == sorted([k for k, _ in i["props"]] for i in ib):
                got.add("props")
            if sorted(i["props"] for i in ia) == sorted(i["props"] for i in ib):
                got.add("propcase")
            if sorted(str(i["id"]) for i in ia) == sorted(str(i["id"]) for i in ib):
                got.add("ids")
            if [i["pred"] for i in ia] == [i["pred"] for i in ib]:
                got.add("order")
        _CARRIED[key] = got
    return _CARRIED[key]


def common_view(v, fmts, properties, lnk):
    """project a view onto the field groups every format in `fmts` carries under the flags"""
    v = copy.deepcopy(v)
    keep = set(GROUPS)
    for f in fmts:
        keep &= carried(f, properties, lnk)

    charonly = any(f not in TEXT_LNK_FORMATS for f in fmts)

    def nl(x):
        if x in _NOLNK:
            return None
        if charonly and not re.fullmatch(r"<-?\d+:-?\d+>", x):
            return None          # chart spans, token lists and edge ids are not carried by cfrom/cto or from/to
        return x
    v["lnk"] = nl(v["lnk"]) if "toplnk" in keep else None
    if "topsurface" not in keep:
        v["surface"] = None
    if "ident" not in keep:
        v["ident"] = None
    if "index" in v and "index" not in keep:
        v["index"] = None
    items = v.get("rels") or v.get("nodes") or []

    def props(ps):
        if "props" not in keep:
            return []
        if "propcase" not in keep:
            return sorted((k.upper(), val.lower()) for k, val in ps)
        return sorted(ps)
    for it in items:
        it["lnk"] = nl(it["lnk"]) if "lnk" in keep else None
        for g in ("surface", "base"):
            if g not in keep:
                it[g] = None
        if "props" in it:
            it["props"] = props(it["props"])
            if "type" not in keep:
                it["type"] = None
    if v["rep"] == "mrs":
        v["vars"] = sorted((a, props(ps)) for a, ps in v["vars"])
    else:
        if "ids" not in keep:
            # node identifiers are not carried: describe every node by its content, links by the nodes they join
            desc = {it["id"]: json.dumps({k: it[k] for k in it if k not in ("id", "edges")}, sort_keys=True, default=str)
                    for it in items}
            if v["rep"] == "dmrs":
                v["links"] = sorted((desc.get(a, "?"), desc.get(b, "?"), r, p_) for a, b, r, p_ in v["links"])
                v["index"] = desc.get(v["index"]) if v.get("index") is not None else None
            else:
                for it in items:
                    it["edges"] = sorted((r, desc.get(t, "?")) for r, t in it["edges"])
            v["top"] = desc.get(v["top"]) if v.get("top") is not None else None
            for it in items:
                it["id"] = None
        if "order" not in keep or "ids" not in keep:
            v["nodes"] = sorted(items, key=lambda it: json.dumps(it, sort_keys=True, default=str))
    return v


# ------------------------------------------------------------------ generators

STR_ALPHA = ["a", "b", "Kim", " ", "]", "[", "}", "{", ")", "(", ">", "<", ",", ";", ":", "\"", "\\", "'", "/",
             "&", "é", "x y", "]]", "\\\"", "</mrs>", "-->", "#"]
PROPVALS = ["past", "pres", "untensed", "tensed", "3", "sg", "+", "-"]


def gen_text(rng, tricky):
    n = rng.choice([1, 1, 2, 3, 4])
    if not tricky:
        return "".join(rng.choice(["a", "b", "Kim", "dog", "x"]) for _ in range(n))
    return "".join(rng.choice(STR_ALPHA) for _ in range(n))


def _span(rng, k):
    a = 3 * k + rng.randrange(3)
    return [a, a + rng.randrange(1, 6)]


def gen_mrs_item(rng, tricky=False, rich=None):
    """well-formed MRS (tree generator of semgen without the F08 pattern), with lnk, surface strings,
    constants and properties"""
    for _ in range(50):
        j = semgen.gen_mrs_tree(rng, max_eps=rng.choice([2, 3, 4, 6]), mutual=0.0)
        try:
            if _mrs.is_well_formed(semgen.mrs_from_json(j)):
                break
        except Exception:
            continue
    rich = rng.random() < 0.7 if rich is None else rich
    for v in j["vars"]:
        v[1] = [[k, (val if val else "untensed")] for k, val in v[1]]
        if rng.random() < 0.3:
            v[1].append(["MOOD", "indicative"])
    for k, ep in enumerate(j["rels"]):
        if rich:
            ep["lnk"] = _span(rng, k)
            if rng.random() < 0.3:
                ep["surface"] = gen_text(rng, tricky)
        if ep["pred"] == "named" or rng.random() < 0.1:
            ep["carg"] = gen_text(rng, tricky)
    if rng.random() < 0.35:
        # the predicate-modifier pattern of eds.from_mrs: a second predication in an existing scope that selects
        # nothing in it and whose ARG1 is an unbound u (so the EDS differs with predicate_modifiers on/off)
        k = len(j["rels"])
        j["rels"].append({"pred": "_nearly_x_deg", "label": rng.choice(j["rels"])["label"],
                          "args": [["ARG0", ["e", 200 + k]], ["ARG1", ["u", 201 + k]]], "carg": None,
                          "lnk": _span(rng, k) if rich else None, "surface": None, "base": None})
    if rich and rng.random() < 0.4:
        j["mlnk"] = [0, 3 * len(j["rels"]) + 5]
        j["msurface"] = gen_text(rng, tricky)
    return j


def gen_dmrs_item(rng, tricky=False, rich=None, connected=True):
    """DMRS built as a tree of links from earlier to later nodes (convertible to MRS); no node of
    type 'u' (F11)"""
    n = rng.choice([1, 1, 2, 2, 3, 3, 4, 5])
    rich = rng.random() < 0.7 if rich is None else rich
    nodes, links = [], []
    base = 10000
    for i in range(n):
        typ = rng.choice(["x", "e", "e", "i"])
        nd = {"id": base + i, "pred": rng.choice(semgen.PREDS[:5] + ["named"]), "type": typ,
              "props": [], "carg": None, "lnk": None, "surface": None, "base": None}
        if rng.random() < 0.5:
            nd["props"] = [["TENSE", rng.choice(PROPVALS[:4])]] if typ == "e" else [["NUM", "sg"], ["PERS", "3"]]
        if nd["pred"] == "named":
            nd["carg"] = gen_text(rng, tricky)
        if rich:
            nd["lnk"] = _span(rng, i)
            if rng.random() < 0.3:
                nd["surface"] = gen_text(rng, tricky)
        nodes.append(nd)
        if i > 0 and (connected or rng.random() < 0.5):
            jn = rng.randrange(i)
            r = rng.random()
            if r < 0.4:
                links.append([base + jn, base + i, "ARG%d" % rng.randrange(1, 4), "NEQ"])
            elif r < 0.6:
                links.append([base + jn, base + i, "ARG%d" % rng.randrange(1, 4), "H"])
            elif r < 0.8:
                links.append([base + i, base + jn, "ARG1", "EQ"])
            else:
                links.append([base + jn, base + i, "ARG%d" % rng.randrange(1, 4), "HEQ"])
    # de-duplicate (start, role)
    seen, out = set(), []
    for l in links:
        if (l[0], l[2]) in seen:
            l[2] = "ARG%d" % (4 + len(seen))
        seen.add((l[0], l[2]))
        out.append(l)
    j = {"top": base, "index": base if rng.random() < 0.8 else None, "nodes": nodes, "links": out}
    if rich and rng.random() < 0.4:
        j["mlnk"] = [0, 3 * n + 5]
        j["msurface"] = gen_text(rng, tricky)
    return j


def gen_eds_item(rng, tricky=False, rich=None, connected=True):
    n = rng.choice([1, 1, 2, 2, 3, 3, 4, 5])
    rich = rng.random() < 0.7 if rich is None else rich
    ids = []
    nodes = []
    for i in range(n):
        typ = rng.choice(["x", "e", "e", "i"])
        nid = "%s%d" % (typ, 2 + i) if rng.random() < 0.8 else "_%d" % (i + 1)
        ids.append(nid)
        nd = {"id": nid, "pred": rng.choice(semgen.PREDS[:5] + ["named"]), "type": typ, "edges": [],
              "props": [], "carg": None, "lnk": None, "surface": None, "base": None}
        if rng.random() < 0.5:
            nd["props"] = [["TENSE", rng.choice(PROPVALS[:4])]] if typ == "e" else [["NUM", "sg"], ["PERS", "3"]]
        if nd["pred"] == "named":
            nd["carg"] = gen_text(rng, tricky)
        if rich:
            nd["lnk"] = _span(rng, i)
        nodes.append(nd)
        if i > 0 and (connected or rng.random() < 0.5):
            jn = rng.randrange(i)
            src, dst = (jn, i) if rng.random() < 0.7 else (i, jn)
            role = "ARG%d" % (len(nodes[src]["edges"]) + 1)
            nodes[src]["edges"].append([role, ids[dst]])
    j = {"top": ids[0], "nodes": nodes}
    return j


LEXER_SOURCES = ["simplemrs", "simpledmrs", "eds", "indexedmrs"]       # util.Lexer / LookaheadIterator based readers
CHUNKED_SOURCES = ["mrx", "dmrx", "mrsjson", "dmrsjson", "edsjson"]   # ElementTree.iterparse / json.load


def gen_indexed_item(rng, tricky=False, rich=None):
    """an MRS the harness's SEM-I licenses: a chain of 1-8 predications _p0_v_1 .. in one scope, some with a lnk"""
    j = lead_item("mrs", 0)
    m = rng.randrange(1, 9)
    j["rels"] = j["rels"][:m]
    for k, ep in enumerate(j["rels"]):
        if rng.random() < 0.5:
            ep["lnk"] = _span(rng, k)
    return j


def lexer_of(name):
    m = util.import_codec(name)
    for a in dir(m):
        v = getattr(m, a)
        if isinstance(v, util.Lexer):
            return v
    return None


def count_tokens(name, text):
    """number of lexer tokens of a source text, counted with the codec's own token table"""
    lx = lexer_of(name)
    if lx is None:
        return None
    return sum(1 for _ in lx.prelex(text.splitlines()))


def lead_item(rep, k):
    """an item with 8 predications/nodes of which the first k carry a lnk: every lnk is exactly one more
    lexer token in SimpleMRS, SimpleDMRS and native EDS, so the family k = 0..7 moves every later item boundary
    of a document one token at a time"""
    if rep == "mrs":
        rels = []
        for i in range(8):
            args = [["ARG0", ["e", 10 + i]]] + ([["ARG1", ["e", 9 + i]]] if i else [])
            rels.append({"pred": "_p%d_v_1" % i, "label": ["h", 1], "args": args, "carg": None,
                         "lnk": [2 * i, 2 * i + 1] if i < k else None, "surface": None, "base": None})
        return {"top": ["h", 0], "index": ["e", 10], "rels": rels, "hcons": [[["h", 0], "qeq", ["h", 1]]],
                "icons": [], "vars": []}
    if rep == "dmrs":
        nodes = [{"id": 10000 + i, "pred": "_p%d_v_1" % i, "type": "e", "props": [], "carg": None,
                  "lnk": [2 * i, 2 * i + 1] if i < k else None, "surface": None, "base": None} for i in range(8)]
        links = [[10000 + i, 10000 + i - 1, "ARG1", "NEQ"] for i in range(1, 8)]
        return {"top": 10000, "index": 10000, "nodes": nodes, "links": links}
    nodes = [{"id": "e%d" % (10 + i), "pred": "_p%d_v_1" % i, "type": "e",
              "edges": [["ARG1", "e%d" % (9 + i)]] if i else [], "props": [], "carg": None,
              "lnk": [2 * i, 2 * i + 1] if i < k else None, "surface": None, "base": None} for i in range(8)]
    return {"top": "e10", "nodes": nodes}


ACE_SENTENCES = ["It rained.", "Kim barks ; loudly", "SENT: nested", "NOTE: 3 readings", "[ a bracket", "x", "dogs (bark)",
                 "semi;colon", "SKIP: me"]
ACE_CARGS = ["a;b", "x ; y", "SENT: no", "NOTE: 1 readings, added", "SKIP: x", ";", " ; z", "Kim", "[ SENT: ]"]
_DERIV = ' ;  (545 sb-hd_mc_c 1.2 0 2 (71 it 0.9 0 1 ("it" 46 "token [ +FORM \\"it\\" ]")))'


def ace_layout_default(n):
    return [1] * n


def ace_texts(objs, layout):
    """ACE stdout for the readings `objs` grouped by `layout` (a list of readings-per-sentence counts and "skip"
    entries): `SENT:` line, one line per reading (`[ mrs ] ;  derivation`), `NOTE:` line, two blank lines; `SKIP:`
    line and two blank lines for a skipped sentence.  Returns (one single-reading text per reading, whole text)."""
    sm = util.import_codec("simplemrs")
    layout = ace_layout_default(len(objs)) if layout is None else layout
    singles, out, k, sno = [], [], 0, 0
    for b in layout:
        sent = ACE_SENTENCES[sno % len(ACE_SENTENCES)] + (" %d" % sno if sno >= len(ACE_SENTENCES) else "")
        sno += 1
        if b == "skip":
            out.append("SKIP: %s\n\n\n" % sent)
            continue
        out.append("SENT: %s\n" % sent)
        for _ in range(b):
            line = sm.encode(objs[k], indent=None) + _DERIV + "\n"
            k += 1
            out.append(line)
            singles.append("SENT: %s\n%s" % (sent, line))
        out.append("NOTE: %d readings, added 351 / 20 edges to chart (16 fully instantiated)\tRAM: 1118k\n\n\n" % b)
    assert k == len(objs), (k, len(objs), layout)
    out.append("NOTE: parsed %d / %d sentences, avg 1118k, time 0.01857s\n" % (sum(1 for b in layout if b != "skip" and b), len(layout)))
    return singles, "".join(out)


def ace_texts_mode(objs, layout, mode):
    """the other two shapes of ACE output: mode 'lines' -- one reading per line and nothing else (source 'ace-lines',
    read with decode()); mode 'tsdb' -- the --tsdb-stdout protocol, one line of S-expressions per sentence whose
    (:results . (((:mrs . "...")) ...)) holds the readings.  No SENT: lines, so no surface string."""
    sm = util.import_codec("simplemrs")
    texts = [sm.encode(o, indent=None) for o in objs]
    singles = ["NO-SENT\n" + t + _DERIV + "\n" for t in texts]
    if mode == "lines":
        return singles, "".join(t + _DERIV + "\n" for t in texts)
    layout = ace_layout_default(len(objs)) if layout is None else layout
    out, k = [], 0
    for b in layout:
        if b == "skip" or b == 0:
            out.append('(:ninputs . 1) (:readings . 0) (:error . "no parse") (:results . ())\n')
            continue
        rs = []
        for r in range(b):
            rs.append('((:result-id . %d) (:derivation . "(1 a 0 1)") (:mrs . "%s"))'
                      % (r, texts[k].replace("\\", "\\\\").replace('"', '\\"')))
            k += 1
        out.append('(:ninputs . 1) (:readings . %d) (:results . (%s)) (:total . 3)\n' % (b, " ".join(rs)))
    assert k == len(objs)
    return singles, "".join(out)


def ace_reading_alone(single):
    """the oracle's own reading of a one-reading ACE text: the SimpleMRS before ' ;  ' with the sentence of the
    SENT: line as its surface string"""
    first, _, rest = single.partition("\n")
    if first == "NO-SENT":
        return read_string_or_file(util.import_codec("simplemrs"), rest.split(" ;  (")[0].strip(), True)
    assert first.startswith("SENT: ")
    m = read_string_or_file(util.import_codec("simplemrs"), rest.split(" ;  (")[0].strip(), True)
    m.surface = first[len("SENT: "):].rstrip()
    return m


def gen_ace_layout(rng, n):
    """split n readings over sentences with 0, 1, 2, 3+ readings, with SKIP: lines in between"""
    layout, left = [], n
    while left > 0:
        r = rng.random()
        if r < 0.15:
            layout.append("skip")
        elif r < 0.3:
            layout.append(0)
        else:
            b = min(left, rng.choice([1, 1, 2, 2, 3, 4]))
            layout.append(b)
            left -= b
    if rng.random() < 0.3:
        layout.append(rng.choice([0, "skip"]))
    return layout


# characters at which str.splitlines() breaks but a text-mode file line does not (ordinary characters of a line)
SEP_CHARS = ["\x85", "\u2028", "\u2029", "\x0b", "\x0c", "\x1c", "\x1d", "\x1e"]
XML_SAFE_SEPS = ["\x85", "\u2028", "\u2029"]      # XML 1.0 cannot carry the C0 controls at all (a codec matter, kept out)
# codecs whose STRING readers (loads/decode) cut the text with str.splitlines() (penman: inside the library), while
# their FILE readers (load) iterate the lines of the file
SPLIT_READERS = {"simplemrs", "simpledmrs", "eds", "indexedmrs", "ace", "dmrspenman", "edspenman"}
def sep_affected(case):
    """strings with one of SEP_CHARS and a conversion that reads a splitlines-codec through its STRING reader (profile
    field, '-lines' line, ACE's inner SimpleMRS) or writes a target whose loads()/decode() is such a reader: there the
    unchanged code already fails (string readers use str.splitlines(), file readers do not) -- outside the
    property's item space (C01-C03 exclude control and line-separator characters); never generated"""
    if case.get("kind") != "convert" or not case.get("sep"):
        return False
    s, sl = norm_name(case["src"])
    t, tl = norm_name(case["tgt"])
    return (s in SPLIT_READERS and (s == "ace" or sl or case["input"] == "dir")) or (t in SPLIT_READERS and t in READABLE)


def add_sepchars(rng, rep, items, chars):
    """put the characters (cycling through `chars`) into quoted strings of the items: every constant, every surface
    string that is there; at least one constant per item"""
    k = rng.randrange(len(chars))
    for it in items:
        units = it["rels"] if rep == "mrs" else it["nodes"]
        if not any(u.get("carg") is not None for u in units):
            units[0]["carg"] = "Kim"
        for u in units:
            if u.get("carg") is not None:
                u["carg"] = u["carg"][:1] + chars[k % len(chars)] + u["carg"][1:]
                k += 1
            if u.get("surface") is not None and rng.random() < 0.7:
                u["surface"] = chars[k % len(chars)] + u["surface"]
                k += 1
        if it.get("msurface") is not None:
            it["msurface"] = it["msurface"] + chars[k % len(chars)] + "."
            k += 1
    return items


def read_string_or_file(c, text, single):
    """what the codec reads from `text`: its string reader, and if that fails its file reader on the same text
    (`single`: one structure via decode / the first of load)"""
    try:
        return c.decode(text) if single else c.loads(text)
    except Exception:
        xs = c.load(io.StringIO(text))
        return xs[0] if single else xs


DUP_MODES = ["adjacent", "nonadjacent", "allsame"]


def apply_dups(rng, items, mode, fresh):
    """make the list contain identical items (deep copies, so byte-identical serializations):
    adjacent (A A ...), non-adjacent (A B A ...), or all the same item; `fresh()` gives a new item"""
    if not mode or mode == "none" or not items:
        return items
    items = list(items)
    if mode == "allsame":
        return [copy.deepcopy(items[0]) for _ in range(max(2, len(items)))]
    if mode == "adjacent":
        if len(items) == 1:
            return [items[0], copy.deepcopy(items[0])]
        i = rng.randrange(len(items) - 1)
        items[i + 1] = copy.deepcopy(items[i])
        return items
    if mode == "nonadjacent":
        while len(items) < 3:
            items.append(fresh())
        i = rng.randrange(len(items) - 2)
        k = rng.randrange(i + 2, len(items))
        items[k] = copy.deepcopy(items[i])
        return items
    raise ValueError(mode)


GEN = {"mrs": gen_mrs_item, "dmrs": gen_dmrs_item, "eds": gen_eds_item}

# selection queries for the test-suite input: (query text, naive row predicate over (i_id, p_id, r_id))
SELECTS = [
    ("result.mrs", lambda i, p, r: True),
    ("mrs", lambda i, p, r: True),
    ("mrs where result-id = 0", lambda i, p, r: r == 0),
    ("result.mrs where i-id > 1", lambda i, p, r: i > 1),
    ("mrs from result where parse-id < 2", lambda i, p, r: p < 2),
    ("mrs where i-id = 1 or result-id > 0", lambda i, p, r: i == 1 or r > 0),
    ("mrs where i-id > 1000", lambda i, p, r: False),
]
SCHEMA = {
    "item": [tsdb.Field("i-id", ":integer", (":key",)), tsdb.Field("i-input", ":string")],
    "parse": [tsdb.Field("parse-id", ":integer", (":key",)), tsdb.Field("i-id", ":integer", (":key",))],
    "result": [tsdb.Field("parse-id", ":integer", (":key",)), tsdb.Field("result-id", ":integer"),
               tsdb.Field("mrs", ":string")],
}


def dir_layout(n):
    """rows (i_id, parse_id, result_id) for n items: two results for every second parse"""
    rows = []
    i = 0
    p = 0
    while len(rows) < n:
        i += 1
        r = 0
        rows.append((i, p, r))
        if i % 2 == 0 and len(rows) < n:
            rows.append((i, p, 1))
        p += 1
    return rows


# ---- the glue: which codec / converter / highlighter functions commands.convert calls, in which order, with which
#      keyword arguments (model: lean/Verif/C20/Glue.lean)
ANSI = re.compile(r"\x1b\[[0-9;]*m")
GLUE_FLAGS = ("cells", "badline", "baddoc", "linesdir", "enccrash", "exportsrc")      # compared with the model only (outside the item space)
CLI_INDENTS = [None, None, None, "bare", "no", "NONE", "None", "nO", "2", "0", "4", "+3", "1", "10"]


def glue_only(case):
    return any(case.get(f) is not None and case.get(f) is not False for f in GLUE_FLAGS)


def naive_cli_indent(ci):
    """what `delphin convert` passes as indent= for a spelling of --indent (None: option absent; 'bare': without value)"""
    if ci is None:
        return True
    if ci == "bare":
        return None
    if ci.lower() in ("no", "none"):
        return None
    return int(ci)


def set_cli(case, ci):
    case["via"] = "cli"
    case["cli_indent"] = ci
    case["indent"] = naive_cli_indent(ci)
    if case["input"] in ("pathobj",):
        case["input"] = "path"
    elif case["input"] in ("file", "stream"):
        case["input"] = "stdin"
    return case


class Spy(object):
    """records the outermost calls into the source codec (load / loads / decode), the converters, the target codec
    (encode) and the highlighter while commands.convert runs; every call goes through to the real function"""

    def __init__(self, src_mod, tgt_mod):
        self.events = []
        self.depth = 0
        self.pre = None
        self.src_mod, self.tgt_mod = src_mod, tgt_mod
        self.stack = contextlib.ExitStack()

    @staticmethod
    def _kw(kw):
        def v(x):
            if x is None or isinstance(x, (bool, int)):
                return x
            if isinstance(x, str):
                return "STR:" + x
            return "SEMI" if type(x).__name__ == "SemI" else type(x).__name__
        return sorted([k, v(x)] for k, x in kw.items())

    @staticmethod
    def _arg(a, name=""):
        if hasattr(a, "read"):
            return "stream"
        if isinstance(a, pathlib.PurePath):
            return "path"
        if isinstance(a, str) or (a is None and name in ("load", "loads", "decode")):
            return "text"          # (an empty profile cell arrives as None)
        return "obj"

    def _guard(self, it):
        it = iter(it)
        while True:
            self.depth += 1
            try:
                x = next(it)
            except StopIteration:
                return
            finally:
                self.depth -= 1
            yield x

    def wrap(self, name, real, lazy=False):
        spy = self

        def w(*a, **kw):
            top = spy.depth == 0
            if top:
                spy.events.append({"f": name, "a": spy._arg(a[0], name) if a else "none", "kw": spy._kw(kw)})
            spy.depth += 1
            try:
                r = real(*a, **kw)
            finally:
                spy.depth -= 1
            if lazy and top and hasattr(r, "__next__"):
                return spy._guard(r)
            return r
        return w

    def __enter__(self):
        st = self.stack
        for name in ("load", "loads", "decode"):
            if self.src_mod is not None and hasattr(self.src_mod, name):
                st.enter_context(mock.patch.object(self.src_mod, name, self.wrap(name, getattr(self.src_mod, name), lazy=(name != "decode"))))
        if self.tgt_mod is not None and hasattr(self.tgt_mod, "encode"):
            st.enter_context(mock.patch.object(self.tgt_mod, "encode", self.wrap("encode", self.tgt_mod.encode)))
        for mod, fn in ((_dmrs, "from_mrs"), (_mrs, "from_dmrs"), (_eds, "from_mrs")):
            st.enter_context(mock.patch.object(mod, fn, self.wrap("conv", getattr(mod, fn))))
        real_mk = util.make_highlighter
        spy = self

        def mk(fmt):
            real = real_mk(fmt)

            def hl(text):
                spy.events.append({"f": "highlight", "a": spy._arg(text), "kw": []})
                spy.pre = text
                return real(text)
            return hl
        st.enter_context(mock.patch.object(util, "make_highlighter", mk))
        return self

    def __exit__(self, *exc):
        self.stack.close()
        return False


def real_codec_module(name):
    try:
        return importlib.import_module("delphin.codecs." + name)
    except Exception:
        return None



class C20(Check):
    pid = "C20"
    quick_cases = 330
    thorough_cases = 6000
    # integration layer (composition theorems + their own correspondence run): harness/integration.py
    props_modules = ["Verif.C20.Props", "Verif.C20.GlueProps", "Verif.Integration.Props", "Verif.Integration.Frame"]
    build_targets = props_modules + ["Verif.C20.Driver", "Verif.Integration.Driver"]
    rule = ("lists of 0-5 MRS/DMRS/EDS items (well-formed tree-built MRS with lnk, surface, constants over an "
            "alphabet of brackets, quotes, backslashes, commas and markup; tree-built DMRS; EDS graphs), every "
            "readable source codec x every writable target codec of a supported representation pair (spelled with "
            "hyphens / capitals / '-lines'), indent None/2/4, properties and lnk flags, predicate modifiers, input "
            "as path string, Path, open file, StringIO, or a test-suite directory with one of 7 selection queries; "
            "plus invalid names, unsupported pairs, two-column selections, codecs without reader/writer, and lists "
            "holding items with a dangling link/edge that the target cannot encode (error isolation); 40% of the lists "
            "contain byte-identical items (adjacent, non-adjacent, all the same), deterministically for every input kind, "
            "selection query and '-lines' source; in every run long sources: for simplemrs/simpledmrs/eds/indexedmrs 16 "
            "documents each of 15-60 items beyond 1024 and 2048 lexer tokens whose later item boundaries move one token "
            "at a time (a leading item with k = 0..7 lnk tokens), for mrx/dmrx/mrsjson/dmrsjson/edsjson texts beyond "
            "16 and 64 KiB, long PENMAN and ACE sources, through path, Path, open file, stream and profile directory "
            "to same- and cross-representation targets with and without '-lines'; Indexed MRS with a harness-made "
            "SEM-I (object or .smi path) as source and target; through the Python API or the command line front end "
            "(`delphin convert` with every spelling class of --indent, flags, PATH a file / a directory / absent = stdin); "
            "path=None (stdin) for every source; color and show_status on and off; ICONS on a third of the MRS items; ACE "
            "output also in the --tsdb-stdout protocol and as 'ace-lines'; same-format conversions for every codec; "
            "`delphin convert --list`. Non-trivial: at least one item; "
            "distinct by JSON text.")
    assumptions = [
        "items are opaque texts in the model: that one item's encode/decode round-trips is C01-C03's claim; here only "
        "the direct oracle applies the real codecs to every item",
        "generators keep out inputs of known codec/converter defects so that only assembly/glue is judged: no DMRS node "
        "of type 'u' (F11), no MRS with mutual non-scopal arguments in one scope (F08), no empty property values, no "
        "control or line-separator character inside a string (the item spaces of C01-C03 exclude them), no predicate "
        "containing brackets or quotes",
        "OUT-OF-SPACE stream (run and compared; a difference is counted in the evidence, never a violation; no model "
        "comparison): strings holding U+0085/U+2028/U+2029/VT/FF/FS/GS/RS, restricted to what passes on the unchanged "
        "code -- JSON codecs on every path, MRX/DMRX with U+0085/U+2028/U+2029, lexer/PENMAN codecs only as file/stream "
        "non-'-lines' sources; never a conversion through a string reader of simplemrs/simpledmrs/eds/indexedmrs/ace/"
        "*penman (their loads()/decode() cut the text with str.splitlines() while load() iterates file lines: recorded "
        "as an observation in DESIGN.md, outside C20)",
        "every Lnk kind (character span, chart span, token list, edge id, none) occurs on predications/nodes and at graph "
        "level for the sources that carry them (simplemrs, simpledmrs, eds, edspenman, ace); XML/JSON/Indexed-MRS/DMRS-PENMAN "
        "sources carry character spans only; the non-character kinds are kept away from the targets dmrspenman (its "
        "encoder raises ValueError on them) and indexedmrs (writes str(lnk) that its own lexer rejects) -- item-codec matters",
        "indexedmrs is exercised with a harness-made SEM-I and the items it licenses (chains of 1-8 predications without "
        "variable properties), as long source, small source and target; it is not part of the random pair matrix and "
        "of the transcoding clause",
        "the readers of the model work at item-boundary level (bracket depth with double-quoted strings; XML tag depth); "
        "that every real item text is such an item is checked on every generated conversion (driver answer 'items_ok'), "
        "not proved",
        "`for line in fh` is modelled with '\\n' as the only line terminator (items contain no '\\r')",
        "a converter raising PyDelphinException (dropped item, Outcome.convFail) is covered by the model only: the real "
        "converters raise it on no input we could construct; what they do raise (IndexError on the F08 class) is NOT "
        "isolated by _iter_convert -- the whole call fails -- which is modelled (Outcome.convCrash, theorem "
        "crash_not_isolated) and compared on documents holding such an item; the implementation side of error isolation "
        "is exercised through encode failures (KeyError on a dangling link/edge)",
        "the call sequence (load/loads/decode, converter, encode, highlighter with their keyword arguments) is recorded by "
        "spies around the real functions during the call and compared with the model's event list (Glue.lean); kwargs are "
        "compared as sorted lists, objects as kinds (stream/path/text/obj, the SEM-I as a tag)",
        "compared with the model only, no oracle (outside the item space): profile cells holding several or no structures, "
        "a blank line in a '-lines' source, an unreadable document, a '-lines' source given a directory, an export-only "
        "source over an empty selection, an Indexed-MRS target without a SEM-I; there the exception class is not compared, "
        "the point where the run stops is",
        "color=True goes through real pygments: the oracle demands that highlighting adds only ANSI colour codes and one "
        "final newline, exactly for a (normalised) simplemrs target; --color auto on a tty is not exercised",
    ]
    trusted_base = ["hand-written model lean/Verif/C20/Model.lean, tied to delphin.commands.convert by the correspondence run "
                    "(exact equality of the assembled text, of the reader's item list and of plan/error outcomes)",
                    "generated table c20Codecs (name, representation, HEADER/JOINER/FOOTER or their absence, load/encode "
                    "present) read from every module of delphin.codecs",
                    "the real item codecs and converters (used as given by both the implementation run and the oracle)"]

    def __init__(self):
        self.tmp = None
        self.counter = 0
        self.lean_files = sorted(glob.glob(os.path.join(paths.LEAN, "Verif", "C20", "*.lean"))) + integration.LEAN_FILES

    # ---- generated tables
    def tables(self):
        out = ["/-- every module of `delphin.codecs`: (name, CODEC_INFO['representation'], HEADER, JOINER, FOOTER "
               "(`none` = attribute not defined), has `load`, has `encode`) -/",
               "def c20Codecs : List (List Char × List Char × Option (List Char) × Option (List Char) × "
               "Option (List Char) × Bool × Bool) := ["]
        rows = []
        for name, full in sorted(util.namespace_modules(delphin.codecs).items()):
            m = importlib.import_module(full)

            def opt(a):
                v = getattr(m, a, None)
                return "none" if v is None else "some " + tables.lean_str(v)
            rows.append("  (%s, %s, %s, %s, %s, %s, %s)" % (
                tables.lean_str(name), tables.lean_str(m.CODEC_INFO["representation"]),
                opt("HEADER"), opt("JOINER"), opt("FOOTER"),
                "true" if hasattr(m, "load") else "false", "true" if hasattr(m, "encode") else "false"))
        out.append(",\n".join(rows))
        out.append("]")
        out.extend(self.pin_tables())
        return out

    def pin_tables(self):
        """Pins: constants of the anchored code that the model / oracle hand-code an equivalent of, read from the
        live code objects, argument defaults, module attributes and by probing _get_converter from outside."""
        import types
        from delphin.cli import convert as cli
        lit = tables.lean_strlit

        def consts(fn, drop=()):
            out = []

            def walk(code):
                for c in code.co_consts:
                    if isinstance(c, types.CodeType):
                        walk(c)
                    elif isinstance(c, tuple):
                        out.append("|".join(str(x) for x in c))
                    elif c is None or c == fn.__doc__:
                        continue
                    elif isinstance(c, str):
                        if any(c.startswith(d) or d in c for d in drop):
                            continue        # log / exception message texts are not pinned
                        out.append(c)
                    else:
                        out.append(repr(c))
            walk(fn.__code__)
            return out

        def strlist(name, xs, doc):
            return ["/-- %s -/" % doc, "def %s : List String := [%s]" % (name, ", ".join(lit(x) for x in xs))]
        msgs = ("Exactly 1 column", "could not convert", "invalid codec", " -> ", " conversion is not supported",
                "no conversion necessary", "item %d", "converting...")
        out = []
        out += strlist("c20ConvertConsts", consts(commands.convert, msgs),
                       "string/number constants of `commands.convert` (docstring and message texts left out)")
        sig = __import__("inspect").signature(commands.convert)
        out += strlist("c20ConvertDefaults", ["%s=%r" % (k, v.default) for k, v in sig.parameters.items()
                                               if v.default is not v.empty],
                       "default arguments of `commands.convert`")
        exc = lambda fn: [n for n in fn.__code__.co_names if n.endswith("Error") or n.endswith("Exception")]
        out += strlist("c20ConvertCaught", exc(commands.convert),
                       "exception names in `commands.convert` (CommandError raised; the encode loop's except clause)")
        out += strlist("c20IterConvertCaught", exc(commands._iter_convert), "exception names in `_iter_convert`")
        out += strlist("c20GetCodecCaught", exc(commands._get_codec), "exception names in `_get_codec`")
        out += strlist("c20ParseNameConsts", consts(commands._parse_format_name), "constants of `_parse_format_name`")
        out += strlist("c20ParseNameNames", list(commands._parse_format_name.__code__.co_names),
                       "methods called by `_parse_format_name`")
        out += strlist("c20GetConverterConsts", consts(commands._get_converter, msgs), "constants of `_get_converter`")
        out += strlist("c20ReadNames", list(commands._read.__code__.co_names) + consts(commands._read),
                       "names and constants used by `_read` (file / stream / profile-directory reader)")
        out += strlist("c20ReadLinesNames", list(commands._read_lines.__code__.co_names)
                       + list(commands._read_file.__code__.co_names), "names used by `_read_lines` and `_read_file`")
        out += strlist("c20IterConvertNames", [n for n in commands._iter_convert.__code__.co_names],
                       "names used by `_iter_convert`")
        # converter pair table probed from outside
        reps = ["mrs", "dmrs", "eds", "MRS", "Dmrs", "other"]
        rows = []
        for a in reps:
            for b in reps:
                fa = types.SimpleNamespace(CODEC_INFO={"representation": a})
                fb = types.SimpleNamespace(CODEC_INFO={"representation": b})
                try:
                    r = 0 if commands._get_converter(fa, fb, False) is None else 1
                except commands.CommandError:
                    r = 2
                rows.append("(%s, %s, %d)" % (tables.lean_str(a), tables.lean_str(b), r))
        out += ["/-- `_get_converter` probed with stand-in codecs: (source representation, target representation, "
                "0 = no converter (identity) / 1 = a converter / 2 = CommandError) -/",
                "def c20ConverterProbe : List (List Char × List Char × Nat) := [%s]" % ", ".join(rows)]
        # which codec module defines which of the pickle-API functions
        fns = ("load", "loads", "decode", "dump", "dumps", "encode")
        caps = []
        frames = []
        for name, full in sorted(util.namespace_modules(delphin.codecs).items()):
            m = importlib.import_module(full)
            caps.append("%s:%s:%s" % (name, m.CODEC_INFO["representation"],
                                      ",".join(f for f in fns if hasattr(m, f))))

            def fr(a):
                v = getattr(m, a, None)
                if v is None:
                    return "<undefined>"
                return v if len(v) <= 40 else "<%d chars>" % len(v)
            frames.append("%s:%s:%s:%s" % (name, fr("HEADER"), fr("JOINER"), fr("FOOTER")))
        out += strlist("c20CodecCaps", caps, "codec module : representation : which of load/loads/decode/dump/dumps/encode it defines")
        out += strlist("c20FramePins", frames, "codec module : HEADER : JOINER : FOOTER (long LaTeX preamble/postamble by length)")
        # the command-line front end: defaults and the indent handling constants
        ns = vars(cli.parser.parse_args([]))
        out += strlist("c20CliDefaults", ["%s=%r" % (k, ns[k]) for k in sorted(ns) if k != "func"],
                       "`delphin convert` argument defaults (parser.parse_args([]))")
        out += strlist("c20CliConsts", consts(cli.call_convert), "constants of `cli.convert.call_convert`")
        return out

    # ---- temp files
    def setup(self):
        self.tmp = tempfile.mkdtemp(prefix="c20-", dir="/var/tmp")
        self.counter = 0

    def teardown(self):
        if self.tmp and os.path.isdir(self.tmp):
            shutil.rmtree(self.tmp, ignore_errors=True)
        self.tmp = None

    def _fresh(self, suffix=""):
        if self.tmp is None:
            self.setup()
        self.counter += 1
        return os.path.join(self.tmp, "f%d%s" % (self.counter, suffix))

    # ---- generation
    def mk_case(self, rng, src_name, tgt_name, n=None, **over):
        src, tgt = src_name, tgt_name
        rep = REP[src]
        n = rng.choice([0, 1, 1, 2, 2, 3, 3, 4, 5]) if n is None else n
        tricky = rng.random() < 0.5
        penman = "penman" in tgt or "penman" in src
        gen = gen_indexed_item if ("indexedmrs" in (src, tgt) or over.pop("indexed", False)) else GEN[rep]

        def fresh():
            return gen(rng, tricky and not penman)
        items = [fresh() for _ in range(n)]
        if rep == "mrs" and gen is not gen_indexed_item:
            # individual constraints (ICONS) between intrinsic variables, on about a third of the MRS items
            for it in items:
                ivs = [a[1] for ep in it["rels"] for a in ep["args"] if a[0] == "ARG0" and a[1][0] in "ex"]
                if len(ivs) >= 2 and rng.random() < 0.35:
                    for _ in range(rng.choice([1, 1, 2])):
                        a_, b_ = rng.sample(ivs, 2)
                        it.setdefault("icons", []).append([a_, rng.choice(["topic", "focus", "info-str"]), b_])
        lk = over.pop("lnk_kind", None)
        kinds = lnk_kinds_of(src)
        if len(kinds) > 2 and tgt not in NO_KIND_TARGETS:
            # every Lnk kind the source format carries
            if lk is not None:
                apply_lnk_kinds(rng, rep, items, kinds, force=lk)
            elif rng.random() < 0.5:
                apply_lnk_kinds(rng, rep, items, kinds)
        sep = over.pop("sep", None)
        dup = over.pop("dup", None)
        if dup is None and n >= 1 and rng.random() < 0.4:
            dup = rng.choice(DUP_MODES)
        items = apply_dups(rng, items, dup, fresh)
        src_lines = src != "ace" and rng.random() < 0.3
        tgt_lines = rng.random() < 0.3
        case = {
            "kind": "convert", "rep": rep, "items": items,
            "src": rng.choice(SPELLINGS[src]) + (rng.choice(LINES_SPELLINGS) if src_lines else ""),
            "tgt": rng.choice(SPELLINGS[tgt]) + (rng.choice(LINES_SPELLINGS) if tgt_lines else ""),
            "indent": rng.choice([None, None, None, 2, 2, 4, 0]),
            "src_indent": rng.choice([None, 2]),
            "properties": rng.random() < 0.75, "lnk": rng.random() < 0.75,
            "predmod": rng.random() < 0.4,
            "input": rng.choice(["path", "pathobj", "file", "stream", "stdin"])
            if (src_lines or src == "ace" or rng.random() < 0.7) else "dir",
            "select": rng.randrange(len(SELECTS)),
            "dup": dup or "none",
            "color": rng.random() < 0.12,
            "show_status": rng.random() < 0.3,
            "via": "api", "cli_indent": None,
        }
        want_cli = rng.random() < 0.3
        ci = rng.choice(CLI_INDENTS)
        if src == "ace":
            case["ace_layout"] = gen_ace_layout(rng, len(items))
            if rng.random() < 0.6:
                for it in items:
                    eps = it["rels"]
                    for ep in eps[:1] + [e for e in eps[1:] if e["carg"] is not None]:
                        ep["carg"] = rng.choice(ACE_CARGS)
        case.update(over)
        if case["via"] == "cli" or (want_cli and "indent" not in over and "indexedmrs" not in (src, tgt)
                                    and not glue_only(over)):
            set_cli(case, case["cli_indent"] if "cli_indent" in over else ci)
        self.apply_sep(rng, case, sep)
        return case

    def apply_sep(self, rng, case, sep):
        """OUT-OF-SPACE stream (only on request): items whose quoted strings hold characters at which str.splitlines()
        breaks (U+0085, U+2028, U+2029, VT, FF, FS, GS, RS -- control / line-separator characters, which the item
        spaces of C01-C03 exclude).  Only the part that passes on the unchanged code is generated: never a conversion
        through a string reader of a splitlines-codec (sep_affected), XML only with the three characters XML 1.0 can
        carry.  Such cases are run and compared, but a difference is counted, not reported as a violation."""
        case["sep"] = False
        s_, _ = norm_name(case["src"])
        t_, _ = norm_name(case["tgt"])
        if not sep or not case["items"] or "indexedmrs" in (s_, t_) or case.get("isolation") or case.get("long"):
            return
        chars = list(SEP_CHARS if sep is True else sep)
        if s_ in XML_FAMILY or t_ in XML_FAMILY:
            chars = [c for c in chars if c in XML_SAFE_SEPS]
        if not chars:
            return
        case["sep"] = True
        if sep_affected(case):
            case["sep"] = False
            return
        case["out_of_space"] = True
        add_sepchars(rng, case["rep"], case["items"], chars)

    def sep_cases(self, rng):
        kk = 0
        inputs = ("path", "pathobj", "file", "stream")
        # (i) '-lines' SOURCES: every readable codec with a '-lines' variant x path / Path / open file / stream
        for s in READABLE:
            if s in ("ace", "indexedmrs"):
                continue
            ts = [x for x in TARGETS if supported(s, x)]
            for inp in inputs:
                kk += 1
                yield self.mk_case(rng, s, ts[kk % len(ts)], n=3 + kk % 2, src=SPELLINGS[s][0] + "-lines", input=inp,
                                   sep=True, dup="none", lnk=True)
        # (ii) '-lines' TARGETS: exactly N '\n'-terminated lines
        for t in WRITABLE:
            if t == "indexedmrs":
                continue
            ss = [x for x in SOURCES if supported(x, t) and x != "ace"]
            for j in range(2):
                kk += 1
                yield self.mk_case(rng, ss[kk % len(ss)], t, n=3, tgt=SPELLINGS[t][0] + "-lines", sep=True, dup="none",
                                   lnk=True, input=inputs[kk % 4])
        # (iii) ordinary (multi-line) sources with those characters, every input kind
        for s in SOURCES:
            ts = [x for x in TARGETS if supported(s, x)]
            for inp in inputs + ("dir",):
                if s == "ace" and inp == "dir":
                    continue
                kk += 1
                yield self.mk_case(rng, s, ts[kk % len(ts)], n=3, src=SPELLINGS[s][0], input=inp, src_indent=[2, None][kk % 2],
                                   sep=True, dup="none", lnk=True, tgt=SPELLINGS[ts[kk % len(ts)]][0])

    def cases(self, rng, tier, n):
        yield integration.block_case(tier)
        # --- plan / error cases (deterministic)
        for s, t in [("invalid", "simplemrs"), ("simplemrs", "invalid"), ("eds", "simplemrs"), ("eds", "dmrx"),
                     ("simpledmrs", "eds"), ("edsjson", "mrs-json"), ("", "simplemrs"), ("simplemrs-lines-lines", "mrx"),
                     ("-lines", "mrx"), ("simple_mrs", "mrx"), ("simplemrs", "mrx-line"), ("simplemrs", "mrs-prolog"),
                     ("mrsprolog", "simplemrs"), ("dmrs-tikz", "dmrx"), ("mrs-prolog-lines", "simplemrs"),
                     ("simplemrs", "ace"), ("ace", "ace"), ("indexed-mrs", "simple-mrs"), ("simplemrs", "Indexed-MRS-Lines"),
                     ("Simple-MRS-Lines", "EDS-JSON-LINES"), ("s-i-m-p-l-e-m-r-s", "--mrx--"), ("simplemrs-", "mrx"),
                     ("DMRX", "MRX"), ("dmrs-json", "eds-penman")]:
            yield {"kind": "plan", "src": s, "tgt": t, "nproj": 1}
        yield {"kind": "plan", "src": "simplemrs", "tgt": "mrx", "nproj": 2}
        yield {"kind": "plan", "src": "invalid", "tgt": "mrx", "nproj": 2}
        # --- every supported pair once with N in {0,1,3}, alternating options
        k = 0
        pairs = [(s, t) for s in SOURCES for t in TARGETS if supported(s, t)]
        for (s, t) in pairs:
            for nn in ((0, 2) if tier == "quick" else (0, 1, 3)):
                k += 1
                c = self.mk_case(rng, s, t, n=nn)
                if k % 3 == 0 and c["via"] != "cli":
                    c["indent"] = 2
                yield c
        # --- targeted: every target x (indent, lines) with N = 0, 1, 2 from the plainest source of its representation
        plain = {"mrs": "simplemrs", "dmrs": "dmrsjson", "eds": "edsjson"}
        for t in TARGETS:
            for lines in (False, True):
                for ind in (None, 2):
                    nn = k % 3
                    k += 1
                    yield self.mk_case(rng, plain[REP[t]], t, n=nn, indent=ind,
                                       tgt=SPELLINGS[t][0] + ("-lines" if lines else ""))
        # --- every source x every input kind
        for s in SOURCES:
            t = [x for x in TARGETS if REP[x] == REP[s] and x in READABLE][0]
            for inp in ("path", "pathobj", "file", "stream", "dir"):
                if s == "ace" and inp == "dir":
                    continue
                yield self.mk_case(rng, s, t, n=3, input=inp, src=SPELLINGS[s][0], select=k % len(SELECTS))
                k += 1
        # --- every selection query on a directory of 5 items
        for q in range(len(SELECTS)):
            yield self.mk_case(rng, "simplemrs", rng.choice(["mrsjson", "mrx", "simplemrs", "dmrx", "eds"]), n=5,
                               input="dir", src="simplemrs", select=q)
        # --- LONG SOURCES, in every run: lexer-based sources beyond one and two LookaheadIterator buffers (1024 tokens),
        #     XML/JSON sources beyond 16 KiB and 64 KiB, through every input kind, to same- and cross-representation
        #     targets with and without '-lines'
        yield from self.long_cases(rng)
        # --- every Lnk kind the text formats carry (character span, chart span <a#b>, token list <1 2 3>, edge id <@7>,
        #     none) on every predication / node and at graph level, from every text-parsed source through a file, a
        #     stream, a '-lines' file and a profile cell, to text / JSON / XML / cross-representation targets
        kk = 0
        for s in ("simplemrs", "simpledmrs", "eds", "edspenman", "ace"):
            ts = [x for x in TARGETS if supported(s, x) and x not in NO_KIND_TARGETS]
            for kind in LNK_KINDS:
                for v in range(4):
                    kk += 1
                    t = ts[kk % len(ts)]
                    lines_src = (v == 2 and s != "ace")
                    inp = "dir" if (v == 3 and s != "ace") else ("path", "stream", "file", "pathobj")[kk % 4]
                    yield self.mk_case(rng, s, t, n=2, lnk_kind=kind, dup="none", lnk=True,
                                       src=SPELLINGS[s][0] + ("-lines" if lines_src else ""),
                                       tgt=SPELLINGS[t][0] + ("-lines" if kk % 5 == 0 else ""), input=inp,
                                       select=0, src_indent=[None, 2][kk % 2])
        # --- characters that str.splitlines() treats as line ends inside quoted strings
        yield from self.sep_cases(rng)
        # --- shapes of earlier seeded changes, kept deterministic
        kk = 0
        #   (a) profile rows with identical strings in the pattern A B B A: 4 structures, for every query and source
        for q in range(len(SELECTS)):
            for s in ("simplemrs", "mrx", "mrsjson", "dmrx", "dmrsjson", "simpledmrs", "edsjson", "eds", "indexedmrs"):
                kk += 1
                if tier == "quick" and (kk + q) % 3:
                    continue
                ts = [x for x in TARGETS if supported(s, x)]
                t = ts[kk % len(ts)]
                c = self.mk_case(rng, s, t, n=2, dup="none", input="dir", src=SPELLINGS[s][0], select=q,
                                 src_indent=[None, 2][kk % 2])
                a, b = c["items"]
                c["items"] = [a, b, copy.deepcopy(b), copy.deepcopy(a)]
                c["dup"] = "abba"
                yield c
        #   (b) '-lines' targets with properties and/or lnk switched off
        plain = {"mrs": "simplemrs", "dmrs": "dmrsjson", "eds": "edsjson"}
        for t in TARGETS:
            for pr, ln in ((False, True), (True, False), (False, False)):
                kk += 1
                ss = [x for x in SOURCES if supported(x, t)]
                yield self.mk_case(rng, plain[REP[t]] if kk % 2 else ss[kk % len(ss)],
                                   t, n=2 + kk % 2, tgt=SPELLINGS[t][0] + "-lines", properties=pr, lnk=ln,
                                   indent=[None, 2][kk % 2])
        #   (c) Indexed MRS source (with the SEM-I) to every other target, plain and '-lines'
        for t in WRITABLE:
            for ln in (False, True):
                kk += 1
                yield self.mk_case(rng, "indexedmrs", t, n=2 + kk % 3, src="indexed-mrs", tgt=t + ("-lines" if ln else ""),
                                   input=("path", "stream", "file", "stdin", "pathobj", "dir", "stdin")[kk % 7],
                                   indent=[None, 2][kk % 2])
        #   (d) profile fields that hold one-item documents of the XML / JSON formats
        for s in CHUNKED_SOURCES:
            for q in (0, 2, 3):
                for si in (None, 2):
                    kk += 1
                    ts = [x for x in TARGETS if supported(s, x)]
                    t = ts[kk % len(ts)]
                    yield self.mk_case(rng, s, t, n=4, input="dir", src=SPELLINGS[s][0], select=q, src_indent=si)
        # --- a converter crash that is not a PyDelphinException is not isolated (model: Outcome.convCrash)
        f08 = {"top": ["h", 0], "index": ["e", 2],
               "rels": [{"pred": "_a_v_1", "label": ["h", 1], "args": [["ARG0", ["e", 2]], ["ARG1", ["e", 3]]],
                         "carg": None, "lnk": None, "surface": None, "base": None},
                        {"pred": "_b_v_1", "label": ["h", 1], "args": [["ARG0", ["e", 3]], ["ARG1", ["e", 2]]],
                         "carg": None, "lnk": None, "surface": None, "base": None}],
               "hcons": [[["h", 0], "qeq", ["h", 1]]], "icons": [], "vars": []}
        kk = 0
        for s in ("simplemrs", "mrsjson", "mrx"):
            for t in ("dmrsjson", "simpledmrs", "eds", "edsjson", "mrsjson", "dmrstikz"):
                for pos in (0, 1, 2):
                    kk += 1
                    if tier == "quick" and kk % 3:
                        continue
                    c = self.mk_case(rng, s, t, n=2, dup="none", src=SPELLINGS[s][0], tgt=SPELLINGS[t][0],
                                     input=("path", "stream", "dir", "file")[kk % 4], select=0)
                    c["items"].insert(pos, copy.deepcopy(f08))
                    c["f08"] = True
                    yield c
        # --- ACE sources: 0, 1, 2, 3+ readings per SENT: line (mixed), SKIP: lines, sentences without a reading between
        #     others, ';' / SENT: / NOTE: inside quoted constants; targets that carry the surface string, lnk on and off
        kk = 0
        for layout in ([2], [3], [1, 2], [2, 1], [0, 2, 0], [1, 0, 3, "skip", 2], ["skip", 4], [0], [], ["skip"],
                       [1, 1, 1], [2, "skip", 0, 2], [5]):
            nn = sum(b for b in layout if b != "skip")
            for t in ("simplemrs", "mrx", "mrs-json", "dmrx", "eds-json", "simplemrs-lines", "mrx-lines", "simpledmrs"):
                kk += 1
                if len(layout) > 1 and kk % 2 and tier == "quick":
                    continue
                c = self.mk_case(rng, "ace", norm_name(t)[0], n=nn, src=rng.choice(SPELLINGS["ace"]), tgt=t,
                                 lnk=bool(kk % 3), properties=bool(kk % 4), indent=[None, 2][kk % 2],
                                 input=("path", "stream", "file", "pathobj")[kk % 4],
                                 dup=(["none", "none"] + DUP_MODES)[kk % 5] if nn >= 2 else "none")
                c["ace_layout"] = list(layout) if len(c["items"]) == nn else gen_ace_layout(rng, len(c["items"]))
                yield c
        # --- Indexed MRS (items licensed by the harness's SEM-I) as source and as target
        kk = 0
        for s, t in (("indexedmrs", "simplemrs"), ("simplemrs", "indexedmrs"), ("indexedmrs", "indexedmrs-lines"),
                     ("indexedmrs-lines", "dmrx"), ("mrsjson", "indexedmrs"), ("indexedmrs", "eds-json"),
                     ("mrx-lines", "indexed-mrs-lines"), ("indexedmrs", "mrs-prolog")):
            for nn in (0, 2, 3):
                for ind in (None, 2):
                    kk += 1
                    yield self.mk_case(rng, norm_name(s)[0], norm_name(t)[0], n=nn, src=s, tgt=t, indent=ind,
                                       input=("path", "stream", "file", "pathobj", "dir")[kk % 5]
                                       if not norm_name(s)[1] else ("path", "stream", "file")[kk % 3],
                                       dup=(["none"] + DUP_MODES)[kk % 4] if nn else "none")
        # --- duplicates (identical items adjacent / non-adjacent / all the same) for EVERY input kind, every
        #     selection query, and the '-lines' sources
        for mode in DUP_MODES:
            for inp in ("path", "pathobj", "file", "stream"):
                for s in ("simplemrs", "dmrsjson", "eds"):
                    t = rng.choice([x for x in TARGETS if supported(s, x)])
                    yield self.mk_case(rng, s, t, n=3, dup=mode, input=inp, src=SPELLINGS[s][0])
            for q in range(len(SELECTS)):
                s = ("simplemrs", "mrsjson", "dmrx", "edsjson", "simpledmrs", "mrx", "eds")[q]
                t = rng.choice([x for x in TARGETS if supported(s, x)])
                yield self.mk_case(rng, s, t, n=5, dup=mode, input="dir", src=SPELLINGS[s][0], select=q)
                yield self.mk_case(rng, "simplemrs", "mrsjson", n=4, dup=mode, input="dir", src="simplemrs",
                                   tgt="mrsjson", select=q)
            for s in SOURCES:
                if s == "ace":
                    yield self.mk_case(rng, s, "simplemrs", n=3, dup=mode, input="stream", src="ace")
                    continue
                t = rng.choice([x for x in TARGETS if supported(s, x)])
                yield self.mk_case(rng, s, t, n=3, dup=mode, src=SPELLINGS[s][0] + "-lines",
                                   input=rng.choice(["path", "pathobj", "file", "stream"]))
        # --- error isolation: PENMAN targets with disconnected graphs among the items
        for s, t in ISOLATION_PAIRS:
            for nn in (1, 3, 4):
                yield self.isolation_case(rng, s, t, nn)
        # --- the glue around the codecs: command line, stdin, colour, show_status, profile cells holding several or no
        #     structures, unreadable lines / documents, encoder crashes (model: Glue.lean)
        yield from self.glue_cases(rng, tier)
        yield from self.random_cases(rng, n)

    def glue_cases(self, rng, tier):
        kk = 0
        plain = {"mrs": "simplemrs", "dmrs": "dmrsjson", "eds": "edsjson"}
        # (1) `delphin convert`: every target x the spellings of --indent (absent = True, bare, no/none in any case,
        #     numbers), PATH a file, a test-suite directory, or absent (stdin)
        spell = [None, "bare", "no", "NONE", "2", "0", "+3", "10", "nOnE", "1"]
        for t in TARGETS:
            for j in range(2 if tier == "quick" else len(spell)):
                kk += 1
                s0 = plain[REP[t]]
                yield self.mk_case(rng, s0, t, n=2 + kk % 2, via="cli", cli_indent=spell[kk % len(spell)],
                                   input=("path", "dir", "stdin")[kk % 3], src=SPELLINGS[s0][0],
                                   tgt=SPELLINGS[t][0] + ("-lines" if kk % 4 == 0 else ""), select=0, color=False)
        # (2) path=None (stdin) for every source, plain and '-lines'
        for s0 in SOURCES:
            ts = [x for x in TARGETS if supported(s0, x)]
            for ln in (False, True):
                if s0 == "ace" and ln:
                    continue
                kk += 1
                yield self.mk_case(rng, s0, ts[kk % len(ts)], n=2, input="stdin",
                                   src=SPELLINGS[s0][0] + ("-lines" if ln else ""))
        # (3) color=True: only a (normalised) simplemrs target is highlighted, whatever its spelling and '-lines'
        for t, tn in (("simplemrs", "simplemrs"), ("simplemrs", "Simple-MRS"), ("simplemrs", "simplemrs-lines"),
                      ("simplemrs", "SIMPLE-MRS-Lines"), ("mrsjson", "mrs-json"), ("simpledmrs", "simpledmrs"),
                      ("eds", "eds"), ("mrx", "mrx-lines")):
            for nn in (0, 1, 3):
                kk += 1
                over = dict(n=nn, color=True, tgt=tn, src="simplemrs", input=("path", "stream", "dir", "stdin")[kk % 4],
                            select=0)
                if kk % 3 == 0:
                    over.update(via="cli", cli_indent=[None, "no", "2"][(kk // 3) % 3])
                    if over["input"] == "stream":
                        over["input"] = "stdin"
                else:
                    over.update(via="api", indent=[None, 2][kk % 2])
                yield self.mk_case(rng, "simplemrs", t, **over)
        # (4) show_status reaches the native EDS encoder (and only it), '-lines' included
        for s0, tn in (("simplemrs", "eds"), ("edsjson", "eds"), ("eds", "eds-lines"), ("simplemrs", "EDS-Lines"),
                       ("eds", "eds-json"), ("simplemrs", "eds-penman")):
            for st in (True, False):
                kk += 1
                over = dict(n=3, show_status=st, src=SPELLINGS[s0][0], tgt=tn, dup="none")
                if kk % 2:
                    over.update(via="cli", cli_indent=[None, "bare", "2"][kk % 3], input=("path", "dir", "stdin")[kk % 3],
                                select=0)
                else:
                    over.update(via="api", indent=[None, 2][(kk // 2) % 2])
                c = self.mk_case(rng, s0, norm_name(tn)[0], **over)
                if REP[s0] == "eds":
                    for it in c["items"][::2]:       # a disconnected node, so that the status annotation shows
                        it["nodes"][-1]["edges"] = []
                yield c
        # (5) profile cells holding several structures (only the first is used) or none (None reaches the encoder /
        #     the reader raises on an empty cell): compared with the model only
        for s0 in ("simplemrs", "mrsjson", "mrx", "dmrsjson", "simpledmrs", "eds", "edsjson", "dmrx"):
            for cells in ([1, 2, 1], [2, 3], [1, 0, 1], [0], [1, 1, 0], [3]):
                kk += 1
                if tier == "quick" and kk % 2:
                    continue
                ts = [x for x in TARGETS if supported(s0, x)]
                yield self.mk_case(rng, s0, ts[kk % len(ts)], n=sum(cells), dup="none", input="dir", select=0,
                                   src=SPELLINGS[s0][0], cells=cells, via="api", src_indent=[None, 2][kk % 2])
        # (6) an undecodable (blank) line in a '-lines' source: the lines before it have been converted and encoded
        for s0 in ("simplemrs", "mrsjson", "mrx", "simpledmrs", "dmrsjson", "eds", "edsjson", "dmrspenman"):
            for pos in (0, 1, 3):
                kk += 1
                if tier == "quick" and kk % 2:
                    continue
                ts = [x for x in TARGETS if supported(s0, x)]
                yield self.mk_case(rng, s0, ts[kk % len(ts)], n=3, dup="none", src=SPELLINGS[s0][0] + "-lines",
                                   input=("path", "stream", "stdin", "file", "pathobj")[kk % 5], badline=pos, via="api")
        # (7) an unreadable document: nothing is converted
        for s0 in ("simplemrs", "mrsjson", "mrx", "simpledmrs", "dmrsjson", "dmrx", "eds", "edsjson"):
            kk += 1
            ts = [x for x in TARGETS if supported(s0, x)]
            yield self.mk_case(rng, s0, ts[kk % len(ts)], n=2, dup="none", src=SPELLINGS[s0][0],
                               input=("path", "stream", "stdin", "file")[kk % 4], baddoc=True, via="api")
        # (8) a '-lines' source given a directory; an export-only source over a query selecting nothing
        for s0 in ("simplemrs", "dmrsjson", "eds"):
            yield self.mk_case(rng, s0, s0, n=2, dup="none", src=s0 + "-lines", input="dir", select=0, linesdir=True,
                               via="api")
        yield self.mk_case(rng, "mrsprolog", "simplemrs", n=0, src="mrs-prolog", tgt="simplemrs", input="dir", select=0,
                           exportsrc=True, via="api")
        yield self.mk_case(rng, "mrsprolog", "simplemrs", n=0, src="mrs-prolog", tgt="simplemrs", input="path",
                           exportsrc=True, via="api")
        # (9) an exception of encode() that the encode loop does not catch (Indexed MRS target without a SEM-I: TypeError
        #     at the first item that reaches the encoder): the whole call fails
        for s0 in ("simplemrs", "mrsjson", "mrx-lines"):
            for nn in (1, 3):
                kk += 1
                yield self.mk_case(rng, norm_name(s0)[0], "indexedmrs", n=nn, dup="none", src=s0,
                                   tgt=["indexedmrs", "Indexed-MRS-lines"][kk % 2], indexed=False,
                                   input=("path", "stream", "dir")[kk % 3] if "lines" not in s0 else "stream", select=0,
                                   enccrash=True, nosemi=True, via="api", lnk=True, properties=True)

        # (11) `semi` given as the path of a SEM-I file (convert loads it), API and command line; ACE output in the
        #      --tsdb-stdout protocol and as 'ace-lines'; `delphin convert --list`
        for s0, t0 in (("indexed-mrs", "simplemrs"), ("simplemrs", "indexed-mrs"), ("indexedmrs-lines", "indexedmrs"),
                       ("simplemrs", "mrx")):
            for v in ("api", "cli"):
                kk += 1
                over = dict(n=2, dup="none", src=s0, tgt=t0, semi_path=True, via=v, indexed=True,
                            input=("path", "stdin")[kk % 2] if "lines" in s0 else ("path", "dir", "stdin")[kk % 3], select=0)
                if v == "cli":
                    over["cli_indent"] = [None, "no", "2"][kk % 3]
                else:
                    over["indent"] = [None, 2][kk % 2]
                yield self.mk_case(rng, norm_name(s0)[0], norm_name(t0)[0], **over)
        for layout in ([1], [2, 1], [1, 0, 2], ["skip", 3], [0], []):
            for mode in ("tsdb", "lines"):
                kk += 1
                nn = sum(b for b in layout if b != "skip")
                c = self.mk_case(rng, "ace", ("simplemrs", "mrsjson", "dmrx", "eds")[kk % 4], n=nn, dup="none",
                                 src="ace-lines" if mode == "lines" else "ACE", ace_mode=mode,
                                 input=("path", "stream", "stdin", "file")[kk % 4], lnk=True)
                c["ace_layout"] = list(layout) if len(c["items"]) == nn else ace_layout_default(len(c["items"]))
                yield c
        yield {"kind": "cli_list"}
        # (12) ZERO-PADDED variable / handle numbers (h00, e02; x4 together with x04) through every same-representation
        #      chain of the MRS formats; judged by oracle clause (z)
        chain = [("simplemrs", "mrx"), ("mrx", "simplemrs"), ("simplemrs", "mrsjson"), ("mrsjson", "mrx"),
                 ("mrx", "mrsjson"), ("mrsjson", "simplemrs"), ("simplemrs", "simplemrs"), ("mrx", "mrx"),
                 ("indexedmrs", "simplemrs"), ("simplemrs", "indexedmrs"), ("indexedmrs", "indexedmrs"),
                 ("mrx", "indexedmrs"), ("indexedmrs", "mrsjson"), ("ace", "mrx")]
        for s0, t0 in chain:
            for mode in ("pad", "mixed"):
                kk += 1
                ln_s = kk % 4 == 1 and s0 != "ace"
                inp = ("path", "stream", "dir", "stdin")[kk % 4]
                if s0 == "ace" and inp == "dir":
                    inp = "path"
                c = self.mk_case(rng, s0, t0, n=2, dup="none", src=SPELLINGS[s0][0] + ("-lines" if ln_s else ""),
                                 tgt=SPELLINGS[t0][0] + ("-lines" if kk % 3 == 0 else ""), select=0, via="api",
                                 input=inp if not (ln_s and inp == "dir") else "path", indent=[None, 2][kk % 2],
                                 indexed="indexedmrs" in (s0, t0), properties=True, lnk=True)
                for it in c["items"]:
                    it["zpad"] = mode
                yield c
        # (13) a '-lines' SOURCE whose last line has no trailing newline (what convert(..., '<fmt>-lines') returns), with
        #      1, 2 and N items, path and stream: N lines give N structures
        for s0 in READABLE:
            if s0 == "ace":
                continue
            ts = [x for x in TARGETS + ["indexedmrs"] if supported(s0, x) and (x != "indexedmrs" or s0 == "indexedmrs")]
            for nn in (1, 2, 5):
                kk += 1
                t0 = ts[kk % len(ts)] if s0 != "indexedmrs" else ("simplemrs", "indexedmrs", "mrx")[kk % 3]
                yield self.mk_case(rng, s0, t0, n=nn, dup="none", src=SPELLINGS[s0][0] + "-lines",
                                   tgt=SPELLINGS[t0][0] + ("-lines" if kk % 2 else ""), via="api",
                                   input=("path", "stream", "pathobj", "file", "stdin")[kk % 5], no_final_nl=True)
        # (10) same format on both sides (a pass-through of the source text would be wrong: the options still apply and
        #      the items are re-serialised), plain -> plain, '-lines' -> '-lines', every input kind
        for s0 in READABLE:
            if s0 in ("ace", "indexedmrs") or s0 not in WRITABLE:
                continue
            for ln in (False, True):
                kk += 1
                sfx = "-lines" if ln else ""
                yield self.mk_case(rng, s0, s0, n=2 + kk % 2, dup="none", src=SPELLINGS[s0][0] + sfx,
                                   tgt=SPELLINGS[s0][-1] + sfx, properties=bool(kk % 3 == 0), lnk=bool(kk % 3 == 1),
                                   input=(("path", "stream", "stdin", "pathobj", "file") if ln else
                                          ("path", "dir", "stream", "pathobj", "stdin"))[kk % 5], select=0,
                                   src_indent=[None, 2][kk % 2])

    def long_cases(self, rng):
        lrng = __import__("random").Random(20)      # the same long documents in every run
        kinds = ["path", "stream", "file", "dir", "pathobj", "stream", "path", "dir"]
        tg = {"mrs": ["mrsjson", "dmrx-lines", "simplemrs-lines", "eds", "mrx", "simpledmrs", "mrsjson-lines", "edsjson"],
              "dmrs": ["dmrsjson", "mrx-lines", "simpledmrs-lines", "simplemrs", "dmrx", "mrsjson", "dmrsjson-lines",
                       "dmrspenman"],
              "eds": ["edsjson", "eds-lines", "edspenman", "eds", "edsjson-lines", "edsjson", "eds", "edspenman-lines"]}

        def long_case(s, items, k, **over):
            c = self.mk_case(lrng, s, norm_name(tg[REP[s]][k % 8])[0], n=0, dup="none", src=s, tgt=tg[REP[s]][k % 8],
                             input=kinds[k % 8], select=k % 2, src_indent=None, indent=[None, 2][k % 2])
            c["items"] = items
            c["long"] = True
            if s == "ace":
                c["ace_layout"] = gen_ace_layout(lrng, len(items))
            c.update(over)
            return c
        for s in LEXER_SOURCES:
            rep = REP[s]
            sc = codec(s)
            for threshold in (1024, 2048):
                common = []
                while True:
                    common.append((gen_indexed_item if s == "indexedmrs" else GEN[rep])(lrng, False, rich=False))
                    objs = [build_item(rep, j) for j in [lead_item(rep, 7)] + common]
                    if count_tokens(s, sc.dumps(objs, indent=None)) > threshold + 40 or len(common) >= 70:
                        break
                for k in range(8):
                    yield long_case(s, [lead_item(rep, k)] + copy.deepcopy(common), k + (1 if threshold == 2048 else 0))
        for i, s in enumerate(CHUNKED_SOURCES):
            rep = REP[s]
            sc = codec(s)
            for j, size in enumerate((16 * 1024, 64 * 1024)):
                items = []
                while True:
                    items.append(GEN[rep](lrng, True, rich=True))
                    if len(sc.dumps([build_item(rep, x) for x in items], indent=2)) > size + 512 or len(items) >= 90:
                        break
                yield long_case(s, items, 2 * i + j, src_indent=2)
                yield long_case(s, copy.deepcopy(items), 2 * i + j + 3, src_indent=2)
        for s, nn in (("dmrspenman", 30), ("edspenman", 30), ("ace", 20)):
            rep = REP[s]
            yield long_case(s, [GEN[rep](lrng, False, rich=False) for _ in range(nn)], 1 if s != "ace" else 5,
                            **({"input": "stream"} if s == "ace" else {}))

    def isolation_case(self, rng, s, t, nn):
        """some items carry a link/edge to a node that does not exist: the source formats keep it, the target's
        encode raises KeyError, and the encode loop must drop exactly those items"""
        c = self.mk_case(rng, s, t, n=nn, src=SPELLINGS[s][0], input=rng.choice(["path", "stream", "dir"]))
        bad = 0
        for i, it in enumerate(c["items"]):
            if rng.random() < 0.6 or (i == len(c["items"]) - 1 and bad == 0):
                bad += 1
                if REP[s] == "dmrs":
                    it["links"].append([it["nodes"][-1]["id"], 10099, "ARG4", "NEQ"])
                else:
                    it["nodes"][-1]["edges"].append(["ARG4", "x99"])
        c["isolation"] = True
        return c

    def random_cases(self, rng, n, pairs=None):
        pairs = pairs or [(s, t) for s in SOURCES for t in TARGETS if supported(s, t)]
        for _ in range(n):
            r = rng.random()
            if r < 0.06:
                names = list(SPELLINGS) + ["invalid", "mrs", "dmrs", "json", "simplemrs-line", "lines"]
                s = rng.choice(SPELLINGS.get(rng.choice(names), ["bogus"])) + rng.choice(["", "", "-lines", "-"])
                t = rng.choice(SPELLINGS.get(rng.choice(names), ["bogus"])) + rng.choice(["", "", "-lines", "-Lines"])
                yield {"kind": "plan", "src": s, "tgt": t, "nproj": rng.choice([1, 1, 1, 2, 3])}
            elif r < 0.12:
                s, t = rng.choice(ISOLATION_PAIRS)
                yield self.isolation_case(rng, s, t, rng.choice([1, 2, 3, 5]))
            else:
                s, t = rng.choice(pairs)
                yield self.mk_case(rng, s, t)

    def search_cases(self, rng, tier, n, seeds):
        pairs = None
        tg = set()
        for c in seeds:
            if c.get("kind") == "convert":
                tg.add(norm_name(c["tgt"])[0])
        if tg:
            pairs = [(s, t) for s in SOURCES for t in TARGETS if supported(s, t) and t in tg] or None
        yield from self.random_cases(rng, n, pairs)

    # ---- building the input of a case
    def _objs(self, case):
        return [build_item(case["rep"], j) for j in case["items"]]

    def _names(self, case):
        s, sl = norm_name(case["src"])
        t, tl = norm_name(case["tgt"])
        return s, sl, t, tl

    def _source_texts(self, case, src, src_lines):
        """one source text per item (its own document), and the whole source document"""
        sc = codec(src)
        objs = self._objs(case)
        if src == "ace":
            layout = case.get("ace_layout")
            if layout is not None and sum(b for b in layout if b != "skip") != len(objs):
                layout = None          # (a shrunk case: one reading per sentence)
            if case.get("ace_mode"):
                return ace_texts_mode(objs, layout, case["ace_mode"])
            return ace_texts(objs, layout)
        if src_lines:
            singles = [sc.encode(o, properties=True, lnk=True, indent=None) for o in objs]
            lines = list(singles)
            if case.get("badline") is not None:
                lines.insert(min(case["badline"], len(lines)), "")       # a blank line: decode('') raises
            doc = "".join(s + "\n" for s in lines)
            if case.get("no_final_nl") and doc.endswith("\n"):
                doc = doc[:-1]           # what convert(..., '<fmt>-lines') returns: the last line is not terminated
            return singles, doc
        ind = case.get("src_indent")
        singles = [sc.dumps([o], properties=True, lnk=True, indent=ind) for o in objs]
        if case.get("baddoc"):
            return singles, "%%% not a document %%%\n"
        return singles, sc.dumps(objs, properties=True, lnk=True, indent=ind)

    def _selected(self, case, n):
        rows = dir_layout(n)
        pred = SELECTS[case["select"]][1]
        return rows, [k for k, (i, p, r) in enumerate(rows) if pred(i, p, r)]

    def _make_dir(self, case, src):
        sc = codec(src)
        objs = self._objs(case)
        d = self._fresh("-ts")
        rows, _ = self._selected(case, len(objs))
        cells = None
        if case.get("cells"):
            # several (or no) structures in one cell: row k holds the document of the next cells[k] items
            rows = dir_layout(len(case["cells"]))
            cells, at = [], 0
            for k in case["cells"]:
                cells.append(sc.dumps(objs[at:at + k], properties=True, lnk=True, indent=case.get("src_indent")))
                at += k
        tsdb.initialize_database(d, SCHEMA)
        iids = sorted({i for i, _, _ in rows})
        tsdb.write(d, "item", [(i, "sentence %d" % i) for i in iids], SCHEMA["item"])
        pids = sorted({(p, i) for i, p, _ in rows})
        tsdb.write(d, "parse", [(p, i) for p, i in pids], SCHEMA["parse"])
        if cells is not None:
            tsdb.write(d, "result", [(p, r, c) for (i, p, r), c in zip(rows, cells)], SCHEMA["result"])
            return d
        tsdb.write(d, "result", [(p, r, sc.dumps([o], properties=True, lnk=True, indent=case.get("src_indent")))
                                 for (i, p, r), o in zip(rows, objs)], SCHEMA["result"])
        return d

    def run_convert(self, case, spy=None):
        """calls commands.convert on the case's input; returns (text, None) or (None, error enum); `spy`: a Spy that is
        active during the call itself (not while the harness writes the input)"""
        src, sl, tgt, tl = self._names(case)
        fh = None
        try:
            with warnings.catch_warnings():
                warnings.simplefilter("ignore")
                kind = case["input"]
                stdin = None
                if kind == "dir":
                    arg = self._make_dir(case, src)
                else:
                    _, doc = self._source_texts(case, src, sl)
                    if kind == "stream":
                        arg = io.StringIO(doc)
                    elif kind == "stdin":
                        arg = None                   # path=None: sys.stdin
                        stdin = io.StringIO(doc)
                    else:
                        fn = self._fresh(".txt")
                        with open(fn, "w", encoding="utf-8") as f:
                            f.write(doc)
                        if kind == "path":
                            arg = fn
                        elif kind == "pathobj":
                            arg = pathlib.Path(fn)
                        else:
                            fh = open(fn, encoding="utf-8")
                            arg = fh
                with (mock.patch.object(sys, "stdin", stdin) if stdin is not None else contextlib.nullcontext()):
                    with (spy if spy is not None else contextlib.nullcontext()):
                        out = self._call(case, arg, src, tgt)
                return out, None
        except SystemExit:
            return None, "SystemExit"
        except commands.CommandError:
            return None, "CommandError"
        except AttributeError:
            return None, "AttributeError"
        except PyDelphinException as e:
            return None, "PyDelphinException:" + type(e).__name__
        except (KeyError, IndexError, ValueError, TypeError, AssertionError) as e:
            return None, type(e).__name__
        except Exception as e:      # e.g. xml ParseError (a SyntaxError)
            return None, type(e).__name__
        finally:
            if fh is not None:
                fh.close()

    def _semi_file(self):
        """the harness's SEM-I written as a .smi file (convert then loads it itself: `semi` given as a path)"""
        fn = os.path.join(self.tmp or "/var/tmp", "c20-semi.smi")
        if self.tmp is None:
            self.setup()
            fn = os.path.join(self.tmp, "c20-semi.smi")
        if not os.path.exists(fn):
            with open(fn, "w") as f:
                f.write("variables:\n  u.\n  i < u.\n  p < u.\n  h < p.\n  e < i.\n  x < i & p.\n\n"
                        "roles:\n  ARG0 : i.\n  ARG1 : u.\n\npredicates:\n"
                        + "".join("  _p%d_v_1 : ARG0 e%s.\n" % (i, ", ARG1 e" if i else "") for i in range(8)))
        return fn

    def _call(self, case, arg, src, tgt):
        """the call itself: through the Python API, or through the command-line front end (`delphin convert`,
        cli/convert.py: call_convert on parsed arguments, output captured from stdout)"""
        if case.get("via") == "cli":
            argv = ([] if arg is None else [str(arg)]) + ["--from=" + case["src"], "--to=" + case["tgt"],
                                                          "--select=" + SELECTS[case["select"]][0]]
            if not case["properties"]:
                argv.append("--no-properties")
            if not case["lnk"]:
                argv.append("--no-lnk")
            if case.get("color"):
                argv += ["--color", "always"]
            if case.get("show_status"):
                argv.append("--show-status")
            argv.append("--predicate-modifiers" if case["predmod"] else "--no-predicate-modifiers")
            if case.get("semi_path"):
                argv.append("--semi=" + self._semi_file())
            ci = case.get("cli_indent")
            if ci == "bare":
                argv.append("--indent")
            elif ci is not None:
                argv.append("--indent=" + ci)
            args = _cli.parser.parse_args(argv)
            buf = io.StringIO()
            with contextlib.redirect_stdout(buf):
                _cli.call_convert(args)
            return buf.getvalue()
        return commands.convert(arg, case["src"], case["tgt"], select=SELECTS[case["select"]][0],
                                properties=case["properties"], lnk=case["lnk"], indent=case["indent"],
                                color=case.get("color", False), show_status=case.get("show_status", False),
                                predicate_modifiers=case["predmod"],
                                semi=(self._semi_file() if case.get("semi_path") else SEMI)
                                if (("indexedmrs" in (src, tgt) or case.get("semi_path")) and not case.get("nosemi")) else None)

    # ---- implementation
    def impl(self, case):
        if case["kind"] == "cli_list":
            args = _cli.parser.parse_args(["--list"])
            args.verbosity = 0
            buf = io.StringIO()
            with contextlib.redirect_stdout(buf):
                _cli.call_convert(args)
            return {"lines": buf.getvalue().split("\n")}
        if case["kind"] == "integration":
            return integration.block_impl(case)
        if case["kind"] == "plan":
            return self.impl_plan(case)
        src, sl, tgt, tl = self._names(case)
        spy = Spy(real_codec_module(src), real_codec_module(tgt))
        out, err = self.run_convert(case, spy)
        if err is not None:
            return {"err": err, "events": spy.events}
        if spy.pre is not None:
            # highlighted: "doc" is the text handed to the highlighter (what the model assembles), "final" what came back
            pre = spy.pre + ("\n" if case.get("via") == "cli" else "")
            return {"doc": cps(pre), "final": cps(out), "events": spy.events}
        return {"doc": cps(out), "events": spy.events}

    def impl_plan(self, case):
        sel = {1: "result.mrs", 2: "result.result-id result.mrs", 3: "i-id i-input mrs"}[case["nproj"]]
        empty = ""
        try:
            s0, sl0 = norm_name(case["src"])
            if not sl0 and s0 in ALL_CODECS and s0 != "indexedmrs" and hasattr(codec(s0), "dumps"):
                empty = codec(s0).dumps([])
        except Exception:
            empty = ""
        try:
            out = commands.convert(io.StringIO(empty), case["src"], case["tgt"], select=sel)
        except commands.CommandError:
            return {"err": "CommandError"}
        except AttributeError:
            return {"err": "AttributeError"}
        except TypeError:
            return {"err": "TypeError"}      # indexedmrs source without a SEM-I
        s, sl = commands._parse_format_name(case["src"])
        t, tl = commands._parse_format_name(case["tgt"])
        cv = commands._get_converter(codec(s), codec(t), False)
        conv = "ident" if cv is None else "%sTo%s" % (REP[s], REP[t].capitalize())
        return {"src": s, "srcLines": sl, "tgt": t, "tgtLines": tl, "conv": conv, "doc": cps(out)}

    # ---- what each item gives on its own (shared by the model request and the oracle)
    def per_item(self, case):
        """memo of _per_item for the case last asked about (model request, expectation and oracle share it)"""
        key = json.dumps(case, sort_keys=True)
        last = getattr(self, "_last_per", None)
        if last is not None and last[0] == key:
            return last[1]
        res = self._per_item(case)
        self._last_per = (key, res)
        return res

    def _per_item(self, case):
        """for every selected input item: ('ok', encoded text, converted object) | ('encFail',) | ('convFail',)
        | ('own', error) when the item cannot be read/converted/encoded on its own for another reason"""
        src, sl, tgt, tl = self._names(case)
        sc, tc = codec(src), codec(tgt)
        singles, _ = self._source_texts(case, src, sl)
        idx = list(range(len(singles)))
        if case["input"] == "dir":
            _, idx = self._selected(case, len(singles))
        cv = naive_converter(REP[src], REP[tgt], case["predmod"])
        kw = {"indent": None if tl else case["indent"], "properties": case["properties"], "lnk": case["lnk"]}
        if tgt == "eds":
            kw["show_status"] = case.get("show_status", False)
        if case.get("nosemi"):
            tc = real_codec_module(tgt)          # (not the harness's wrapper that supplies the SEM-I)
        res = []
        with warnings.catch_warnings():
            warnings.simplefilter("ignore")
            for i in idx:
                try:
                    if src == "ace":
                        x = ace_reading_alone(singles[i])
                    elif sl:
                        x = read_string_or_file(sc, singles[i], True)
                    else:
                        x = read_string_or_file(sc, singles[i], False)[0]
                except Exception as e:
                    res.append(("own", "read:" + type(e).__name__))
                    continue
                if cv is not None:
                    try:
                        x = cv(x)
                    except PyDelphinException:
                        res.append(("convFail",))
                        continue
                    except Exception as e:
                        if case.get("f08"):
                            res.append(("convCrash", type(e).__name__))     # escapes _iter_convert: the whole call fails
                        else:
                            res.append(("own", "convert:" + type(e).__name__))
                        continue
                try:
                    s = tc.encode(x, **kw)
                except (PyDelphinException, KeyError, IndexError):
                    res.append(("encFail",))
                    continue
                except Exception:
                    if case.get("enccrash"):
                        res.append(("encCrash",))       # escapes the encode loop: the whole call fails
                        continue
                    raise
                res.append(("ok", s, x))
        return res

    def model_request(self, case):
        if case["kind"] in ("integration", "cli_list"):
            return None
        if case["kind"] == "plan":
            if norm_name(case["src"]) == ("indexedmrs", False):
                return None
            return {"op": "plan", "src": cps(case["src"]), "tgt": cps(case["tgt"]), "nproj": case["nproj"]}
        if case.get("out_of_space") or sep_affected(case):
            return None          # out-of-space cases are not part of the model/implementation correspondence
        try:
            per = self.per_item(case)
        except Exception:
            return None
        if any(p[0] == "own" for p in per):
            return None
        src, sl, tgt, tl = self._names(case)

        def item(p):
            return {"ok": cps(p[1])} if p[0] == "ok" else p[0]
        if sl:
            ls = [item(p) for p in per]
            if case.get("badline") is not None:
                ls.insert(min(case["badline"], len(ls)), None)
            content = {"lines": ls}
        elif case["input"] == "dir":
            if case.get("cells"):
                rows, at = [], 0
                sc = codec(src)
                for k in case["cells"]:
                    grp = [item(p) for p in per[at:at + k]]
                    at += k
                    # an empty cell is read back from the profile as None: loads(None) raises
                    rows.append(None if (k == 0 and sc.dumps([]) == "") else grp)
                content = {"rows": rows}
            else:
                content = {"rows": [[item(p)] for p in per]}
        else:
            content = {"doc": {"ok": not case.get("baddoc"), "items": [item(p) for p in per]}}
        kind = {"path": "file", "pathobj": "file", "file": "stream", "stream": "stream", "stdin": "none",
                "dir": "dir"}[case["input"]]
        req = {"op": "session", "src": cps(case["src"]), "tgt": cps(case["tgt"]), "nproj": 1, "kind": kind,
               "content": content}
        if case.get("via") == "cli":
            ci = case.get("cli_indent")
            req["cli"] = {"no_properties": not case["properties"], "no_lnk": not case["lnk"],
                          "color_always": bool(case.get("color")),
                          "indent": None if ci is None else ("bare" if ci == "bare" else cps(ci)),
                          "show_status": bool(case.get("show_status")), "predmod": case["predmod"],
                          "semi": bool(case.get("semi_path"))}
        else:
            req["opts"] = {"properties": case["properties"], "lnk": case["lnk"], "color": bool(case.get("color")),
                           "indent": case["indent"], "show_status": bool(case.get("show_status")),
                           "predmod": case["predmod"],
                           "semi": ("indexedmrs" in (src, tgt) or bool(case.get("semi_path"))) and not case.get("nosemi")}
        return req

    def model_expected(self, case, impl_res):
        if case["kind"] == "plan":
            return impl_res
        if "err" in impl_res:
            err = impl_res["err"]
            if case.get("f08") and err in ("IndexError", "KeyError"):
                err = "ConverterError"
            return {"err": err, "events": impl_res["events"]}
        per = self.per_item(case)
        src, sl, tgt, tl = self._names(case)
        if case.get("cells"):
            heads, at = [], 0
            for k in case["cells"]:
                heads.extend(per[at:at + 1] if k else [])
                at += k
            per = heads
        okparts = [cps(p[1]) for p in per if p[0] == "ok"]
        readable = tgt in READABLE
        return {"doc": impl_res["doc"], "events": impl_res["events"], "split": okparts if readable else None,
                "items_ok": True, "highlight": any(e["f"] == "highlight" for e in impl_res["events"])}

    def model_compare(self, case, expected, answer):
        if case.get("kind") != "convert" or not isinstance(answer, dict):
            return Check.model_compare(self, case, expected, answer)
        ans = dict(answer)
        if "events" in ans:
            # the order in which the kwargs dictionary was filled is not observable by the callee
            ans["events"] = [dict(e, kw=sorted(e["kw"], key=lambda kv: kv[0])) for e in ans["events"]]
        exp = dict(expected)
        if glue_only(case) and "err" in exp and "err" in ans:
            # outside the item space: WHICH exception class escapes is the codec's business; where the run stops
            # (the events) is compared exactly
            exp["err"] = ans["err"] = "some error"
        return Check.model_compare(self, case, exp, ans)

    # ---- direct oracle
    def oracle(self, case, res):
        if case.get("kind") == "convert" and glue_only(case):
            # glue behaviour outside the property's item space (several / no structures in a profile cell, an
            # unreadable line or document, a '-lines' source given a directory, an encoder crash): what the command
            # does is compared with the model only
            return []
        if case.get("kind") == "convert" and case.get("f08"):
            # an item of the class of finding F08 (C04/C05/C07: mutual non-scopal arguments in one scope) inside a
            # document: outside the property's item space; what the command does (the converter's IndexError
            # escapes, the whole call fails) is compared with the model only
            return []
        if case.get("kind") == "convert" and case.get("out_of_space"):
            # compared, but a difference outside the property's item space is not a violation by itself
            diffs = self.oracle_in_space(case, res)
            self._oos = getattr(self, "_oos", {"cases": 0, "differences": 0})
            self._oos["cases"] += 1
            self._oos["differences"] += 1 if diffs else 0
            self._oos_last = bool(diffs)
            return []
        return self.oracle_in_space(case, res)

    def oracle_in_space(self, case, res):
        if case["kind"] == "integration":
            return integration.block_oracle(res)
        fails = []

        def fail(clause, detail):
            fails.append({"clause": clause, "detail": detail})
        if case["kind"] == "cli_list":
            # `delphin convert --list`: every codec module under its representation with r (has load) / w (has dump)
            want = {}
            for n_ in ALL_CODECS:
                m_ = real_codec_module(n_)
                want[n_] = (m_.CODEC_INFO["representation"].upper(),
                            "%s/%s" % ("r" if hasattr(m_, "load") else "-", "w" if hasattr(m_, "dump") else "-"))
            head, seen = None, {}
            for ln in res["lines"]:
                if ln and not ln.startswith("\t"):
                    head = ln.strip()
                elif ln.startswith("\t"):
                    f_ = ln.split("\t")
                    seen[f_[1].strip()] = (head, f_[2])
            if seen != want:
                fail("--list does not show every codec with its representation and read/write capability",
                     repr(sorted(set(seen.items()) ^ set(want.items()))[:6]))
            return fails
        if case["kind"] == "plan":
            return self.oracle_plan(case, res, fail) or fails
        src, sl, tgt, tl = self._names(case)
        if "err" in res:
            fail("convert raised on a supported pair with well-formed items", repr((case["src"], case["tgt"], res)))
            return fails
        raw = uncps(res.get("final", res["doc"]))
        out = raw
        if case.get("via") == "cli":
            if not out.endswith("\n"):
                fail("the command line does not print the text followed by a newline", repr(out[-40:]))
            else:
                out = out[:-1]
        if case.get("color"):
            if tgt == "simplemrs":
                pre = uncps(res["doc"])
                if case.get("via") == "cli" and pre.endswith("\n"):
                    pre = pre[:-1]
                if "final" not in res:
                    fail("color=True with a simplemrs target did not go through the highlighter", repr(out[:80]))
                stripped = ANSI.sub("", out)
                if stripped not in (pre, pre + "\n"):
                    fail("highlighting changes the text beyond colour codes and one final newline",
                         repr((stripped[:200], pre[:200])))
                out = stripped[:-1] if (stripped.endswith("\n") and not pre.endswith("\n")) else stripped
            elif "\x1b" in out or "final" in res:
                fail("color=True changes the output of a target other than simplemrs", repr(out[:80]))
        sc, tc = codec(src), codec(tgt)
        per = self.per_item(case)
        if any(p[0] == "own" for p in per):
            # an item that cannot be processed on its own is outside the property's reach; convert must
            # then not have produced a normal result silently either -- nothing to compare
            return fails
        good = [p for p in per if p[0] == "ok"]
        if not case.get("isolation") and len(good) != len(per):
            fail("an item of a plain case could not be encoded on its own", repr([p[0] for p in per]))
        n = len(good)
        kw = {"indent": None if tl else case["indent"], "properties": case["properties"], "lnk": case["lnk"]}
        if tgt == "eds":
            kw["show_status"] = case.get("show_status", False)
        with warnings.catch_warnings():
            warnings.simplefilter("ignore")
            # (a) the text read back by the target codec
            if tl and tgt in READABLE:
                lines = io.StringIO(out).readlines()
                if len(lines) != n:
                    fail("'-lines' output does not have exactly one line per item", repr((n, len(lines))))
                elif hasattr(tc, "decode"):
                    for i, (ln, p) in enumerate(zip(lines, good)):
                        if ln.rstrip("\n") != p[1]:
                            fail("a line of '-lines' output is not the text that encoding the item on its own gives",
                                 repr((i, ln[:200], p[1][:200])))
                            break
                        try:
                            got = view(tc.decode(ln))
                        except Exception as e:
                            fail("a line of '-lines' output is not readable by the target codec",
                                 repr((i, type(e).__name__, ln[:200])))
                            break
                        want = view(read_string_or_file(tc, p[1], True))
                        if got != want:
                            fail("a line of '-lines' output decodes to a different structure than the item on its own",
                                 repr((i, got, want)))
                            break
                else:
                    for i, (ln, p) in enumerate(zip(lines, good)):
                        if ln.rstrip("\n") != p[1]:
                            fail("a line of '-lines' output differs from the item's own block", repr((i, ln[:200])))
                            break
            elif hasattr(tc, "loads"):
                try:
                    back = tc.loads(out)
                except Exception as e:
                    fail("the target codec cannot read the converted document",
                         repr((tgt, n, case["indent"], type(e).__name__, str(e)[:200], out[:300])))
                    try:
                        back = tc.load(io.StringIO(out))     # its file reader, to go on with count and order
                    except Exception:
                        back = None
                if back is not None:
                    if len(back) != n:
                        fail("the target codec reads a different number of structures than items were converted",
                             repr((tgt, n, len(back))))
                    else:
                        for i, (b, p) in enumerate(zip(back, good)):
                            want = view(read_string_or_file(tc, p[1], True))
                            if view(b) != want:
                                fail("a structure read back differs from converting and encoding that item on its own",
                                     repr((i, view(b), want)))
                                break
            else:
                # export-only target: exactly one block per item, in order, nothing else but the frame
                pos = 0
                ok = True
                for i, p in enumerate(good):
                    at = out.find(p[1].strip(), pos)
                    if at < 0:
                        fail("an item's block is missing from (or out of order in) the export document", repr((i, tgt)))
                        ok = False
                        break
                    pos = at + len(p[1].strip())
                marker = {"mrsprolog": "psoa(", "dmrstikz": "\\begin{dependency}"}.get(tgt)
                if ok and marker and out.count(marker) != n:
                    fail("export document does not contain exactly one block per item", repr((tgt, n, out.count(marker))))
            # (a') the blocks are the items' own encodings, verbatim and in order
            if not tl:
                pos = 0
                for i, p in enumerate(good):
                    at = out.find(p[1], pos)
                    if at < 0:
                        fail("the document does not hold the item's own encoding verbatim (in order)",
                             repr((i, tgt, p[1][:120])))
                        break
                    pos = at + len(p[1])
            # (b) same text as the codec's own list serializer, up to whitespace
            if not tl and hasattr(tc, "dumps"):
                try:
                    ref = tc.dumps([p[2] for p in good], **kw)
                except Exception as e:
                    ref = None
                    if n:
                        fail("the codec's own dumps() fails on the converted items", repr((tgt, type(e).__name__)))
                if ref is not None and "".join(out.split()) != "".join(ref.split()):
                    if not (n == 0 and tgt in XML_FAMILY):     # '<mrs-list />' vs '<mrs-list></mrs-list>'
                        fail("convert output differs from the target codec's dumps() by more than whitespace",
                             repr((tgt, n, out[:200], ref[:200])))
            # (c) same-representation transcoding there and back
            if REP[src] == REP[tgt] and not tl and tgt in READABLE and src != "ace" and src in WRITABLE \
                    and not case.get("isolation") and "indexedmrs" not in (src, tgt):
                try:
                    back_txt = commands.convert(io.StringIO(out), tgt, src, properties=case["properties"],
                                                lnk=case["lnk"], indent=case["indent"])
                    again = read_string_or_file(sc, back_txt, False)
                except Exception as e:
                    again = None
                    fail("transcoding back to the source format fails", repr((src, tgt, type(e).__name__, str(e)[:200])))
                if again is not None:
                    singles, _ = self._source_texts(case, src, sl)
                    idx = list(range(len(singles)))
                    if case["input"] == "dir":
                        _, idx = self._selected(case, len(singles))
                    orig = [(read_string_or_file(sc, singles[i], True) if sl
                             else read_string_or_file(sc, singles[i], False)[0]) for i in idx]
                    if len(again) != len(orig):
                        fail("transcoding there and back changes the number of structures", repr((len(orig), len(again))))
                    else:
                        for i, (a, o) in enumerate(zip(again, orig)):
                            va = common_view(view(a), (src, tgt), case["properties"], case["lnk"])
                            vo = common_view(view(o), (src, tgt), case["properties"], case["lnk"])
                            if va != vo:
                                fail("transcoding to another format of the same representation and back changes a structure "
                                     "beyond what both formats carry", repr((src, tgt, i, vo, va)))
                                break
            # (e) the items the source reader delivers are the items that were written: the i-th structure read from
            #     the source text on its own equals the i-th original structure (built without any parser) on what
            #     the source format carries -- incl. the kind and value of every lnk
            objs = self._objs(case)
            singles, _ = self._source_texts(case, src, sl)
            idx = list(range(len(singles)))
            if case["input"] == "dir":
                _, idx = self._selected(case, len(singles))
            fm = ("simplemrs",) if src == "ace" else (src,)
            for i in idx:
                if src == "ace":
                    x = ace_reading_alone(singles[i])
                else:
                    x = read_string_or_file(sc, singles[i], True) if sl else read_string_or_file(sc, singles[i], False)[0]
                vx, vo = view(x), view(objs[i])
                if src == "ace":
                    vo["surface"] = vx["surface"]
                a, b = common_view(vx, fm, True, True), common_view(vo, fm, True, True)
                if a != b:
                    fail("the source reader delivers a different structure than the item that was written",
                         repr((src, i, b, a)))
                    break
            # (z) variable / handle names come back VERBATIM (zero-padded numbers stay padded, x4 and x04 stay two
            #     variables): read the output with the target codec, and transcode it back to the source format
            if any(it.get("zpad") for it in case["items"]) and REP[tgt] == "mrs" and tgt in READABLE \
                    and len(good) == len(per):
                want = [mrs_var_names(objs[i]) for i in idx]
                semi_kw = {"semi": SEMI} if "indexedmrs" in (src, tgt) else {}

                def names_of(c_, text, lines_):
                    if lines_:
                        return [mrs_var_names(c_.decode(ln)) for ln in io.StringIO(text).readlines()]
                    return [mrs_var_names(x_) for x_ in c_.loads(text)]
                try:
                    got = names_of(tc, out, tl)
                    if got != want:
                        fail("variable names do not come back verbatim from the target document",
                             repr((tgt, [sorted(w ^ g) for w, g in zip(want, got)][:3], len(want), len(got))))
                    if src in WRITABLE:
                        back_txt = commands.convert(io.StringIO(out), case["tgt"], src, **semi_kw)
                        got2 = names_of(sc, back_txt, False)
                        if got2 != want:
                            fail("variable names do not come back verbatim after transcoding there and back",
                                 repr((src, tgt, [sorted(w ^ g) for w, g in zip(want, got2)][:3])))
                except Exception as e:
                    fail("a document with zero-padded variable numbers cannot be read back",
                         repr((src, tgt, type(e).__name__, str(e)[:200])))
            # (d) purity: the same input converted again -- directly, and after a conversion with other
            #     options (other indent, other target) in the same process -- gives the identical text
            out2, err2 = self.run_convert(case)
            if err2 is not None or out2 != raw:
                fail("converting the same input twice in one process gives different text",
                     repr((src, tgt, err2, (out2 or "")[:200], raw[:200])))
            if case.get("long"):
                return fails
            other = dict(case)
            other["indent"] = 2 if case["indent"] is None else None
            alts = [x for x in TARGETS if supported(src, x) and x != tgt]
            other["tgt"] = alts[(len(out) + len(case["items"])) % len(alts)]
            other["properties"] = not case["properties"]
            other["lnk"] = not case["lnk"]
            other["show_status"] = not case.get("show_status", False)
            other["predmod"] = not case["predmod"]
            if other.get("via") == "cli":
                other["cli_indent"] = "bare" if other["indent"] is None else "2"
            self.run_convert(other)
            out3, err3 = self.run_convert(case)
            if err3 is not None or out3 != raw:
                fail("converting the same input again after a conversion with other options gives different text",
                     repr((src, tgt, other["tgt"], err3, (out3 or "")[:200], raw[:200])))
        return fails

    def oracle_plan(self, case, res, fail):
        s_raw, t_raw = case["src"], case["tgt"]
        s, sl = norm_name(s_raw)
        t, tl = norm_name(t_raw)
        want_err = None
        if s not in ALL_CODECS or t not in ALL_CODECS:
            want_err = "CommandError"
        elif not supported(s, t):
            want_err = "CommandError"
        elif case["nproj"] != 1:
            want_err = "CommandError"
        elif s not in READABLE and not sl:
            want_err = "AttributeError"
        elif s == "indexedmrs" and not sl:
            want_err = "TypeError"           # load() needs the SEM-I that was not given
        if want_err:
            if res.get("err") != want_err:
                fail("invalid request not rejected as expected", repr((s_raw, t_raw, want_err, res)))
            return
        if "err" in res:
            fail("valid request with no items rejected", repr((s_raw, t_raw, res)))
            return
        if (res["src"], res["srcLines"], res["tgt"], res["tgtLines"]) != (s, sl, t, tl):
            fail("format names are not normalised as documented", repr((s_raw, t_raw, res)))
        ident = REP[s] == REP[t]
        if (res["conv"] == "ident") != ident:
            fail("converter is not the identity exactly when the representations agree", repr((s, t, res["conv"])))
        # zero items: the empty document of the target
        out = uncps(res["doc"])
        tc = codec(t)
        if hasattr(tc, "loads") and not tl and t != "indexedmrs":
            try:
                if len(tc.loads(out)) != 0:
                    fail("the document for zero items does not read back as zero structures", repr((t, out)))
            except Exception as e:
                fail("the document for zero items is not readable", repr((t, out, type(e).__name__)))
        if tl and out != "":
            fail("'-lines' output for zero items is not empty", repr(out))

    def classify(self, case, failure):
        return None

    def nontrivial_key(self, case, res):
        if case["kind"] == "cli_list":
            return None
        if case["kind"] == "convert" and not case["items"]:
            return None
        return json.dumps(case, sort_keys=True)

    def stats(self, case, res, counters):
        def inc(k):
            counters[k] = counters.get(k, 0) + 1
        inc("kind:" + case["kind"])
        if case["kind"] == "cli_list":
            return
        if case["kind"] == "integration":
            return integration.block_stats(res, counters)
        if case["kind"] == "plan":
            inc("plan:" + ("err:" + res["err"] if res and "err" in res else "ok"))
            return
        s, sl, t, tl = self._names(case)
        inc("n:%d" % len(case["items"]))
        inc("src:" + s + ("-lines" if sl else ""))
        inc("tgt:" + t + ("-lines" if tl else ""))
        inc("pair:%s->%s" % (REP[s], REP[t]))
        inc("input:" + case["input"])
        inc("indent:" + str(case["indent"]))
        inc("dup:" + case.get("dup", "none"))
        kinds_seen = set()
        for it in case["items"]:
            for u in (it.get("rels") or it.get("nodes") or []) + [{"lnk": it.get("mlnk")}]:
                l = u.get("lnk")
                kinds_seen.add("none" if l is None else (l["k"] if isinstance(l, dict) else "char"))
        for kd in sorted(kinds_seen):
            inc("lnk-kind:" + kd)
        if case.get("f08"):
            inc("converter-crash item in a document (F08 class): " + ("call fails " + res["err"] if res and "err" in res
                                                                       else "call succeeds"))
        if case.get("out_of_space"):
            inc("out-of-space (separator characters in strings)")
            inc("out-of-space:" + ("src-lines" if sl else case["input"]) + (":tgt-lines" if tl else ""))
            if getattr(self, "_oos_last", False):
                inc("out-of-space:differs (not a violation)")
        if s == "ace":
            for b in (case.get("ace_layout") or []):
                inc("ace:sentence with %s" % ("SKIP" if b == "skip" else "%s readings" % (b if b < 3 else "3+")))
        if case.get("long"):
            inc("long")
            inc("long:src=" + s + ":" + case["input"])
            try:
                _, doc = self._source_texts(case, s, sl)
                nt = count_tokens(s, doc) if s in LEXER_SOURCES else None
                if nt is not None:
                    inc("long:lexer-tokens>%d" % (2048 if nt > 2048 else 1024 if nt > 1024 else 0))
                else:
                    inc("long:chars>%dKiB" % (64 if len(doc) > 65536 else 16 if len(doc) > 16384 else 0))
                inc("long:items>=%d" % (10 * (len(case["items"]) // 10)))
            except Exception:
                pass
        texts = [json.dumps(j, sort_keys=True) for j in case["items"]]
        if len(set(texts)) < len(texts):
            inc("has_identical_items")
            inc("has_identical_items:" + case["input"] + ("+lines-source" if sl else ""))
        inc("props:%s lnk:%s predmod:%s" % (case["properties"], case["lnk"], case["predmod"]))
        if any(it.get("icons") for it in case["items"]):
            inc("items with ICONS")
        if case.get("semi_path"):
            inc("semi given as a path")
        if any(it.get("zpad") for it in case["items"]):
            inc("zero-padded variable numbers:" + case["items"][0]["zpad"] + ":%s->%s" % (s, t))
        if case.get("no_final_nl"):
            inc("lines source without final newline:n=%d:%s" % (len(case["items"]), case["input"]))
        if case.get("ace_mode"):
            inc("ace:" + case["ace_mode"])
        inc("via:" + case.get("via", "api"))
        if case.get("via") == "cli":
            inc("cli --indent:" + ("absent" if case.get("cli_indent") is None else case["cli_indent"]))
        inc("color:%s%s" % (bool(case.get("color")), "+highlighted" if res and "final" in res else ""))
        if t == "eds":
            inc("eds target show_status:%s" % bool(case.get("show_status")))
        for f in GLUE_FLAGS:
            if case.get(f) is not None and case.get(f) is not False:
                inc("glue-only:" + f + (":" + ("err " + res["err"] if res and "err" in res else "ok")))
        if res and "events" in res:
            fs = [e["f"] for e in res["events"]]
            inc("calls:" + "+".join(sorted(set(fs))) if fs else "calls:none")
            if "decode" in fs and "encode" in fs and fs.index("encode") < len(fs) - 1 - fs[::-1].index("decode"):
                inc("calls:decode after an encode (streaming)")
            if any(e["f"] == "encode" and any(k == "semi" for k, _ in e["kw"]) for e in res["events"]):
                inc("calls:encode with semi")
            if any(e["f"] in ("load", "loads", "decode") and e["kw"] for e in res["events"]):
                inc("calls:reader with semi")
        if case["input"] == "dir":
            inc("select:" + SELECTS[case["select"]][0])
        if case.get("isolation"):
            inc("isolation")
            try:
                per = self.per_item(case)
                inc("isolation:dropped=%d" % sum(1 for p in per if p[0] != "ok"))
            except Exception:
                pass
        if res and "err" in res:
            inc("err:" + res["err"])

    def shrink(self, case, still_fails):
        if case.get("kind") != "convert":
            return case
        cur = case
        changed = True
        while changed and len(cur["items"]) > 0:
            changed = False
            for i in range(len(cur["items"])):
                c2 = copy.deepcopy(cur)
                del c2["items"][i]
                try:
                    if still_fails(c2):
                        cur = c2
                        changed = True
                        break
                except Exception:
                    pass
        return cur


CHECK = C20()
