"""C06 — MRS isomorphism and bag comparison: generators, implementation runner, direct oracle.

Case kinds
  pair  {"kind":"pair","sub":…, "family":…, "m1": mrs-json, "m2": mrs-json, "props": bool, "seed": int}
        sub = self | renamed | mutant:<what> | unrelated
  bags  {"kind":"bags","test":[mrs…],"gold":[mrs…],"props":bool,"sub":…}

The direct oracle re-states the property on the MRS objects themselves (predications, role-labelled
arguments, labels, constants, constraints, properties); it never looks at the matcher's graph
encoding: `brute_iso` is an exhaustive search over bijections of predications and variables,
`wl_differs` is a colour-refinement certificate of NON-isomorphism used for structures too large
for the exhaustive search.
"""
import collections
import copy
import itertools
import json
import contextlib
import os
import random
import shutil
import signal
import tempfile

from .common import paths, semgen, tables
from .common.runner import Check

paths.ensure_repo_on_path()
from delphin import mrs as _mrs  # noqa: E402
from delphin import sembase, util  # noqa: E402
from delphin.mrs import _operations  # noqa: E402

# ---------------------------------------------------------------- small helpers on MRS JSON

def tv(v):
    return None if v is None else (v[0], v[1])


def ep(pred, label, args, carg=None):
    return {"pred": pred, "label": label, "args": args, "carg": carg, "lnk": None, "surface": None, "base": None}


def all_vars(j):
    """every variable of the structure (what MRS.variables will contain), as tuples"""
    out = []

    def add(v):
        if v is not None and tv(v) not in out:
            out.append(tv(v))
    for v, _ in j.get("vars", []):
        add(v)
    add(j.get("top"))
    add(j.get("index"))
    for e in j["rels"]:
        add(e["label"])
        for _, v in e["args"]:
            add(v)
    for a, _, b in j.get("hcons", []):
        add(b)
        add(a)
    for a, _, b in j.get("icons", []):
        add(a)
        add(b)
    return out


def iv_of(e):
    for r, v in e["args"]:
        if r == "ARG0":
            return tv(v)
    return None


def is_quant(e):
    return any(r == "RSTR" for r, _ in e["args"])


def props_of(j, v):
    for w, ps in j.get("vars", []):
        if tv(w) == v:
            return ps
    return []


def in_space(j):
    """the property's input space as this check reads it: every non-quantifier predication has an
    intrinsic variable of its own (at most one predication may lack ARG0), and no two constraints /
    arguments are parallel (same ordered pair of graph nodes)"""
    ivs = []
    missing = 0
    for e in j["rels"]:
        iv = iv_of(e)
        if iv is None:
            missing += 1
        elif not is_quant(e):
            if iv in ivs:
                return False
            ivs.append(iv)
    if missing > 1:
        return False
    return not has_parallel(j)


def has_parallel(j):
    pairs = set()
    for e in j["rels"]:
        iv = iv_of(e)
        if iv is not None and not is_quant(e):
            for r, v in e["args"]:
                pairs.add((iv, tv(v)))
            pairs.add((tv(e["label"]), iv))
        # a quantifier's node is not a variable: no constraint can be parallel to its edges
    seen = set()
    for a, _, b in list(j.get("hcons", [])) + list(j.get("icons", [])):
        k = (tv(a), tv(b))
        if k in pairs or k in seen:
            return True
        seen.add(k)
    return False


def shared_iv(j):
    ivs = [iv_of(e) for e in j["rels"] if not is_quant(e) and iv_of(e) is not None]
    return len(set(ivs)) != len(ivs)


# ---------------------------------------------------------------- renaming / shuffling / mutation

RESORTS = ["x", "e", "i", "u", "p"]


def rename_shuffle(rng, j, rename=True, shuffle=True, resort=False):
    """resort=True: the renaming also changes the SORT of the non-handle variables (x5 -> e9 ...), consistently;
    variable sorts are not among the things the property's bijection has to preserve"""
    j = copy.deepcopy(j)
    vs = all_vars(j)
    if rename:
        vids = list(range(1, 3 * len(vs) + 12))
        rng.shuffle(vids)
        ren = {v: [v[0] if (not resort or v[0] == "h") else rng.choice(RESORTS), vids[i]] for i, v in enumerate(vs)}
    else:
        ren = {v: [v[0], v[1]] for v in vs}

    def R(v):
        return None if v is None else list(ren[tv(v)])
    out = {"top": R(j.get("top")), "index": R(j.get("index")), "rels": [], "hcons": [], "icons": [], "vars": []}
    for e in j["rels"]:
        args = [[r, R(v)] for r, v in e["args"]]
        if shuffle:
            rng.shuffle(args)
        out["rels"].append(ep(e["pred"], R(e["label"]), args, e.get("carg")))
    out["hcons"] = [[R(a), r, R(b)] for a, r, b in j.get("hcons", [])]
    out["icons"] = [[R(a), r, R(b)] for a, r, b in j.get("icons", [])]
    out["vars"] = [[R(v), [list(p) for p in ps]] for v, ps in j.get("vars", [])]
    if shuffle:
        rng.shuffle(out["rels"])
        rng.shuffle(out["hcons"])
        rng.shuffle(out["icons"])
        rng.shuffle(out["vars"])
        for _, ps in out["vars"]:
            rng.shuffle(ps)
    return out


# ---------------------------------------------------------------- characters with interesting case behaviour
# single-point neighbours (a, b): one is replaced by the other, in either direction.  What the DOCUMENTED
# comparison says about them (predicates: lower-cased; property values: lower-cased; constants: exact):
#   ß/ss  ς/σ  ﬁ/fi  ſ/s  İ/i  ı/i   different under lower() but EQUAL under casefold()  -> different predicates
#   Σ/σ  K(Kelvin)/k  A/a               equal under lower()                                  -> the SAME predicate
#   é / e+U+0301, full-width/ASCII     equal only under NFC / NFKC                          -> different predicates
#   İ (lower() has length 2), ŉ, ǆ/ǅ   upper()/lower() change length or have title-case forms
TWINS = [("ß", "ss"), ("ς", "σ"), ("ﬁ", "fi"), ("ſ", "s"), ("İ", "i"), ("ı", "i"), ("I", "ı"),
         ("Σ", "σ"), ("Σ", "ς"), ("\u212a", "k"), ("\u212a", "K"), ("é", "e\u0301"), ("É", "é"),
         ("ａ", "a"), ("Ａ", "ａ"), ("ŉ", "ʼn"), ("ǆ", "ǅ"), ("ǆ", "dž"), ("ẞ", "ß"), ("ẞ", "SS"), ("µ", "μ")]

UNI_PREDS = ["_straße_n_1", "_strasse_n_1", "_λόγος_n_1", "_λόγοσ_n_1", "_ﬁsh_n_1", "_fish_n_1", "_ſee_v_1",
             "_see_v_1", "_İstanbul_n_1", "_istanbul_n_1", "_ıstanbul_n_1", "_café_n_1", "_cafe\u0301_n_1",
             "_ΣΟΦΌΣ_a_1", "_σοφός_a_1", "_ａｂｃ_n_1", "_abc_n_1", "_\u212aelvin_n_1", "_kelvin_n_1", "_kiss_v_1",
             "_µ_n_1", "_ǆem_n_1"]
UNI_CARGS = ["Straße", "Strasse", "STRASSE", "Σίσυφος", "σίσυφος", "İzmir", "Izmir", "ﬁn", "fin", "Ｋｉｍ", "Café",
             "Cafe\u0301"]
UNI_VALUES = ["ß", "ss", "SS", "Σ", "σ", "ς", "İ", "i", "ſg", "sg", "é", "e\u0301", "pré", "pre\u0301", "ａ", "a", "ﬁ",
              "fi"]


def pick_twin(rng, cands, key):
    """prefer (3:1) the candidates whose new string differs from the old one by more than ASCII case"""
    strong = [c for c in cands if key(c)[0].lower() != key(c)[1].lower() or not key(c)[1].isascii()]
    return rng.choice(strong if strong and rng.random() < 0.75 else cands)


def twin_variants(s):
    """all strings obtained from `s` by ONE replacement: a twin pair at one position, or the case of one letter"""
    out = []
    for a, b in TWINS:
        for x, y in ((a, b), (b, a)):
            i = s.find(x)
            while i >= 0:
                out.append(s[:i] + y + s[i + len(x):])
                i = s.find(x, i + 1)
    for i, c in enumerate(s):
        if c.swapcase() != c:
            out.append(s[:i] + c.swapcase() + s[i + 1:])
    return sorted(set(v for v in out if v != s))


def _ascii_lower(s):
    return "".join(chr(ord(c) + 32) if "A" <= c <= "Z" else c for c in s)


def _ascii_upper(s):
    return "".join(chr(ord(c) - 32) if "a" <= c <= "z" else c for c in s)


def model_covers(j):
    """the Lean model maps case for ASCII letters only: it covers a structure iff Python's lower()/upper()
    act on its predicates, property names and property values exactly like the ASCII-only maps"""
    for e in j["rels"]:
        if e["pred"].lower() != _ascii_lower(e["pred"]):
            return False
    for _, ps in j.get("vars", []):
        for k, v in ps:
            if k.upper() != _ascii_upper(k) or v.lower() != _ascii_lower(v):
                return False
    return True


def is_ascii_struct(j):
    return all(ord(c) < 128 for c in json.dumps(j, ensure_ascii=False))


def unicodeify(rng, j):
    """the same structure over an alphabet of predicates / constants / property values with non-ASCII letters"""
    j = copy.deepcopy(j)
    preds = sorted({e["pred"] for e in j["rels"] if not is_quant(e)})
    pool = list(UNI_PREDS)
    rng.shuffle(pool)
    ren = {p: pool[i % len(pool)] for i, p in enumerate(preds)}
    for e in j["rels"]:
        if e["pred"] in ren and rng.random() < 0.8:
            e["pred"] = ren[e["pred"]]
        if e.get("carg") is not None and rng.random() < 0.7:
            e["carg"] = rng.choice(UNI_CARGS)
    for _, ps in j["vars"]:
        for kv in ps:
            if rng.random() < 0.6:
                kv[1] = rng.choice(UNI_VALUES)
    return j


MUTATIONS = ["pred", "argtarget", "argrole", "argdrop", "argadd", "carg", "prop", "propadd", "hcons", "hcrel",
             "icons", "label", "predcase", "propcase", "predtwin", "cargtwin", "proptwin", "roletwin"]


def mutate(rng, j, what, fresh=False):
    """one single-point change; returns None when this structure offers no such point.
    fresh=True: the new value occurs nowhere else (the change then certainly leaves the class)."""
    j = copy.deepcopy(j)
    rels = j["rels"]
    if not rels:
        return None
    vs = all_vars(j)
    ivs = [v for v in vs if v[0] != "h"]
    hs = [v for v in vs if v[0] == "h"]
    if what == "pred":
        e = rng.choice(rels)
        others = sorted({x["pred"] for x in rels if x["pred"] != e["pred"]})
        e["pred"] = "_zz_v_9" if (fresh or not others) else rng.choice(others)
        return j
    if what == "predtwin":      # the NEAREST neighbour: one character replaced by its case / casefold / NFC / NFKC twin
        cands = [(e, v) for e in rels for v in twin_variants(e["pred"])]
        if not cands:
            return None
        e, v = pick_twin(rng, cands, lambda c: (c[0]["pred"], c[1]))
        e["pred"] = v
        return j
    if what == "cargtwin":
        cands = [(e, v) for e in rels if e.get("carg") for v in twin_variants(e["carg"])]
        if not cands:
            return None
        e, v = pick_twin(rng, cands, lambda c: (c[0]["carg"], c[1]))
        e["carg"] = v
        return j
    if what == "proptwin":
        cands = [(ps, i, v) for _, ps in j["vars"] for i in range(len(ps)) for v in twin_variants(ps[i][1])]
        if not cands:
            return None
        ps, i, v = pick_twin(rng, cands, lambda c: (c[0][c[1]][1], c[2]))
        ps[i][1] = v
        return j
    if what == "roletwin":
        cands = [(e, i, v) for e in rels for i, (r, _) in enumerate(e["args"]) if r not in ("ARG0", "RSTR")
                 for v in twin_variants(r) if v not in {x for x, _ in e["args"]} and v not in ("ARG0", "RSTR")]
        if not cands:
            return None
        e, i, v = rng.choice(cands)
        e["args"][i][0] = v
        return j
    if what == "predcase":      # NOT a change: another spelling of the same predicate
        e = rng.choice(rels)
        p = e["pred"]
        e["pred"] = rng.choice(['"%s_rel"' % p.upper(), p.upper(), "'" + p, p + "_REL"])
        return j
    if what in ("argtarget", "argrole", "argdrop"):
        cands = [(e, i) for e in rels for i, (r, _) in enumerate(e["args"]) if r not in ("ARG0", "RSTR")]
        if not cands:
            return None
        e, i = rng.choice(cands)
        r, v = e["args"][i]
        if what == "argdrop":
            del e["args"][i]
            return j
        if what == "argrole":
            used = {x for x, _ in e["args"]}
            free = [x for x in (["ARGX"] if fresh else ["ARG1", "ARG2", "ARG3", "ARG4"]) if x not in used]
            if not free:
                return None
            e["args"][i][0] = rng.choice(free)
            return j
        pool = [w for w in (hs if v[0] == "h" else ivs) if w != tv(v)]
        if not pool:
            return None
        e["args"][i][1] = list(rng.choice(pool))
        return j
    if what == "argadd":
        e = rng.choice(rels)
        used = {x for x, _ in e["args"]}
        free = [x for x in (["ARGX"] if fresh else ["ARG1", "ARG2", "ARG3", "ARG4"]) if x not in used]
        if not free or not ivs:
            return None
        e["args"].append([rng.choice(free), list(rng.choice(ivs))])
        return j
    if what == "carg":
        e = rng.choice(rels)
        if e.get("carg") is None:
            e["carg"] = "Zed" if fresh else rng.choice(["Kim", "Lee"])
        elif fresh:
            e["carg"] = "Zed"
        else:
            e["carg"] = rng.choice([c for c in ["Kim", "Lee", "kim", None] if c != e["carg"]])
        return j
    if what == "prop":
        cands = [(ps, i) for _, ps in j["vars"] for i in range(len(ps))]
        if not cands:
            return None
        ps, i = rng.choice(cands)
        old = ps[i][1]
        ps[i][1] = "zed" if fresh else rng.choice([x for x in ["1", "3", "sg", "pl", "past", "pres"] if x.lower() != old.lower()])
        return j
    if what == "propcase":      # NOT a change: property names and values are compared case-insensitively
        cands = [(ps, i) for _, ps in j["vars"] for i in range(len(ps))]
        if not cands:
            return None
        ps, i = rng.choice(cands)
        k = rng.randrange(2) if is_common_prop(ps[i][0]) else 1
        ps[i][k] = ps[i][k].swapcase()
        return j
    if what == "propadd":
        owners = [iv_of(e) for e in rels if iv_of(e) is not None]
        if not owners:
            return None
        v = rng.choice(owners)
        for w, ps in j["vars"]:
            if tv(w) == v:
                if any(k.upper() == "ZED" for k, _ in ps):
                    return None
                ps.append(["ZED", "plus"])
                return j
        j["vars"].append([list(v), [["ZED", "plus"]]])
        return j
    if what in ("hcons", "hcrel"):
        if not j["hcons"]:
            return None
        hc = rng.choice(j["hcons"])
        if what == "hcrel":
            hc[1] = "zeq" if fresh else rng.choice([x for x in ["qeq", "lheq", "outscopes"] if x != hc[1]])
            return j
        pool = [w for w in hs if w != tv(hc[2]) and w != tv(hc[0])]
        if not pool:
            return None
        hc[2] = list(rng.choice(pool))
        return j
    if what == "icons":
        if not j["icons"]:
            return None
        ic = rng.choice(j["icons"])
        if fresh or rng.random() < 0.5:
            ic[1] = "zed" if fresh else rng.choice([x for x in ["topic", "focus", "info-str"] if x != ic[1]])
            return j
        pool = [w for w in ivs if w != tv(ic[2]) and w != tv(ic[0])]
        if not pool:
            return None
        ic[2] = list(rng.choice(pool))
        return j
    if what == "label":
        e = rng.choice(rels)
        pool = [w for w in hs if w != tv(e["label"])]
        if not pool:
            return None
        e["label"] = list(rng.choice(pool))
        return j
    raise ValueError(what)


# ---------------------------------------------------------------- generators

# common properties (sembase._COMMON_PROPERTIES) and grammar-specific ones (ordered only by name)
X_PROPS = [["PERS", ["1", "3"]], ["NUM", ["sg", "pl"]], ["ZED", ["plus", "minus"]], ["COG-ST", ["uniq-id", "type-id"]],
           ["SPECI", ["+", "-"]], ["SORT", ["entity", "time"]]]
E_PROPS = [["TENSE", ["past", "pres"]], ["MOOD", ["indicative"]], ["SF", ["prop", "ques"]], ["E.ASPECT", ["perf", "prog"]],
           ["STATIVE", ["+", "-"]], ["A-TYPE", ["x", "y"]]]


# Candidate finding (reported to the coordinator, witness in corpus/C06/pending/): property names are upper-cased in
# the node label but SORTED by their original spelling (property_priority returns (index, prop)), so two structures
# that differ only in the letter case of a grammar-specific property name ("E.ASPECT" vs "e.aspect", next to
# "STATIVE") get differently ordered labels and are reported non-isomorphic.  Until it is decided, the generators do
# not vary the letter case of property names outside sembase._COMMON_PROPERTIES.
def is_common_prop(k):
    return k.upper() in sembase._COMMON_PROPERTIES


def _case_noise(rng, s):
    r = rng.random()
    return s.upper() if r < 0.15 else s.lower() if r < 0.3 else s


def gen_random(rng, n, npred=2, share=0.5, argp=0.45, quant=0.3, cargp=0.15, propp=0.4, iconp=0.25,
               selfp=0.08, missing_arg0=False, shared_ivs=False, unboundq=0.12):
    """random MRS over a small predicate alphabet (so that near-symmetric structures are common)"""
    preds = rng.sample(["_p_v_1", "_q_n_1", "_r_a_1", "named", "_and_c"], npred)
    nh = [0]

    def newh():
        nh[0] += 1
        return ["h", nh[0]]
    top = ["h", 0]
    ivs = [[rng.choice(["x", "x", "e", "e", "i"]), 10 + i] for i in range(n)]
    if shared_ivs and n >= 2:
        a, b = rng.sample(range(n), 2)
        ivs[b] = ivs[a]
    nl = max(1, rng.randrange(1, n + 1)) if n else 1
    lpool = [newh() for _ in range(nl)]
    rels, hcons = [], []
    for i in range(n):
        lbl = rng.choice(lpool) if rng.random() < share else newh()
        if lbl not in lpool:
            lpool.append(lbl)
        rels.append(ep(rng.choice(preds), lbl, [["ARG0", ivs[i]]]))
    labels = [e["label"] for e in rels]
    for i, e in enumerate(rels):
        for role in ("ARG1", "ARG2", "ARG3"):
            if rng.random() >= argp:
                continue
            r = rng.random()
            if r < 0.55:
                j = rng.randrange(n)
                if j == i and rng.random() >= selfp * 4:
                    j = (i + 1) % n
                tgt = ivs[j]
            elif r < 0.7:
                tgt = rng.choice(labels)
            elif r < 0.9:
                tgt = newh()
                hcons.append([tgt, rng.choice(["qeq", "qeq", "qeq", "lheq"]), rng.choice(labels)])
            else:
                tgt = [rng.choice(["x", "i", "u"]), 60 + rng.randrange(3)]     # unbound variable
            e["args"].append([role, tgt])
        if rng.random() < cargp:
            e["carg"] = rng.choice(["Kim", "Lee"])
    for i in range(n):
        if ivs[i][0] == "x" and rng.random() < quant:
            hole = newh()
            hcons.append([hole, "qeq", rels[i]["label"]])
            args = [["ARG0", ivs[i]], ["RSTR", hole]]
            if rng.random() < 0.6:
                args.append(["BODY", newh()])
            rels.append(ep(rng.choice(["_the_q", "_a_q"]), newh(), args))
    unbound = []
    if rng.random() < unboundq:
        # a quantifier whose bound variable is no other predication's intrinsic variable ("Some bark.")
        xv = ["x", 80 + rng.randrange(3)]
        hole = newh()
        if labels:
            hcons.append([hole, "qeq", rng.choice(labels)])
        rels.append(ep(rng.choice(["_some_q", "_the_q"]), newh(), [["ARG0", xv], ["RSTR", hole]]))
        unbound.append(xv)
        if n and rng.random() < 0.7:
            e = rng.choice(rels[:n])
            free = [r for r in ("ARG1", "ARG2", "ARG3") if r not in {x for x, _ in e["args"]}]
            if free:
                e["args"].append([free[0], xv])
    if missing_arg0 and rels:
        e = rng.choice(rels)
        if not is_quant(e):
            e["args"] = [a for a in e["args"] if a[0] != "ARG0"]
    variables = []
    seen = []
    for iv in ivs + unbound:
        if tv(iv) in seen:
            continue
        seen.append(tv(iv))
        if rng.random() < (propp if iv not in unbound else 0.9):
            menu = X_PROPS if iv[0] == "x" else E_PROPS
            # (the spelling of grammar-specific property NAMES is kept: see CASE_OF_NONCOMMON_NAMES below)
            ps = [[_case_noise(rng, k) if is_common_prop(k) else k, _case_noise(rng, rng.choice(vals))]
                  for k, vals in menu if rng.random() < 0.6]
            rng.shuffle(ps)
            if ps or rng.random() < 0.3:
                variables.append([iv, ps])
    if rels and rng.random() < 0.9:
        hcons.insert(0, [top, "qeq", rels[0]["label"]])
    icons = []
    if n >= 2 and rng.random() < iconp:
        for _ in range(rng.choice([1, 1, 2, 3])):
            a, b = rng.sample(range(n), 2)
            icons.append([ivs[a], rng.choice(["topic", "focus"]), ivs[b]])
    m = {"top": top if rng.random() < 0.9 else None, "index": ivs[0] if ivs and rng.random() < 0.8 else None,
         "rels": rels, "hcons": hcons, "icons": icons, "vars": variables}
    if has_parallel(m):
        m["icons"] = []
    return m


def gen_cycle(rng, n, two_preds=False):
    """n predications in a ring: each takes the next one's variable as ARG1 (rotational symmetry)"""
    ivs = [["e", 10 + i] for i in range(n)]
    lbl = ["h", 1]
    same_label = rng.random() < 0.5
    rels = []
    for i in range(n):
        p = "_p_v_1" if not two_preds or i % 2 == 0 else "_q_n_1"
        rels.append(ep(p, lbl if same_label else ["h", 1 + i], [["ARG0", ivs[i]], ["ARG1", ivs[(i + 1) % n]]]))
    return {"top": ["h", 0], "index": ivs[0], "rels": rels, "hcons": [[["h", 0], "qeq", rels[0]["label"]]],
            "icons": [], "vars": []}


def gen_star(rng, arms, depth):
    """a coordination-like star: one head with `arms` identical chains hanging off it"""
    nv = [10]
    nh = [1]

    def newv(s):
        nv[0] += 1
        return [s, nv[0]]

    def newh():
        nh[0] += 1
        return ["h", nh[0]]
    head_iv = newv("e")
    head = ep("_and_c", ["h", 1], [["ARG0", head_iv]])
    rels = [head]
    hcons = [[["h", 0], "qeq", ["h", 1]]]
    roles = ["L-INDEX", "R-INDEX", "M-INDEX", "N-INDEX", "O-INDEX"]
    scopal = rng.random() < 0.4
    for a in range(arms):
        prev = None
        for d in range(depth):
            iv = newv("x" if d == 0 else "e")
            lbl = newh()
            e = ep("_p_v_1", lbl, [["ARG0", iv]])
            if prev is not None:
                e["args"].append(["ARG1", prev])
            rels.append(e)
            prev = iv
            last_lbl = lbl
        head["args"].append([roles[a], prev])
        if scopal:
            hole = newh()
            head["args"].append([roles[a].replace("INDEX", "HNDL"), hole])
            hcons.append([hole, "qeq", last_lbl])
    return {"top": ["h", 0], "index": head_iv, "rels": rels, "hcons": hcons, "icons": [], "vars": []}


def gen_copies(rng, k, size, lean=False):
    """k disjoint copies of one random component (identical up to renaming)"""
    comp = gen_random(rng, size, npred=rng.choice([1, 2]), quant=0.0 if lean else 0.2, iconp=0.0,
                      unboundq=0.0 if lean else 0.12)
    out = {"top": ["h", 0], "index": None, "rels": [], "hcons": [], "icons": [], "vars": []}
    for c in range(k):
        cj = copy.deepcopy(comp)
        off = 100 * (c + 1)

        def R(v):
            return None if v is None else [v[0], v[1] + off]
        for e in cj["rels"]:
            out["rels"].append(ep(e["pred"], R(e["label"]), [[r, R(v)] for r, v in e["args"]], e.get("carg")))
        out["hcons"] += [[R(a), r, R(b)] for a, r, b in cj["hcons"]]
        out["icons"] += [[R(a), r, R(b)] for a, r, b in cj["icons"]]
        out["vars"] += [[R(v), copy.deepcopy(ps)] for v, ps in cj["vars"]]
    out["top"] = None
    return out


def gen_mutual(rng, n):
    """pairs of predications taking each other's variable as argument, plus self-loop arguments
    (the classes of the repaired findings F24 and F25)"""
    m = gen_random(rng, n, npred=rng.choice([1, 2]), argp=0.2, quant=0.1, iconp=0.0)
    rels = [e for e in m["rels"] if not is_quant(e)]
    if len(rels) >= 2:
        for _ in range(rng.choice([1, 1, 2])):
            a, b = rng.sample(rels, 2)
            for s, t in ((a, b), (b, a)):
                used = {r for r, _ in s["args"]}
                free = [r for r in ("ARG1", "ARG2", "ARG3") if r not in used]
                if free and not any(tv(v) == iv_of(t) for r, v in s["args"] if r != "ARG0"):
                    s["args"].append([rng.choice(free), list(iv_of(t))])
    if rels and rng.random() < 0.5:
        s = rng.choice(rels)
        used = {r for r, _ in s["args"]}
        free = [r for r in ("ARG1", "ARG2", "ARG3") if r not in used]
        if free:
            s["args"].append([rng.choice(free), list(iv_of(s))])
    return m


def gen_carg_props(rng):
    """the class of the repaired finding F21: a constant-bearing predication with properties"""
    m = gen_random(rng, rng.choice([1, 2, 3]), npred=2, cargp=0.9, propp=0.9, quant=0.0)
    return m


FAMILIES = ["random", "random1", "dense", "cycle", "cycle2", "star", "copies", "mutual", "cargprops", "tree", "illformed",
            "multihc"]


def gen_family(rng, fam, big=False):
    if fam == "random":
        n = rng.choice([0, 1, 2, 2, 3, 3, 4, 4, 5, 6, 7]) if not big else rng.randrange(8, 41)
        return gen_random(rng, n, npred=rng.choice([1, 2, 3]))
    if fam == "random1":
        n = rng.choice([2, 3, 4, 5, 6]) if not big else rng.randrange(8, 25)
        return gen_random(rng, n, npred=1, share=0.8, quant=0.0, cargp=0.0, propp=0.15, iconp=0.3)
    if fam == "dense":
        n = rng.choice([2, 3, 4, 5]) if not big else rng.randrange(8, 16)
        return gen_random(rng, n, npred=rng.choice([1, 2]), argp=0.8, quant=0.1)
    if fam == "cycle":
        return gen_cycle(rng, rng.choice([2, 3, 4, 5, 6, 7]) if not big else rng.randrange(8, 30))
    if fam == "cycle2":
        return gen_cycle(rng, rng.choice([2, 4, 6]) if not big else 2 * rng.randrange(4, 12), two_preds=True)
    if fam == "star":
        if big:
            return gen_star(rng, rng.choice([3, 4, 5]), rng.choice([2, 3, 4, 5]))
        return gen_star(rng, rng.choice([2, 3]), rng.choice([1, 2]))
    if fam == "copies":
        if big:
            # k identical components make a non-isomorphic pair exponentially expensive for the matcher (and far
            # more so for the interpreted model): keep k * size small
            return gen_copies(rng, 3, rng.choice([2, 3]), lean=True)
        return gen_copies(rng, rng.choice([2, 3]), rng.choice([1, 2]))
    if fam == "mutual":
        return gen_mutual(rng, rng.choice([2, 3, 4, 5]) if not big else rng.randrange(8, 20))
    if fam == "cargprops":
        return gen_carg_props(rng)
    if fam == "tree":
        m = semgen.gen_mrs_tree(rng, max_eps=7 if not big else 30)
        return m
    if fam == "illformed":
        return gen_random(rng, rng.choice([1, 2, 3, 4]), npred=2, missing_arg0=True, argp=0.5)
    if fam == "multihc":
        n = rng.choice([2, 3, 4, 5, 6]) if not big else rng.randrange(8, 25)
        return add_multi_constraints(rng, gen_random(rng, n, npred=rng.choice([1, 2, 3]), argp=0.6, quant=0.4))
    raise ValueError(fam)


def enum_small():
    """bounded-exhaustive: every MRS with up to 2 predications (3 in the thorough tier, see cases)
    over predicates {p,q}, one shared or two labels, optional ARG1 to either variable (incl. itself)"""
    preds = ["_p_v_1", "_q_n_1"]
    for n in (1, 2):
        ivs = [["x", 1], ["e", 2]][:n]
        choices = []
        for p in preds:
            for lab in (1, 2)[:n]:
                for tgt in [None] + list(range(n)):
                    for role in ("ARG1", "ARG2"):
                        if tgt is None and role == "ARG2":
                            continue
                        choices.append((p, lab, tgt, role))
        for combo in itertools.product(choices, repeat=n):
            rels = []
            for i, (p, lab, tgt, role) in enumerate(combo):
                args = [["ARG0", ivs[i]]]
                if tgt is not None:
                    args.append([role, ivs[tgt]])
                rels.append(ep(p, ["h", lab], args))
            yield {"top": ["h", 0], "index": ivs[0], "rels": rels, "hcons": [[["h", 0], "qeq", ["h", 1]]],
                   "icons": [], "vars": []}


# ---------------------------------------------------------------- the direct oracle's own notion of isomorphism

def norm_pred(p):
    """naive re-statement of predicate normalisation: quotes and _rel suffix dropped, case folded"""
    if len(p) >= 1 and p[0] == '"' and p[-1] == '"':
        p = p[1:-1]
    elif p[:1] == "'":
        p = p[1:]
    if p[-4:].lower() == "_rel":
        p = p[:-4]
    return p.lower()


def ep_local(j, e, props):
    ps = ()
    if props and iv_of(e) is not None:
        d = {}
        for k, v in props_of(j, iv_of(e)):
            d[k.upper()] = v.lower()
        ps = tuple(sorted(d.items()))
    return (norm_pred(e["pred"]), e.get("carg"), tuple(sorted(r for r, _ in e["args"])), ps)


def brute_iso(j1, j2, props, max_leftover=6):
    """exhaustive search for a bijection of predications and a bijection of variables preserving
    predicates, constants, role-labelled arguments, labels, handle and individual constraints and
    (if props) the properties of intrinsic variables.  None when too large."""
    V1, V2 = all_vars(j1), all_vars(j2)
    r1, r2 = j1["rels"], j2["rels"]
    if (len(V1) != len(V2) or len(r1) != len(r2) or len(j1["hcons"]) != len(j2["hcons"])
            or len(j1["icons"]) != len(j2["icons"])):
        return False
    n = len(r1)
    loc1 = [ep_local(j1, e, props) for e in r1]
    loc2 = [ep_local(j2, e, props) for e in r2]
    if sorted(map(repr, loc1)) != sorted(map(repr, loc2)):
        return False
    a1 = [dict((r, tv(v)) for r, v in e["args"]) for e in r1]
    a2 = [dict((r, tv(v)) for r, v in e["args"]) for e in r2]
    hc2 = collections.Counter((tv(a), r, tv(b)) for a, r, b in j2["hcons"])
    ic2 = collections.Counter((tv(a), r, tv(b)) for a, r, b in j2["icons"])
    sigma, back = {}, {}
    too_big = [False]

    def bind(u, v, trail):
        if u in sigma:
            return sigma[u] == v
        if v in back:
            return False
        sigma[u] = v
        back[v] = u
        trail.append(u)
        return True

    def finish():
        left1 = [v for v in V1 if v not in sigma]
        left2 = [v for v in V2 if v not in back]
        if len(left1) != len(left2):
            return False
        if len(left1) > max_leftover:
            too_big[0] = True
            return False
        for perm in itertools.permutations(left2):
            s = dict(sigma)
            s.update(zip(left1, perm))
            if (collections.Counter((s[tv(a)], r, s[tv(b)]) for a, r, b in j1["hcons"]) == hc2
                    and collections.Counter((s[tv(a)], r, s[tv(b)]) for a, r, b in j1["icons"]) == ic2):
                return True
        return False

    used = [False] * n

    def assign(i):
        if i == n:
            return finish()
        for k in range(n):
            if used[k] or loc1[i] != loc2[k]:
                continue
            trail = []
            ok = bind(tv(r1[i]["label"]), tv(r2[k]["label"]), trail)
            if ok:
                for r, v in a1[i].items():
                    if not bind(v, a2[k][r], trail):
                        ok = False
                        break
            if ok:
                used[k] = True
                if assign(i + 1):
                    return True
                used[k] = False
            for u in trail:
                del back[sigma[u]]
                del sigma[u]
        return False
    res = assign(0)
    if not res and too_big[0]:
        return None
    return res


def wl_differs(j1, j2, props, rounds=4):
    """colour refinement on the disjoint union; True = the two structures are certainly NOT
    isomorphic (different colour histograms).  False = no certificate."""
    items = []
    for side, j in ((0, j1), (1, j2)):
        for i, e in enumerate(j["rels"]):
            items.append(((side, "ep", i), repr(ep_local(j, e, props))))
        for v in all_vars(j):
            items.append(((side, "var", v), "v"))
    col = dict(items)

    def hist(c):
        h = [collections.Counter(), collections.Counter()]
        for (side, _, _), x in c.items():
            h[side][x] += 1
        return h
    for _ in range(rounds):
        h = hist(col)
        if h[0] != h[1]:
            return True
        new = {}
        inc = collections.defaultdict(list)
        for side, j in ((0, j1), (1, j2)):
            for i, e in enumerate(j["rels"]):
                ec = col[(side, "ep", i)]
                sig = [("lbl", col[(side, "var", tv(e["label"]))])]
                inc[(side, "var", tv(e["label"]))].append(("is-label-of", ec))
                for r, v in e["args"]:
                    sig.append(("arg", r, col[(side, "var", tv(v))]))
                    inc[(side, "var", tv(v))].append(("is-arg", r, ec))
                new[(side, "ep", i)] = repr((ec, sorted(sig)))
            for kind, cons in (("hc", j["hcons"]), ("ic", j["icons"])):
                for a, r, b in cons:
                    inc[(side, "var", tv(a))].append((kind + "-left", r, col[(side, "var", tv(b))]))
                    inc[(side, "var", tv(b))].append((kind + "-right", r, col[(side, "var", tv(a))]))
            for v in all_vars(j):
                new[(side, "var", v)] = repr((col[(side, "var", v)], sorted(inc[(side, "var", v)])))
        # compress
        names = {s: "c%d" % i for i, s in enumerate(sorted(set(new.values())))}
        col = {k: names[s] for k, s in new.items()}
    h = hist(col)
    return h[0] != h[1]


# ---------------------------------------------------------------- running the real code

def canon_graph(g):
    return sorted([n, sorted([[t, l] for t, l in d.items()], key=lambda p: (p[0] is not None, p[0] or ""))]
                  for n, d in g.items())


# ---------------------------------------------------------------- deterministic blocks (round 4)

def negation_chain(k, tail_args=False):
    """"not not ... leave": k locally identical scopal predications stacked over one verb; the copies
    differ only by their distance from the verb (distant context)."""
    rels, hcons = [], [[["h", 0], "qeq", ["h", 1]]]
    for i in range(k):
        lbl, hole, nxt = ["h", 1 + 2 * i], ["h", 2 + 2 * i], ["h", 3 + 2 * i]
        rels.append(ep("neg", lbl, [["ARG0", ["e", 50 + i]], ["ARG1", hole]]))
        hcons.append([hole, "qeq", nxt])
    args = [["ARG0", ["e", 90]]]
    if tail_args:
        args.append(["ARG1", ["x", 91]])
    rels.append(ep("_leave_v_1", ["h", 1 + 2 * k], args))
    if tail_args:
        rels.append(ep("_kim_n_1", ["h", 40], [["ARG0", ["x", 91]]]))
    return {"top": ["h", 0], "index": ["e", 90], "rels": rels, "hcons": hcons, "icons": [], "vars": []}


def modifier_chain(k):
    """k identical intersective modifiers in a row: each takes the next one's variable (a path, not a ring)"""
    rels = [ep("_very_x_deg", ["h", 1], [["ARG0", ["e", 10 + i]], ["ARG1", ["e", 11 + i]]]) for i in range(k)]
    rels.append(ep("_big_a_1", ["h", 1], [["ARG0", ["e", 10 + k]], ["ARG1", ["x", 70]]]))
    rels.append(ep("_dog_n_1", ["h", 1], [["ARG0", ["x", 70]]]))
    return {"top": ["h", 0], "index": ["x", 70], "rels": rels, "hcons": [[["h", 0], "qeq", ["h", 1]]], "icons": [],
            "vars": []}


def some_bark(pers="3", num="pl"):
    """fragment "Some bark.": the quantifier's bound variable is no other predication's intrinsic variable"""
    return {"top": ["h", 0], "index": ["e", 2],
            "rels": [ep("_some_q", ["h", 4], [["ARG0", ["x", 3]], ["RSTR", ["h", 5]], ["BODY", ["h", 6]]]),
                     ep("_bark_v_1", ["h", 1], [["ARG0", ["e", 2]], ["ARG1", ["x", 3]]])],
            "hcons": [[["h", 0], "qeq", ["h", 1]]], "icons": [],
            "vars": [[["x", 3], [["PERS", pers], ["NUM", num]]], [["e", 2], [["TENSE", "pres"]]]]}


def det_blocks():
    """deterministic cases of every tier (fixed random source: the same cases on every run)"""
    drng = random.Random(424242)

    def pair(sub, fam, m1, m2, props=True):
        return {"kind": "pair", "sub": sub, "family": fam, "m1": m1, "m2": m2, "props": props,
                "seed": drng.randrange(1 << 30), "big": False}
    # (a) locally identical predications distinguished only by distant context, under many renamings: whichever
    # copy the matcher tries first, some renaming makes it the wrong one, so the search has to backtrack
    structs = [negation_chain(k, t) for k in (2, 3, 4) for t in (False, True)] + [modifier_chain(k) for k in (2, 3, 4)]
    for m in structs:
        for _ in range(6):
            yield pair("renamed", "distant-context", rename_shuffle(drng, m), rename_shuffle(drng, m), drng.random() < 0.5)
        for what in ("argtarget", "hcons", "label", "pred"):
            mu = mutate(drng, m, what)
            if mu is not None and in_space(mu):
                yield pair("mutant:" + what, "distant-context", rename_shuffle(drng, m), rename_shuffle(drng, mu))
        # a renaming may also change variable SORTS (x -> e ...): not among the things an isomorphism preserves
        yield pair("renamed", "resorted", m, rename_shuffle(drng, m, resort=True), True)
        yield pair("renamed", "resorted", rename_shuffle(drng, m, resort=True), rename_shuffle(drng, m, resort=True), False)
        mu = mutate(drng, m, "argtarget")
        if mu is not None and in_space(mu):
            yield pair("mutant:argtarget", "resorted", m, rename_shuffle(drng, mu, resort=True), True)
    # (b) a quantifier over a variable that is nobody's intrinsic variable; one property value changed
    base = some_bark()
    for other, sub in ((some_bark(pers="1"), "mutant:prop"), (some_bark(num="sg"), "mutant:prop"),
                       (some_bark(), "renamed")):
        for props in (True, False):
            yield pair(sub, "unbound-quantifier", base, rename_shuffle(drng, other), props)
    # (c) bags with repeated members
    a, b, c = negation_chain(2), some_bark(), modifier_chain(2)
    a_surface = copy.deepcopy(a)
    a_surface["rels"][0]["surface"] = "not"          # ignored by MRS.__eq__ and by isomorphism
    ren = lambda m: rename_shuffle(drng, m)          # noqa: E731
    bags = [
        ("dup-equal", [a], [a, a], False),                     # the same reading twice, equal but distinct objects
        ("dup-same-object", [a], [a, a], True),                # the same object twice
        ("dup-equal", [a, a], [a], False),
        ("dup-equal", [a, a, b], [a, b, a, a], False),
        ("dup-up-to-eq", [a], [a, a_surface, c], False),       # twice up to what MRS.__eq__ ignores
        ("dup-renamed", [a, b], [ren(a), ren(a), ren(b)], False),
        ("dup-same-object", [a, b, a], [b, a, a], True),
        ("dup-equal", [b, b, b], [b, b], False),
    ]
    for sub, test, gold, share in bags:
        for props in (True, False):
            yield {"kind": "bags", "sub": sub, "test": copy.deepcopy(test), "gold": copy.deepcopy(gold),
                   "props": props, "share_objects": share}
    # (d) renamings that PERMUTE names already in use (x3 <-> x8 ...): the renamed structure has the same node
    # names as the original, attached to other nodes
    def permute_names(m, k):
        vs = all_vars(m)
        by_sort = {}
        for v in vs:
            by_sort.setdefault(v[0], []).append(v)
        ren = {}
        for srt, lst in by_sort.items():
            rot = lst[k % len(lst):] + lst[:k % len(lst)]
            for x, y in zip(lst, rot):
                ren[x] = y
        j = copy.deepcopy(m)

        def R(v):
            return None if v is None else list(ren[tv(v)])
        j["top"], j["index"] = R(j.get("top")), R(j.get("index"))
        for e in j["rels"]:
            e["label"] = R(e["label"])
            e["args"] = [[r, R(v)] for r, v in e["args"]]
        j["hcons"] = [[R(x), r, R(y)] for x, r, y in j["hcons"]]
        j["icons"] = [[R(x), r, R(y)] for x, r, y in j["icons"]]
        j["vars"] = [[R(v), ps] for v, ps in j["vars"]]
        return j
    for m in structs + [some_bark(), gen_cycle(drng, 4), gen_star(drng, 3, 2), gen_cycle(drng, 5, two_preds=True)]:
        for k in (1, 2, 3):
            pm = permute_names(m, k)
            yield pair("renamed", "name-permutation", m, pm, True)
            mu = mutate(drng, pm, drng.choice(["argtarget", "label", "hcons", "argrole"]))
            if mu is not None and in_space(mu):
                yield pair("mutant:name-permutation", "name-permutation", m, mu, True)
    # (e) constants that differ only in letter case (constants compare exactly)
    for c1, c2 in (("Kim", "kim"), ("KIM", "Kim"), ("McDonald", "Mcdonald"), ("Kim", "Kim")):
        def named(c):
            return {"top": ["h", 0], "index": ["e", 2],
                    "rels": [ep("named", ["h", 4], [["ARG0", ["x", 3]]], c),
                             ep("_bark_v_1", ["h", 1], [["ARG0", ["e", 2]], ["ARG1", ["x", 3]]])],
                    "hcons": [[["h", 0], "qeq", ["h", 1]]], "icons": [], "vars": []}
        for props in (True, False):
            yield pair("mutant:cargtwin" if c1 != c2 else "renamed", "constant-case", named(c1), ren(named(c2)), props)
    # (f) bags whose members have the same size signature but are not isomorphic, the true partner not first
    sig = [negation_chain(2)]
    for what in ("pred", "argtarget", "hcrel", "label"):
        mu = mutate(drng, sig[0], what)
        if mu is not None and in_space(mu) and len(all_vars(mu)) == len(all_vars(sig[0])):
            sig.append(mu)
    for rot in range(len(sig)):
        test = sig[rot:] + sig[:rot]
        gold = [ren(m) for m in reversed(sig)]
        yield {"kind": "bags", "sub": "selfcopy", "test": copy.deepcopy(test), "gold": gold, "props": True,
               "share_objects": False}
        yield {"kind": "bags", "sub": "same-signature", "test": copy.deepcopy(test[:2]), "gold": gold[:-1],
               "props": True, "share_objects": False}
    # (g) ==-close bag members: SAME variable names, differing in one property value / predicate / constant /
    # handle constraint, the look-alike before the true partner (any ==, in, remove, index on MRS objects inside
    # compare_bags that is coarser or finer than isomorphism shows here)
    A = some_bark()
    A["rels"].append(ep("named", ["h", 7], [["ARG0", ["x", 8]]], "Kim"))
    A["hcons"].append([["h", 5], "qeq", ["h", 7]])

    def variant(f):
        j = copy.deepcopy(A)
        f(j)
        return j
    closes = [variant(lambda j: j["vars"][1][1].__setitem__(0, ["TENSE", "past"])),
              variant(lambda j: j["vars"][0][1].__setitem__(0, ["PERS", "1"])),
              variant(lambda j: j["rels"][1].__setitem__("pred", "_meow_v_1")),
              variant(lambda j: j["rels"][2].__setitem__("carg", "Lee")),
              variant(lambda j: j["hcons"][1].__setitem__(1, "lheq"))]
    for B in closes:
        for props in (True, False):
            for test, gold in (([A, B], [B, A]), ([B, A], [A, B]), ([A, B], [B, B, A]), ([A], [B, A]), ([A, A, B], [B, A])):
                yield {"kind": "bags", "sub": "eq-close", "test": copy.deepcopy(test), "gold": copy.deepcopy(gold),
                       "props": props, "share_objects": False}
    # (h) several grammar-specific (non-common) properties on one variable, listed in different orders
    def with_props(order, case=False):
        j = some_bark()
        ps = [["COG-ST", "uniq-id"], ["SPECI", "+"], ["PERS", "3"], ["SORT", "entity"], ["NUM", "pl"]]
        ps = [ps[i] for i in order]
        if case:
            ps = [[k.lower() if is_common_prop(k) else k, v.upper()] for k, v in ps]
        j["vars"][0][1] = ps
        return j
    orders = [[0, 1, 2, 3, 4], [4, 3, 2, 1, 0], [1, 0, 3, 2, 4], [3, 1, 4, 0, 2]]
    for o1 in orders:
        for o2 in orders:
            yield pair("shuffled", "noncommon-props", with_props(o1), with_props(o2, case=(o1 != o2)), True)
            yield pair("renamed", "noncommon-props", with_props(o1), ren(with_props(o2)), True)
    diff = with_props(orders[1])
    diff["vars"][0][1][3] = ["SPECI", "-"]
    yield pair("mutant:prop", "noncommon-props", with_props(orders[0]), diff, True)
    yield pair("mutant:prop", "noncommon-props", with_props(orders[0]), diff, False)
    for members in ([a, a], [a, a, b], [b, c, b, c, b]):
        gold = [ren(m) for m in members]
        drng.shuffle(gold)
        yield {"kind": "bags", "sub": "selfcopy", "test": copy.deepcopy(members), "gold": gold, "props": True,
               "share_objects": False}


# ---------------------------------------------------------------- deterministic blocks (round 6): several constraints
# on ONE hole / ONE individual.  "h5 qeq h7, h5 qeq h9" is mildly ill-formed but NOT parallel (two different ordered
# pairs of graph nodes), hence inside the property's quantifier; likewise several individual constraints leaving one
# variable or arriving at one variable.  (Duplicate constraints and several constraints on the SAME ordered pair are
# parallel: outside the quantifier, kept as correspondence-only corpus cases.)

HC_RELS = ["qeq", "lheq", "outscopes"]
IC_RELS = ["topic", "focus", "info-str"]


def multi_hole(k, same_targets=False, rels=None, holes=1, top2=False):
    """a head taking `holes` handle arguments; every hole carries k constraints to k different labels"""
    rels = rels or ["qeq"] * k
    head = ep("_say_v_1", ["h", 1], [["ARG0", ["e", 2]]])
    out = {"top": ["h", 0], "index": ["e", 2], "rels": [head], "hcons": [[["h", 0], "qeq", ["h", 1]]], "icons": [],
           "vars": []}
    targets = []
    for i in range(k + (1 if holes > 1 else 0)):
        lbl = ["h", 20 + i]
        targets.append(lbl)
        out["rels"].append(ep("_t_v_1" if same_targets else "_t%d_v_1" % i, lbl, [["ARG0", ["e", 40 + i]]]))
    for h in range(holes):
        hole = ["h", 5 + h]
        head["args"].append(["ARG%d" % (h + 1), hole])
        for i in range(k):
            out["hcons"].append([hole, rels[(i + h) % len(rels)], targets[i + h]])
    if top2:
        out["hcons"].append([["h", 0], "qeq", targets[-1]])
    return out


def multi_icons(fan):
    """individual constraints: `fan` constraints leaving x10, `fan` arriving at x11, one antiparallel pair"""
    n = fan + 2
    rels = [ep("_n%d_n_1" % i, ["h", 1 + i], [["ARG0", ["x", 10 + i]]]) for i in range(n)]
    icons = []
    for i in range(fan):
        icons.append([["x", 10], IC_RELS[i % 2], ["x", 11 + i]])          # same left, different rights
    for i in range(fan):
        if [["x", 12 + i], ["x", 11]] not in [[a, b] for a, _, b in icons]:
            icons.append([["x", 12 + i], IC_RELS[(i + 1) % 2], ["x", 11]])  # different lefts, same right
    icons.append([["x", 11], "topic", ["x", 10]])                          # antiparallel to the first one
    return {"top": ["h", 0], "index": ["x", 10], "rels": rels, "hcons": [[["h", 0], "qeq", ["h", 1]]],
            "icons": icons, "vars": []}


def mutate_constraint_at(j, lst, i, how):
    """single-point change of constraint number i of j[lst] (deterministic): its relation, its right-hand side or
    its left-hand side; the new value is the first one that keeps the structure inside the input space and the
    number of variables unchanged.  None when there is none."""
    cycle = HC_RELS if lst == "hcons" else IC_RELS
    if how == "rel":
        mu = copy.deepcopy(j)
        c = mu[lst][i]
        c[1] = cycle[(cycle.index(c[1]) + 1) % len(cycle)] if c[1] in cycle else cycle[0]
        return mu
    side = 2 if how == "lo" else 0
    old = j[lst][i]
    pool = [w for w in all_vars(j) if (w[0] == "h") == (lst == "hcons") and w != tv(old[0]) and w != tv(old[2])]
    for w in sorted(pool):
        mu = copy.deepcopy(j)
        mu[lst][i][side] = list(w)
        if in_space(mu) and len(all_vars(mu)) == len(all_vars(j)):
            return mu
    return None


def rotate_to(lst, i, pos):
    """the same list with item i moved to position `pos` ("first", "middle", "last"), the others keeping their order"""
    rest = lst[:i] + lst[i + 1:]
    at = {"first": 0, "middle": len(rest) // 2, "last": len(rest)}[pos]
    return rest[:at] + [lst[i]] + rest[at:]


def multi_constraint_structs():
    out = [("hole2", multi_hole(2)), ("hole3-same-targets", multi_hole(3, same_targets=True)),
           ("hole3-mixed-relations", multi_hole(3, rels=["qeq", "lheq", "outscopes"])),
           ("two-holes+top2", multi_hole(2, holes=2, top2=True)),
           ("two-holes-same-targets", multi_hole(2, same_targets=True, holes=2, rels=["qeq", "lheq"])),
           ("icons-fan2", multi_icons(2)), ("icons-fan3", multi_icons(3))]
    both = multi_hole(2, holes=2)
    # one structure with several handle AND several individual constraints
    both["icons"] = [[["e", 2], "topic", ["e", 40]], [["e", 2], "focus", ["e", 41]], [["e", 42], "topic", ["e", 40]]]
    out.append(("holes+icons", both))
    return out


def multi_constraint_blocks():
    drng = random.Random(60606)
    nprops = [0]

    def pair(sub, m1, m2):
        nprops[0] += 1
        return {"kind": "pair", "sub": sub, "family": "multi-constraint", "m1": m1, "m2": m2,
                "props": nprops[0] % 3 != 0, "seed": drng.randrange(1 << 30), "big": False}
    for name, m in multi_constraint_structs():
        assert in_space(m), name
        # (1) the constraint lists reordered, nothing renamed: every rotation and the reversal
        for lst in ("hcons", "icons"):
            n = len(m[lst])
            for r in range(1, n):
                o = copy.deepcopy(m)
                o[lst] = o[lst][r:] + o[lst][:r]
                yield pair("shuffled", m, o)
            if n > 2:
                o = copy.deepcopy(m)
                o[lst] = o[lst][::-1]
                yield pair("shuffled", m, o)
        # (2) renamed and permuted
        for _ in range(3):
            yield pair("renamed", rename_shuffle(drng, m), rename_shuffle(drng, m))
        # (3) EACH constraint mutated (relation, right-hand side, left-hand side); the mutated constraint is put
        # first, in the middle and last in its list (so "the last one per hole wins" and "the first one wins" both
        # show), once with the original names and once renamed and shuffled
        for lst in ("hcons", "icons"):
            for i in range(len(m[lst])):
                for how in ("rel", "lo", "hi"):
                    mu = mutate_constraint_at(m, lst, i, how)
                    if mu is None:
                        continue
                    seen = []
                    for pos in (("first", "middle", "last") if how == "rel" else ("first", "last")):
                        o = copy.deepcopy(mu)
                        o[lst] = rotate_to(o[lst], i, pos)
                        if o[lst] not in seen:
                            seen.append(o[lst])
                            yield pair("mutant:%s-%s@%s" % (lst, how, pos), m, o)
                    yield pair("mutant:%s-%s" % (lst, how), m, rename_shuffle(drng, mu))


def add_multi_constraints(rng, m):
    """random dimension: give holes / individuals of a generated structure further (non-parallel) constraints"""
    m = copy.deepcopy(m)
    labels = sorted({tv(e["label"]) for e in m["rels"]})
    his = sorted({tv(a) for a, _, _ in m["hcons"]})
    for _ in range(rng.choice([1, 2, 3])):
        if not his or not labels:
            break
        hi, lo = rng.choice(his), rng.choice(labels)
        c = [list(hi), rng.choice(["qeq", "qeq", "lheq", "outscopes"]), list(lo)]
        m["hcons"].insert(rng.randrange(len(m["hcons"]) + 1), c)
        if not in_space(m):
            m["hcons"].remove(c)
    ivs = sorted({iv_of(e) for e in m["rels"] if iv_of(e) is not None and not is_quant(e)})
    if len(ivs) >= 3:
        a = rng.choice(ivs)
        for b in rng.sample([v for v in ivs if v != a], 2):
            c = [list(a), rng.choice(IC_RELS), list(b)] if rng.random() < 0.5 else [list(b), rng.choice(IC_RELS), list(a)]
            m["icons"].insert(rng.randrange(len(m["icons"]) + 1), c)
            if not in_space(m):
                m["icons"].remove(c)
    return m


def multi_constraint_features(j):
    his = collections.Counter(tv(a) for a, _, _ in j.get("hcons", []))
    los = collections.Counter(tv(b) for _, _, b in j.get("hcons", []))
    lefts = collections.Counter(tv(a) for a, _, _ in j.get("icons", []))
    rights = collections.Counter(tv(b) for _, _, b in j.get("icons", []))
    out = []
    if his and max(his.values()) > 1:
        out.append("feature:one hole with %s handle constraints" % ("2" if max(his.values()) == 2 else "3+"))
    if los and max(los.values()) > 1:
        out.append("feature:one label constrained from several holes")
    if lefts and max(lefts.values()) > 1:
        out.append("feature:one individual with several individual constraints (left)")
    if rights and max(rights.values()) > 1:
        out.append("feature:one individual with several individual constraints (right)")
    return out


# ---------------------------------------------------------------- the profile comparison command (round 6)
# delphin.commands.compare(testsuite, gold) is the consumer the property's motivation names: it selects
# (i-id, i-input, mrs) from two [incr tsdb()] profiles, decodes the MRS strings with the SimpleMRS codec, matches the
# rows of the two profiles by item and calls compare_bags on each item's two bags (default arguments).

COMPARE_RELATIONS = (
    "item:\n  i-id :integer :key\n  i-input :string\n\n"
    "parse:\n  parse-id :integer :key\n  i-id :integer :key\n  readings :integer\n\n"
    "result:\n  parse-id :integer :key\n  result-id :integer\n  mrs :string\n")


def write_profile(path, items, side):
    from delphin.codecs import simplemrs
    os.makedirs(path)
    with open(os.path.join(path, "relations"), "w", encoding="utf-8") as f:
        f.write(COMPARE_RELATIONS)
    item, parse, result = [], [], []
    for it in items:
        ms = it[side]
        if ms is None:          # the item is absent from this profile
            continue
        item.append("%d@%s" % (it["id"], it["input"]))
        parse.append("%d@%d@%d" % (it["id"] + 1000, it["id"], len(ms)))
        for k, j in enumerate(ms):
            text = simplemrs.encode(semgen.mrs_from_json(copy.deepcopy(j)))
            assert "@" not in text and "\n" not in text
            result.append("%d@%d@%s" % (it["id"] + 1000, k, text))
    for name, rows in (("item", item), ("parse", parse), ("result", result)):
        with open(os.path.join(path, name), "w", encoding="utf-8") as f:
            f.write("".join(r + "\n" for r in rows))


def codec_safe(j):
    """structures the SimpleMRS text carries unchanged: ASCII, a top, every variable of the `vars` list used"""
    if not is_ascii_struct(j) or j.get("top") is None or not j["rels"]:
        return False
    used = set()
    for e in j["rels"]:
        used.add(tv(e["label"]))
        used.update(tv(v) for _, v in e["args"])
        if e.get("carg") is not None and ('"' in e["carg"] or "\\" in e["carg"]):
            return False
        if any(c in e["pred"] for c in ' "<>[]'):
            return False
    for a, _, b in list(j["hcons"]) + list(j["icons"]):
        used.update((tv(a), tv(b)))
    if j.get("index") is not None:
        used.add(tv(j["index"]))
    import re
    for _, ps in j.get("vars", []):
        if any(not re.fullmatch(r"[A-Za-z0-9.+_-]+", x) for kv in ps for x in kv):
            return False           # (an empty property value is not readable SimpleMRS: another property's matter)
    return all(tv(v) in used for v, _ in j.get("vars", []))


def compare_case(rng, sub):
    pool = [negation_chain(2), some_bark(), modifier_chain(2), negation_chain(3, True), multi_hole(2), multi_icons(2)]
    for _ in range(4):
        m = gen_family(rng, rng.choice(["random", "cycle", "star", "tree", "mutual", "cargprops", "multihc"]))
        if in_space(m) and codec_safe(m):
            pool.append(m)
    for m in list(pool):
        mu = mutate(rng, m, rng.choice(["pred", "argtarget", "prop", "hcrel", "carg", "hcons"]))
        if mu is not None and in_space(mu) and codec_safe(mu):
            pool.append(mu)
    items = []
    for k in range(rng.choice([1, 2, 3, 4])):
        test = [copy.deepcopy(rng.choice(pool)) for _ in range(rng.choice([0, 1, 2, 3, 4]))]
        r = rng.random()
        if r < 0.4:
            gold = [rename_shuffle(rng, m) for m in test]
            rng.shuffle(gold)
            if gold and rng.random() < 0.5:
                gold.insert(rng.randrange(len(gold) + 1), rename_shuffle(rng, rng.choice(pool)))
        else:
            gold = [rename_shuffle(rng, rng.choice(pool)) for _ in range(rng.choice([0, 1, 2, 3]))]
        it = {"id": 10 * (k + 1), "input": "item %d" % k, "test": test, "gold": gold}
        if r > 0.9:
            it[rng.choice(["test", "gold"])] = None
        items.append(it)
    # planted in every case: readings that differ ONLY in one property value (properties are compared by default),
    # next to a true partner
    base = rng.choice([some_bark(), some_bark(num="sg")] + [m for m in pool if any(ps for _, ps in m.get("vars", []))])
    twin = mutate(rng, base, "prop")
    if twin is not None and in_space(twin) and codec_safe(twin):
        k = len(items)
        items.append({"id": 10 * (k + 1), "input": "item %d" % k, "test": [copy.deepcopy(base), copy.deepcopy(twin)][: rng.choice([1, 2])],
                      "gold": [rename_shuffle(rng, twin)]})
    return {"kind": "compare", "sub": sub, "items": items, "props": True}


def want_all_shared(ct, cg):
    return ct == cg


def build_bag(js, share):
    """MRS objects of a bag; with `share`, members with the same JSON text are ONE object"""
    cache, out = {}, []
    for j in js:
        k = json.dumps(j, sort_keys=True)
        if share and k in cache:
            out.append(cache[k])
            continue
        o = semgen.mrs_from_json(copy.deepcopy(j))
        cache[k] = o
        out.append(o)
    return out


class Nonterminating(Exception):
    pass


@contextlib.contextmanager
def time_limit(seconds):
    """the real code is run under an alarm: a matcher that no longer terminates must not hang the check"""
    def handler(signum, frame):
        _Limit.timeouts += 1
        raise Nonterminating()
    old = signal.signal(signal.SIGALRM, handler)
    signal.setitimer(signal.ITIMER_REAL, float(seconds))
    try:
        yield
    finally:
        signal.setitimer(signal.ITIMER_REAL, 0)
        signal.signal(signal.SIGALRM, old)


class _Limit:
    """20 s per call of the real code; after two calls that did not terminate, 0.3 s (so that a
    matcher that hangs on a whole class of inputs costs seconds, not hours)"""
    timeouts = 0

    def __float__(self):
        return 20.0 if _Limit.timeouts < 2 else 0.3


LIMIT = _Limit()


def run_iso(j1, j2, props):
    m1 = semgen.mrs_from_json(copy.deepcopy(j1))
    m2 = semgen.mrs_from_json(copy.deepcopy(j2))
    with time_limit(LIMIT):
        return _mrs.is_isomorphic(m1, m2, properties=props)


class C06(Check):
    pid = "C06"
    props_modules = ["Verif.C06.Props", "Verif.C06.PropsIter"]
    quick_cases = 1500
    thorough_cases = 15000
    rule = ("pairs (m, m), (m, renamed+shuffled m), (m, renamed+shuffled single-point mutant of m: predicate, "
            "argument target/role/added/dropped, constant, property value/added, handle constraint target/relation, "
            "individual constraint, label) and unrelated pairs, properties compared or ignored; families: random over "
            "1-3 predicates, one-predicate shared-label, dense arguments, rings, two-coloured rings, stars with "
            "identical arms, k disjoint identical components, mutual arguments and self-loop arguments, "
            "constants with properties, semgen scope trees, mildly ill-formed (one EP without ARG0, unbound "
            "variables, missing top); 0-7 predications for the exhaustive oracle (all structures with <= 2 "
            "predications over 2 predicates enumerated), 8-40 for the invariance clauses; bags of 0-6 structures with "
            "planted renamed copies and repeated members (equal JSON as distinct objects or as ONE object twice, members "
            "equal up to what MRS.__eq__ ignores, renamed copies); deterministic blocks in every tier: stacks of 2-4 "
            "locally identical scopal or modifier predications distinguished only by distant context ('not not leave') "
            "under 6 renamings each plus mutants, a quantifier over a variable that is no intrinsic variable ('Some "
            "bark.') with one property value changed, bags with repeated members; random structures get such an unbound "
            "quantifier with properties with probability 0.12; 30% of the structures over a non-ASCII alphabet of predicates / constants / "
            "property values (ß/ss, ς/σ/Σ, ﬁ/fi, ſ/s, İ/ı/i, Kelvin sign, é vs e+U+0301, full-width, ǆ/ǅ) and the "
            "single-point mutations predtwin/cargtwin/proptwin/roletwin replace ONE character by its case, casefold, "
            "NFC or NFKC twin. Round 6, deterministic in every tier: 7 structures in which ONE hole carries 2-3 handle "
            "constraints to different labels (same or different relations, identical or distinct targets, two holes, "
            "two constraints on the top) or ONE individual 2-3 individual constraints (same left / same right / an "
            "antiparallel pair): every rotation and the reversal of the constraint lists, 3 renamed+shuffled copies, and "
            "EACH constraint mutated in its relation, right-hand side and left-hand side with the mutated constraint "
            "placed first / in the middle / last in its list and once renamed; family multihc adds such constraints to "
            "random structures; renamings that change variable sorts; a purity battery on ONE pair of objects "
            "(properties toggled, arguments swapped); 6 (thorough 60) runs of commands.compare on two written profiles "
            "with planted property-only twins. Non-trivial: at least one predication; distinct by JSON text.")
    assumptions = [
        "input space: every non-quantifier predication has its own intrinsic variable (at most one predication "
        "without ARG0), no parallel constraints; ASCII names, no whitespace inside role names",
        "the Lean model maps case for ASCII letters only; a case whose predicates / property names / property values "
        "contain a letter on which Python's lower()/upper() differs from the ASCII-only map is not sent to the model "
        "and is decided by the direct oracle alone (documented comparison: predicates lower-cased after stripping quotes "
        "and _rel, property names upper-cased and values lower-cased, constants and roles exact); non-ASCII letters "
        "that lower() leaves alone (ß, ς, ﬁ, ſ, ı, é, full-width lower case) ARE compared with the model",
        "outside the input space (coordinator's decision), kept as correspondence-only corpus cases: predications "
        "sharing an intrinsic variable or two predications without ARG0 (the verdict then depends on the order of "
        "the predications: the first one owns the graph node); role names starting with '--' (the inverse-edge "
        "marker; cleanGraph is the stated hypothesis of the soundness theorems)",
        "the iterative stack machine of util._vf2 (while loop, explicit stack, del mapping[prev_n]) and the agenda "
        "loop of _vf2_new are modelled as written (lean/Verif/C06/Iter.lean) and PROVED to terminate and to return "
        "the mapping of the depth-first recursion the other theorems are about (PropsIter.vf2Iter_terminates_eq_vf2, "
        "vf2Iter_unique, feasibleCode_eq, vf2New_empty); the driver sends the LOOP's mapping and the sizes of the "
        "_vf2_new sets (always 0) to the correspondence check on every generated pair",
        "a hole / an individual may carry several constraints as long as no two lie on the same ORDERED pair of graph "
        "nodes (h5 qeq h7, h5 qeq h9: inside the quantifier); duplicate constraints and two relations on one ordered "
        "pair are parallel: outside, kept as correspondence-only corpus cases (the real code answers by the last one "
        "written and is not reorder-invariant there)",
        "a renaming may change the SORT of non-handle variables (x5 -> e9): variable sorts are not among the things the "
        "property's bijection preserves, and the code ignores them",
        "commands.compare (the profile comparison command) is run on two [incr tsdb()] profiles written by the harness "
        "from codec-safe structures (ASCII, a top, non-empty property values): one row per item with a result in "
        "either profile, the counting identities, shared = maximum matching by the exhaustive oracle; the model "
        "answers compare_bags per item",
        "soundness theorem assumes edge labels that cannot be confused with the '--' inverse marker "
        "(checked by the driver on every case: always true for generated structures)",
        "proved for the model: soundness, completeness, exactness w.r.t. isomorphism of the encoding graphs, "
        "reflexive/symmetric/transitive, never raises; the encoding graph is characterised as a replay of writes "
        "and from that: a renamed MRS (injective renaming) and an MRS with reordered RELS/HCONS/ICONS are reported "
        "isomorphic, and a True verdict preserves the multiset of predication node labels (predicate, constant, "
        "properties) so that one changed label is always rejected; hypotheses NamesOK / NoParallel / rowsOK "
        "(lean/Verif/C06/Spec.lean) are evaluated by the driver on every generated in-space case and must hold",
        "properties compared are those of intrinsic (for quantifiers: bound) variables only, as (upper-cased name, "
        "lower-cased value) pairs; InSpace additionally asks for property names without lower-case letter, '=' or '|' "
        "and values without '|' (the rendered text {P=v|...} is then injective and independent of insertion order)",
        "faithfulness is proved in both directions on the input space InSpace (lean/Verif/C06/Spec.lean): is_isomorphic "
        "answers True exactly on isomorphic MRSs (MRSIso, defined without the graph), and isomorphic MRSs pass the "
        "size pre-checks; InSpace is evaluated by the driver on every generated case (the counts are in the evidence; "
        "cases outside it are the lower-case-role and unknown-hcons-relation mutants) — for those and for the real "
        "code the direct oracle (exhaustive bijection search on the MRS objects up to 7 predications) decides",
    ]
    trusted_base = ["hand-written model lean/Verif/C06/Model.lean, tied to delphin.util._vf2* and "
                    "delphin.mrs._operations by the correspondence run (graph, augmented graph, mapping, verdict)",
                    "generated table commonProperties read from delphin.sembase",
                    "shared MRS structures lean/Verif/Common/Sem.lean and harness/common/semgen.py"]

    def __init__(self):
        self._brute = 0
        self._inspace = {}

    def tables(self):
        """Generated table `commonProperties` plus the PINS: names and constants of the anchored functions that the
        hand-written model mirrors, read from the live code objects (docstrings dropped; nested code objects of
        generator expressions flattened in order)."""
        import types

        from delphin.mrs import _mrs as mrsmod
        from delphin import predicate as predmod
        lit = tables.lean_strlit

        def show(c):
            return c if isinstance(c, str) else repr(c)

        def walk(fn, attr):
            out = []

            def rec(code):
                for c in getattr(code, attr):
                    if isinstance(c, types.CodeType):
                        continue
                    if attr == "co_consts" and c == fn.__doc__:
                        continue
                    out.append(show(c))
                for c in code.co_consts:
                    if isinstance(c, types.CodeType):
                        out.append(c.co_name)
                        rec(c)
            rec(fn.__code__)
            return out

        def defaults(fn):
            return [repr(x) for x in (fn.__defaults__ or ())] + \
                   ["%s=%r" % kv for kv in sorted((fn.__kwdefaults__ or {}).items())]

        def lst(name, xs):
            return "def %s : List String := [%s]" % (name, ", ".join(lit(x) for x in xs))
        fns = [("IsIsomorphic", _operations.is_isomorphic), ("MakeIsograph", _operations._make_mrs_isograph),
               ("CompareBags", _operations.compare_bags), ("Vf2", util._vf2), ("InvMap", util._vf2_inv_map),
               ("Feasible", util._vf2_feasible), ("New", util._vf2_new), ("Consistent", util._vf2_consistent),
               ("Candidates", util._vf2_candidates), ("Normalize", predmod.normalize),
               ("StripPredicate", predmod._strip_predicate), ("PropertyPriority", sembase.property_priority),
               ("FillVariables", mrsmod._fill_variables), ("UniquifyIds", mrsmod._uniquify_ids)]
        lines = ["def commonProperties : List String := [%s]"
                 % ", ".join(lit(p) for p in sembase._COMMON_PROPERTIES)]
        for nm, fn in fns:
            lines.append(lst("c06%sNames" % nm, walk(fn, "co_names")))
            lines.append(lst("c06%sConsts" % nm, walk(fn, "co_consts")))
        lines.append(lst("c06IsIsomorphicDefaults", defaults(_operations.is_isomorphic)))
        lines.append(lst("c06CompareBagsDefaults", defaults(_operations.compare_bags)))
        lines.append(lst("c06Roles", [_mrs.CONSTANT_ROLE, _mrs.INTRINSIC_ROLE, _mrs.RESTRICTION_ROLE,
                                      mrsmod._QUANTIFIER_TYPE]))
        lines.append(lst("c06CommonPropertyIndex",
                         ["%s=%d" % kv for kv in sembase._COMMON_PROPERTY_INDEX.items()]))
        return lines

    # ---- generators
    def pair_cases(self, rng, m, fam, big=False):
        """the standard battery around one structure"""
        def mk(sub, m1, m2, props):
            return {"kind": "pair", "sub": sub, "family": fam, "m1": m1, "m2": m2, "props": props,
                    "seed": rng.randrange(1 << 30), "big": big}
        props = rng.random() < 0.7
        # (sort changes only on small structures: with names that sort after 'h…' the matcher maps a shared label
        # early, every node becomes a candidate, and a 24-ring under one label takes minutes — time is not part of
        # the property, and the harness's 20 s guard would call it non-termination)
        resort = rng.random() < 0.25 and not big
        yield mk("renamed", m, rename_shuffle(rng, m, resort=resort), props)
        if rng.random() < 0.25:
            yield mk("self", m, copy.deepcopy(m), props)
        if rng.random() < 0.3:
            yield mk("shuffled", m, rename_shuffle(rng, m, rename=False), not props)
        whats = rng.sample(MUTATIONS, 3 if not big else 2)
        if rng.random() < 0.5:
            whats.append(rng.choice(["predtwin", "predtwin", "cargtwin", "proptwin", "proptwin"]))
        for what in whats:
            mu = mutate(rng, m, what, fresh=(big and rng.random() < 0.5))
            if mu is None or not in_space(mu):
                continue
            yield mk("mutant:" + what, m, rename_shuffle(rng, mu), props if what not in ("prop", "propadd", "propcase", "proptwin") else rng.random() < 0.8)

    def cases(self, rng, tier, n):
        # deterministic part: all small structures against a renamed copy and against each other
        small = list(enum_small())
        step = 1 if tier == "thorough" else 7
        drng = random.Random(12345)
        for idx in range(0, len(small), step):
            m = small[idx]
            yield {"kind": "pair", "sub": "renamed", "family": "enum", "m1": m, "m2": rename_shuffle(drng, m),
                   "props": True, "seed": idx, "big": False}
            o = small[(idx * 31 + 7) % len(small)]
            yield {"kind": "pair", "sub": "unrelated", "family": "enum", "m1": m, "m2": rename_shuffle(drng, o),
                   "props": True, "seed": idx, "big": False}
        yield from det_blocks()
        yield from multi_constraint_blocks()
        crng = random.Random(7117)
        for _ in range(6 if tier == "quick" else 60):
            yield compare_case(crng, "deterministic")
        # deterministic: every twin pair in every slot (predicate, constant, property value, role)
        for k, (a, b) in enumerate(TWINS):
            for slot in ("pred", "carg", "prop", "role"):
                def build(x):
                    e1 = ep("_w%sz_n_1" % x if slot == "pred" else "_p_n_1", ["h", 1], [["ARG0", ["x", 1]]],
                            ("C" + x) if slot == "carg" else None)
                    e2 = ep("_q_v_1", ["h", 1], [["ARG0", ["e", 2]], [("R" + x) if slot == "role" else "ARG1", ["x", 1]]])
                    vs = [[["x", 1], [["PERS", x]]]] if slot == "prop" else []
                    return {"top": ["h", 0], "index": ["e", 2], "rels": [e1, e2], "hcons": [[["h", 0], "qeq", ["h", 1]]],
                            "icons": [], "vars": vs}
                for props in ((True, False) if slot == "pred" else (True,)):
                    yield {"kind": "pair", "sub": "mutant:%stwin" % {"pred": "pred", "carg": "carg", "prop": "prop",
                                                                     "role": "role"}[slot],
                           "family": "twins", "m1": build(a), "m2": rename_shuffle(drng, build(b)), "props": props,
                           "seed": 1000 + k, "big": False}
        count = 0
        nbig = 0
        while count < n:
            r = rng.random()
            if r < 0.09:
                c = self.gen_bags(rng) if r > 0.004 else compare_case(rng, "random")
                yield c
                count += 1
                continue
            big = r > 0.93
            fam = rng.choice(FAMILIES if not big else ["random", "random1", "dense", "cycle", "cycle2", "star",
                                                        "copies", "mutual", "tree", "multihc"])
            m = gen_family(rng, fam, big=big)
            if not in_space(m):
                continue
            # (a LARGE ring whose predicates are recoloured at random is exponentially expensive for the backtracking
            # matcher — 15 s for 24 predications — and the property says nothing about time: large rings stay plain)
            if rng.random() < 0.3 and not (big and fam in ("cycle", "cycle2")):
                m = unicodeify(rng, m)
            if big:
                nbig += 1
            if r < 0.2 and not big:
                o = gen_family(rng, fam)
                if in_space(o):
                    yield {"kind": "pair", "sub": "unrelated", "family": fam, "m1": m, "m2": rename_shuffle(rng, o),
                           "props": rng.random() < 0.7, "seed": rng.randrange(1 << 30), "big": False}
                    count += 1
            for c in self.pair_cases(rng, m, fam, big=big):
                yield c
                count += 1

    def gen_bags(self, rng):
        pool = []
        for _ in range(rng.choice([1, 2, 3, 4])):
            m = gen_family(rng, rng.choice(["random", "cycle", "mutual", "cargprops", "star"]))
            if in_space(m):
                pool.append(unicodeify(rng, m) if rng.random() < 0.4 else m)
        if not pool:
            pool = [gen_cycle(rng, 2)]
        # near copies: single-point mutants of pool members
        for m in list(pool):
            if rng.random() < 0.5:
                mu = mutate(rng, m, rng.choice(MUTATIONS + ["predtwin", "predtwin", "cargtwin"]))
                if mu is not None and in_space(mu):
                    pool.append(mu)
        sub = rng.choice(["random", "random", "selfcopy", "disjoint"])
        test = [copy.deepcopy(rng.choice(pool)) for _ in range(rng.choice([0, 1, 2, 3, 4, 5, 6]))]
        if sub == "selfcopy":
            gold = [rename_shuffle(rng, m) for m in test]
            rng.shuffle(gold)
        elif sub == "disjoint":
            gold = [rename_shuffle(rng, mutate(rng, m, "pred", fresh=True) or m) for m in test[: rng.randrange(4)]]
        else:
            gold = [rename_shuffle(rng, rng.choice(pool)) for _ in range(rng.choice([0, 1, 2, 3, 4, 5]))]
        if rng.random() < 0.3 and test:
            # ==-close members with the SAME variable names, the look-alike first in gold
            base = rng.choice(test)
            mu = mutate(rng, base, rng.choice(["prop", "prop", "pred", "carg", "hcrel", "proptwin", "cargtwin"]))
            if mu is not None and in_space(mu):
                test = [copy.deepcopy(base), copy.deepcopy(mu)] + test[:2]
                gold = [copy.deepcopy(mu), copy.deepcopy(base)] + gold[:2]
                sub = sub + "+eqclose"
        share = False
        if rng.random() < 0.45 and (gold or test):
            # repeated members: equal JSON (equal but distinct objects, or one object twice), or renamed copies
            share = rng.random() < 0.4
            for bag in (gold, test):
                for _ in range(rng.choice([0, 1, 1, 2])):
                    if bag:
                        m = rng.choice(bag)
                        bag.insert(rng.randrange(len(bag) + 1),
                                   copy.deepcopy(m) if rng.random() < 0.7 else rename_shuffle(rng, m))
            sub = sub + "+dup"
        return {"kind": "bags", "sub": sub, "test": test, "gold": gold, "props": rng.random() < 0.7,
                "share_objects": share}

    def search_cases(self, rng, tier, n, seeds):
        fams = sorted({c.get("family") for c in seeds if c.get("kind") == "pair" and c.get("family") in FAMILIES})
        count = 0
        # neighbours of the disagreeing cases first
        for c in seeds:
            if c.get("kind") != "pair":
                continue
            for what in MUTATIONS:
                mu = mutate(rng, c["m1"], what)
                if mu is not None and in_space(mu):
                    for p in (True, False):
                        yield {"kind": "pair", "sub": "mutant:" + what, "family": c.get("family", "random"),
                               "m1": c["m1"], "m2": rename_shuffle(rng, mu), "props": p,
                               "seed": rng.randrange(1 << 30), "big": False}
                        count += 1
        while count < n:
            fam = rng.choice(fams or FAMILIES)
            m = gen_family(rng, fam)
            if not in_space(m):
                continue
            for c in self.pair_cases(rng, m, fam):
                yield c
                count += 1

    # ---- implementation
    def impl_compare(self, case):
        from delphin import commands
        d = tempfile.mkdtemp(dir="/var/tmp", prefix="c06-")
        try:
            write_profile(os.path.join(d, "test"), case["items"], "test")
            write_profile(os.path.join(d, "gold"), case["items"], "gold")
            with time_limit(LIMIT):
                rows = list(commands.compare(os.path.join(d, "test"), os.path.join(d, "gold")))
            # (the item key comes back as the text of the i-id field)
            return [[int(r["id"]), r["input"], r["test"], r["shared"], r["gold"]] for r in rows]
        except Nonterminating:
            return {"err": "Nonterminating"}
        except Exception as e:          # noqa: BLE001  (any error of the command on codec-safe profiles is a failure)
            return {"err": type(e).__name__}
        finally:
            shutil.rmtree(d, ignore_errors=True)

    def impl(self, case):
        if case["kind"] == "compare":
            return self.impl_compare(case)
        if case["kind"] == "bags":
            test = build_bag(case["test"], case.get("share_objects"))
            gold = build_bag(case["gold"], case.get("share_objects"))
            try:
                with time_limit(LIMIT):
                    return list(_mrs.compare_bags(test, gold, properties=case["props"]))
            except KeyError:
                return {"err": "KeyError"}
            except Nonterminating:
                return {"err": "Nonterminating"}
        props = case["props"]
        try:
            m1 = semgen.mrs_from_json(copy.deepcopy(case["m1"]))
            m2 = semgen.mrs_from_json(copy.deepcopy(case["m2"]))
            with time_limit(LIMIT):
                verdict = _mrs.is_isomorphic(m1, m2, properties=props)
                g1 = _operations._make_mrs_isograph(m1, props)
                g2 = _operations._make_mrs_isograph(m2, props)
                plain = canon_graph(g1)
                mapping = util._vf2(g1, g2)          # augments g1, g2 in place
                # the look-ahead helper on the augmented graph, under the empty and under the returned mapping
                rnew = [sum(len(util._vf2_new({}, g1, n)) for n in g1),
                        sum(len(util._vf2_new(mapping, g1, n)) for n in g1)]
            return {"iso": bool(verdict), "map": [[a, b] for a, b in mapping.items()], "g1": plain,
                    "a1": canon_graph(g1), "rnew": rnew}
        except KeyError:
            return {"err": "KeyError"}
        except Nonterminating:
            return {"err": "Nonterminating"}

    def model_expected(self, case, res):
        if case["kind"] == "compare" and isinstance(res, list):
            return [r[2:] for r in sorted(res)]
        return super().model_expected(case, res)

    def model_request(self, case):
        if case["kind"] == "compare":
            # the model sees the bags of the items some profile has results for, in item order
            items = [{"test": it["test"] or [], "gold": it["gold"] or []} for it in sorted(case["items"], key=lambda i: i["id"])
                     if (it["test"] or it["gold"])]
            return {"op": "compare", "items": items, "props": True}
        structs = (case["test"] + case["gold"]) if case["kind"] == "bags" else [case["m1"], case["m2"]]
        if not all(model_covers(j) for j in structs):
            return None       # case mapping of non-ASCII letters is not modelled: the direct oracle decides
        if case["kind"] == "bags":
            return {"op": "bags", "test": case["test"], "gold": case["gold"], "props": case["props"]}
        return {"op": "iso", "m1": case["m1"], "m2": case["m2"], "props": case["props"]}

    def model_compare(self, case, expected, answer):
        if case["kind"] == "pair" and isinstance(answer, dict) and "g1" in answer:
            answer = dict(answer)
            clean = answer.pop("clean", None)
            hyps = answer.pop("hyps", None)
            insp = answer.pop("inspace", None)
            self._inspace[bool(insp)] = self._inspace.get(bool(insp), 0) + 1
            if hyps is not True and case.get("oracle") != "skip":
                return {"model": "the input-space hypotheses of the encoding theorems (NamesOK, NoParallel, rowsOK) "
                                 "are false on a generated in-space case", "case": case}
            for k in ("g1", "a1"):
                answer[k] = sorted([n, sorted(es, key=lambda p: (p[0] is not None, p[0] or ""))] for n, es in answer[k])
            if clean is not True and case.get("oracle") != "skip":
                return {"model": "side condition cleanGraph is false on a generated case", "answer": answer}
        return super().model_compare(case, expected, answer)

    # ---- direct oracle
    def oracle(self, case, res):
        fails = []

        def fail(clause, detail):
            fails.append({"clause": clause, "detail": detail})
        if case.get("oracle") == "skip":
            # structures OUTSIDE the property's input space, kept as correspondence-only cases
            return fails
        if case["kind"] == "compare":
            return self.oracle_compare(case, res, fail) or fails
        if case["kind"] == "bags":
            return self.oracle_bags(case, res, fail) or fails
        if isinstance(res, dict) and "err" in res:
            fail("is_isomorphic raised or did not terminate on a structure of the input space", res["err"])
            return fails
        j1, j2, props = case["m1"], case["m2"], case["props"]
        verdict = res["iso"]
        try:
            return self.oracle_pair(case, j1, j2, props, verdict, fails, fail)
        except Nonterminating:
            fail("is_isomorphic raised or did not terminate on a structure of the input space", "Nonterminating")
            return fails

    def oracle_pair(self, case, j1, j2, props, verdict, fails, fail):
        # reflexive
        for name, j in (("m1", j1), ("m2", j2)):
            if run_iso(j, j, props) is not True:
                fail("reflexive: a structure is isomorphic to itself", name)
        # symmetric
        back = run_iso(j2, j1, props)
        if back != verdict:
            fail("symmetric: the verdict does not depend on the order of the two arguments", [verdict, back])
        # renaming and reordering invariance (a renaming chosen by the oracle, on both sides)
        orng = random.Random(case.get("seed", 0))
        v2 = run_iso(rename_shuffle(orng, j1), rename_shuffle(orng, j2), props)
        if v2 != verdict:
            fail("invariant: renaming variables and reordering predications/constraints does not change the verdict",
                 [verdict, v2])
        # documented defaults: properties are compared unless switched off
        if props:
            with time_limit(LIMIT):
                dflt = _mrs.is_isomorphic(semgen.mrs_from_json(copy.deepcopy(j1)), semgen.mrs_from_json(copy.deepcopy(j2)))
            if dflt != verdict:
                fail("default: is_isomorphic(m1, m2) compares properties (properties=True is the default)",
                     [verdict, dflt])
        # purity: the SAME two objects through a battery of calls (properties toggled, arguments swapped, one object
        # on both sides); every answer equals the one fresh objects give, and the objects are left as they were
        o1, o2 = semgen.mrs_from_json(copy.deepcopy(j1)), semgen.mrs_from_json(copy.deepcopy(j2))
        before = json.dumps([semgen.mrs_to_json(o1), semgen.mrs_to_json(o2)], sort_keys=True)
        with time_limit(LIMIT):
            got = [_mrs.is_isomorphic(o1, o2, properties=not props), _mrs.is_isomorphic(o2, o1, properties=props),
                   _mrs.is_isomorphic(o1, o1, properties=props), _mrs.is_isomorphic(o1, o2, properties=props),
                   _mrs.is_isomorphic(o1, o2, properties=not props)]
        other = run_iso(j1, j2, not props)
        if got != [other, back, True, verdict, other]:
            fail("pure: repeated calls on the same MRS objects (properties toggled, arguments swapped) answer like "
                 "fresh objects", {"got": got, "want": [other, back, True, verdict, other]})
        if json.dumps([semgen.mrs_to_json(o1), semgen.mrs_to_json(o2)], sort_keys=True) != before:
            fail("pure: is_isomorphic leaves its arguments unchanged", None)
        # ignoring properties can only merge classes
        if props and verdict and other is not True:
            fail("isomorphic with properties compared implies isomorphic with properties ignored", None)
        sub = case.get("sub", "")
        if sub in ("self", "renamed", "shuffled") and verdict is not True:
            fail("a renamed / reordered copy is isomorphic", sub)
        # exhaustive search (the property's bound: up to 7 predications)
        n = max(len(j1["rels"]), len(j2["rels"]))
        if n <= 7:
            want = brute_iso(j1, j2, props)
            if want is not None:
                self._brute += 1
                if want != verdict:
                    fail("exact: verdict equals exhaustive search for a structure-preserving bijection"
                         + (" (false positive)" if verdict else " (false negative)"), {"want": want, "got": verdict})
        # a certificate of non-isomorphism for any size
        if verdict and wl_differs(j1, j2, props):
            fail("exact: structures with different refinement colours are not isomorphic (false positive)", None)
        return fails

    def oracle_compare(self, case, res, fail):
        if isinstance(res, dict):
            fail("compare: commands.compare raised or did not terminate", res)
            return
        want_items = {it["id"]: it for it in case["items"] if (it["test"] or it["gold"])}
        if sorted(r[0] for r in res) != sorted(want_items):
            fail("compare: one row per item that has a result in either profile", [sorted(r[0] for r in res), sorted(want_items)])
            return
        for iid, inp, u, s, g in res:
            it = want_items[iid]
            test, gold = it["test"] or [], it["gold"] or []
            if inp != (it["input"] if it["test"] is not None else None):
                fail("compare: the row carries the item's input (of the test profile)", [iid, inp])
            if u + s != len(test) or s + g != len(gold):
                fail("compare: unique-test + shared = size of test and shared + unique-gold = size of gold, per item",
                     [iid, u, s, g, len(test), len(gold)])
            classes, ct, cg, ok = [], collections.Counter(), collections.Counter(), True
            for side, bag in ((ct, test), (cg, gold)):
                for j in bag:
                    for k, rep in enumerate(classes):
                        b = brute_iso(rep, j, True)
                        ok = ok and b is not None
                        if b:
                            side[k] += 1
                            break
                    else:
                        classes.append(j)
                        side[len(classes) - 1] += 1
            if ok and s != sum(min(ct[k], cg[k]) for k in range(len(classes))):
                fail("compare: shared equals the number of readings matchable up to isomorphism (properties compared)",
                     {"item": iid, "got": [u, s, g], "want": sum(min(ct[k], cg[k]) for k in range(len(classes)))})

    def oracle_bags(self, case, res, fail):
        if isinstance(res, dict):
            fail("compare_bags raised or did not terminate", res)
            return
        u, s, g = res
        test, gold, props = case["test"], case["gold"], case["props"]
        if u + s != len(test):
            fail("bags: unique-test + shared = size of test", [u, s, len(test)])
        if s + g != len(gold):
            fail("bags: shared + unique-gold = size of gold", [s, g, len(gold)])
        # lists variant agrees with the counts
        t_objs = build_bag(test, case.get("share_objects"))
        g_objs = build_bag(gold, case.get("share_objects"))
        if props:
            dflt = list(_mrs.compare_bags([semgen.mrs_from_json(copy.deepcopy(j)) for j in test],
                                          [semgen.mrs_from_json(copy.deepcopy(j)) for j in gold]))
            if dflt != [u, s, g]:
                fail("default: compare_bags(test, gold) compares properties and returns counts", [res, dflt])
        lu, ls, lg = _mrs.compare_bags(t_objs, g_objs, properties=props, count_only=False)
        if [len(lu), len(ls), len(lg)] != [u, s, g]:
            fail("bags: count_only=False returns lists of the same sizes", [[len(lu), len(ls), len(lg)], res])
        if any(not any(x is y for y in t_objs) for x in lu + ls) or any(not any(x is y for y in g_objs) for x in lg):
            fail("bags: the returned lists are drawn from the respective bags", None)
        # shared = size of a maximum matching = sum over classes of min(count) (classes by exhaustive search)
        classes = []      # representative json
        ct, cg = collections.Counter(), collections.Counter()
        ok = True
        for side, bag in ((ct, test), (cg, gold)):
            for j in bag:
                for k, rep in enumerate(classes):
                    b = brute_iso(rep, j, props)
                    if b is None:
                        ok = False
                    if b:
                        side[k] += 1
                        break
                else:
                    classes.append(j)
                    side[len(classes) - 1] += 1
        if ok:
            want = sum(min(ct[k], cg[k]) for k in range(len(classes)))
            if want != s:
                fail("bags: shared equals the number of pairs matchable up to isomorphism", {"want": want, "got": s})
        if (case.get("sub", "").split("+")[0] == "selfcopy" and "eqclose" not in case.get("sub", "")
                and "dup" not in case.get("sub", "") or (ok and want_all_shared(ct, cg))) and [u, s, g] != [0, len(test), 0]:
            fail("bags: a bag compared with a renamed, shuffled copy of itself is entirely shared", res)

    # ---- findings
    def classify(self, case, failure):
        """no known finding for C06 (F21, F24, F25 are repaired; their witnesses are corpus regressions)"""
        return None

    # ---- statistics
    def nontrivial_key(self, case, res):
        if case["kind"] == "pair" and not case["m1"]["rels"]:
            return None
        return json.dumps(case, sort_keys=True)

    def stats(self, case, res, counters):
        def inc(k):
            counters[k] = counters.get(k, 0) + 1
        inc("kind:" + case["kind"])
        if case["kind"] == "compare":
            inc("compare:items=%d" % len(case["items"]))
            for it in case["items"]:
                inc("compare:item absent from one profile" if None in (it["test"], it["gold"]) else
                    "compare:item bags %s/%s" % (min(len(it["test"]), 3), min(len(it["gold"]), 3)))
            if isinstance(res, list):
                for r in res:
                    inc("compare:shared=%d" % min(r[3], 3))
            return
        structs = (case["test"] + case["gold"]) if case["kind"] == "bags" else [case["m1"], case["m2"]]
        if not all(is_ascii_struct(j) for j in structs):
            inc("alphabet:non-ASCII")
            inc("alphabet:non-ASCII, model %s" % ("compared" if all(model_covers(j) for j in structs) else "skipped (case map of non-ASCII letters)"))
        if case["kind"] == "bags":
            inc("bags:" + case.get("sub", ""))
            for nm in ("test", "gold"):
                texts = [json.dumps(j, sort_keys=True) for j in case[nm]]
                if len(set(texts)) < len(texts):
                    inc("bags:%s has ==-equal members" % nm)
            if case.get("share_objects"):
                inc("bags:one object twice")
            inc("bags:test=%d" % len(case["test"]))
            if isinstance(res, list):
                inc("bags:shared=%d" % res[1])
            return
        inc("sub:" + case.get("sub", ""))
        inc("family:" + case.get("family", ""))
        n = len(case["m1"]["rels"])
        inc("eps:%s" % (n if n <= 7 else "8-15" if n <= 15 else "16-40" if n <= 40 else ">40"))
        inc("props:%s" % case["props"])
        if isinstance(res, dict) and "iso" in res:
            inc("verdict:%s" % res["iso"])
            inc("verdict:%s:%s" % (case.get("sub", "").split(":")[0], res["iso"]))
            if not res["iso"] and len(case["m1"]["rels"]) == len(case["m2"]["rels"]):
                inc("rejected-by:" + ("matcher" if len(all_vars(case["m1"])) == len(all_vars(case["m2"]))
                                      and len(case["m1"]["hcons"]) == len(case["m2"]["hcons"]) else "size pre-check"))
            a1 = res.get("a1", [])
            if any(" --" in l for _, es in a1 for t, l in es if t is not None):
                inc("feature:antiparallel edges")
            if any(t == nd and l != "ARG0" for nd, es in a1 for t, l in es):
                inc("feature:self-loop argument")
            if any(t is not None and " " in l.replace(" --", "") for _, es in a1 for t, l in es):
                inc("feature:several roles to one target")
        else:
            inc("err")
        for f in multi_constraint_features(case["m1"]):
            inc(f)
        if case["m1"].get("icons"):
            inc("feature:icons")
        if any(e.get("carg") is not None for e in case["m1"]["rels"]):
            inc("feature:carg")
        if any(is_quant(e) for e in case["m1"]["rels"]):
            inc("feature:quantifier")
        nq = {iv_of(e) for e in case["m1"]["rels"] if not is_quant(e)}
        if any(is_quant(e) and iv_of(e) not in nq for e in case["m1"]["rels"]):
            inc("feature:quantifier over a variable that is no intrinsic variable")
            if any(tv(v) not in nq and ps for v, ps in case["m1"].get("vars", [])):
                inc("feature:... with properties")

    def extra_evidence(self):
        return {"exhaustive_oracle_evaluations": self._brute,
                "model_cases_inside_InSpace_of_the_faithfulness_theorem": self._inspace.get(True, 0),
                "model_cases_outside_InSpace (lower-case role / unknown hcons relation mutants)": self._inspace.get(False, 0)}


CHECK = C06()
