import importlib
import json
import os
import sys
import traceback

from .common import paths, runner


def load(pid):
    mod = importlib.import_module("harness.%s" % pid.lower())
    return mod.CHECK


def main(argv):
    if not argv:
        print(__doc__ or "usage: check <Cnn> [--tier quick|thorough] | check replay <path>")
        return 2
    paths.ensure_repo_on_path()
    if argv[0] == "replay":
        path = argv[1]
        with open(path, encoding="utf-8") as f:
            pid = json.load(f)["property"]
        return runner.replay(load(pid), path)
    pid = argv[0].upper()
    tier = os.environ.get("VERIF_TIER", "quick")
    if "--tier" in argv:
        tier = argv[argv.index("--tier") + 1]
    if tier not in ("quick", "thorough"):
        print("bad tier", tier)
        return 2
    try:
        seed = int(os.environ.get("VERIF_SEED", "0"))
    except ValueError:
        seed = 0
    # global watchdog: a run that exceeds its budget is an infrastructure time-out (exit 2), never a verdict
    import signal
    budget = int(os.environ.get("VERIF_TIMEOUT_S", "1500" if tier == "quick" else "14400"))

    def _timeout(signum, frame):
        print("INFRA-ERROR: %s %s tier exceeded %d s" % (pid, tier, budget), flush=True)
        os._exit(2)
    signal.signal(signal.SIGALRM, _timeout)
    signal.alarm(budget)
    try:
        return runner.run(load(pid), tier, seed)
    except Exception:
        traceback.print_exc()
        print("INFRA-ERROR: %s" % pid)
        return 2


if __name__ == "__main__":
    sys.exit(main(sys.argv[1:]))
