"""C03 — EDS serialisations (native EDS, EDS-JSON, EDS-PENMAN): generators, implementation
runner, direct oracle.

Case kinds
  native   one EDS x (properties, lnk, show_status, indent): text, real lexer tokens of the text, decode, re-encode
  docs     a list of EDS x options: dumps / loads (list API), StringIO dump/load
  parse    an arbitrary (mutated) native text x {decode, loads}: real lexer tokens are handed to the model's parser
  json     one EDS x (properties, lnk, indent): to_dict, from_dict(to_dict); oracle goes through the JSON text
  penman   one EDS x (properties, lnk, indent): to_triples, from_triples(to_triples); oracle goes through PENMAN text
  triples  arbitrary triples -> from_triples (error branches)
  pentext  an arbitrary (damaged) PENMAN text x {decode, loads, load}: the PenmanError -> PyDelphinException wrappers
  frommrs  an EDS PRODUCED BY eds.from_mrs (default arguments: quantifier nodes renamed after construction, the id index of
           the object left stale) handed directly to a codec x options: judged against the same graph rebuilt from its nodes
  api      a list of EDS x codec x write path (encode, dumps, dump to handle / str path / Path) x read path (decode,
           loads, load from StringIO / path / open file) x properties, lnk, show_status x the `indent` argument
           (None, False, True, 0, 1, 2, 4, -1): the model's API layer (Api.lean) against the public functions
"""
import dis
import gc
import inspect
import io
import itertools
import json
import logging
import os
import pathlib
import re
import shutil
import tempfile
import types
import zlib

from .common import paths, tables as T
from .common.runner import Check, canon

paths.ensure_repo_on_path()
import penman  # noqa: E402

from delphin import lnk as lnkmod  # noqa: E402
from delphin import sembase, util, variable  # noqa: E402
from delphin.eds import _eds as edsmod  # noqa: E402
from delphin.codecs import eds as edsnative  # noqa: E402
from delphin.codecs import edsjson, edspenman  # noqa: E402
from delphin.codecs import simplemrs as _simplemrs  # noqa: E402
from delphin import eds as _edspkg  # noqa: E402
from delphin.eds import EDS, EDSSyntaxError, Node  # noqa: E402
from delphin.exceptions import PyDelphinException  # noqa: E402
from delphin.lnk import Lnk, LnkError  # noqa: E402


logging.getLogger("delphin.codecs.edspenman").setLevel(logging.ERROR)
for _name in ("pe", "penman", "penman.layout", "penman._parse", "penman.codec"):
    logging.getLogger(_name).setLevel(logging.ERROR)     # "Missing target / concept" chatter on damaged texts


def cps(s):
    return None if s is None else [ord(c) for c in s]


def uncps(a):
    return None if a is None else "".join(chr(x) for x in a)


# --------------------------------------------------------------------------- JSON <-> objects

def lnk_to_j(l):
    if l is None or l.type == Lnk.UNSPECIFIED:
        return None
    if l.type == Lnk.CHARSPAN:
        return {"k": "c", "d": [l.data[0], l.data[1]]}
    if l.type == Lnk.CHARTSPAN:
        return {"k": "v", "d": [l.data[0], l.data[1]]}
    if l.type == Lnk.TOKENS:
        return {"k": "t", "d": list(l.data)}
    if l.type == Lnk.EDGE:
        return {"k": "e", "d": [l.data]}
    raise ValueError(l)


def lnk_of_j(j):
    if j is None:
        return None
    k, d = j["k"], j["d"]
    if k == "c":
        return Lnk.charspan(d[0], d[1])
    if k == "v":
        return Lnk.chartspan(d[0], d[1])
    if k == "t":
        return Lnk.tokens(d)
    if k == "e":
        return Lnk.edge(d[0])
    raise ValueError(j)


def node_of_j(n):
    return Node(uncps(n["id"]), uncps(n["pred"]), uncps(n["type"]),
                {uncps(k): uncps(v) for k, v in n["edges"]},
                {uncps(k): uncps(v) for k, v in n["props"]},
                uncps(n["carg"]), lnk_of_j(n["lnk"]))


def eds_of_j(e):
    # an empty graph is built as users build it, without a node list (`EDS()` / `EDS(top)`: `nodes=None` branch)
    return EDS(uncps(e["top"]), [node_of_j(n) for n in e["nodes"]] or None, identifier=uncps(e["ident"]))


def node_to_j(n):
    return {"id": cps(n.id), "pred": cps(n.predicate), "type": cps(n.type),
            "edges": [[cps(k), cps(v)] for k, v in n.edges.items()],
            "props": [[cps(k), cps(v)] for k, v in n.properties.items()],
            "carg": cps(n.carg), "lnk": lnk_to_j(n.lnk)}


def eds_to_j(e):
    return {"top": cps(e.top), "nodes": [node_to_j(n) for n in e.nodes], "ident": cps(e.identifier)}


def jn(id, pred, type=None, edges=(), props=(), carg=None, lnk=None):
    return {"id": cps(id), "pred": cps(pred), "type": cps(type),
            "edges": [[cps(k), cps(v)] for k, v in edges],
            "props": [[cps(k), cps(v)] for k, v in props],
            "carg": cps(carg), "lnk": lnk}


def je(top, nodes, ident=None):
    return {"top": cps(top), "nodes": nodes, "ident": cps(ident)}


ERRS = (("EDSSyntaxError", EDSSyntaxError), ("StopIteration", StopIteration), ("IndexError", IndexError),
        ("KeyError", KeyError), ("LnkError", LnkError), ("ValueError", ValueError))


def guarded(f):
    try:
        return {"ok": f()}
    except Exception as ex:   # noqa: BLE001
        for name, cls in ERRS:
            if isinstance(ex, cls):
                return {"err": name}
        if isinstance(ex, PyDelphinException):
            return {"err": "PyDelphinException"}
        raise


def guarded_any(f):
    """for damaged PENMAN texts: the penman library hands over triples with a missing (None) target, on which
    from_triples fails with AttributeError / TypeError — error branches outside the property, observed by type name"""
    try:
        return guarded(f)
    except Exception as ex:   # noqa: BLE001
        return {"err": type(ex).__name__}


# --------------------------------------------------------------------------- lexical expressibility

SYM_RE = re.compile(r'[^ \n:,<\(\[\]\{\}]+')


def is_symbol(s):
    """the string is read back as exactly one SYMBOL token by the native lexer, in any context the
    encoder puts it in"""
    if not s or not SYM_RE.fullmatch(s):
        return False
    if s[0] in "|#":
        return False
    return not any(c.isspace() or ord(c) < 32 or ord(c) in (0x7f, 0x85, 0x2028, 0x2029, 0x1c, 0x1d, 0x1e) for c in s)


def text_modelled(text):
    """the model's lexer reads `\\d` as ASCII digits: texts with other decimal digits are left to the real lexer"""
    return not any(ord(c) > 127 and c.isdecimal() for c in text)


def line_safe(s):
    return s.splitlines() in ([s], []) and "\n" not in s and "\r" not in s


def lexable_lnk(l):
    if not l:
        return True
    if l.type in (Lnk.CHARSPAN, Lnk.CHARTSPAN):
        return True
    if l.type == Lnk.TOKENS:
        return len(l.data) > 0 and all(t >= 0 for t in l.data)
    return l.data >= 0


def lexable(e, o):
    """every string of the graph survives the native lexer (symbols, line-safe constants)"""
    if e.identifier:
        if not re.fullmatch(r'[^\s\{]+', e.identifier) or not line_safe(e.identifier):
            return False
    if not e.nodes:
        return True
    if e.top is not None and not is_symbol(e.top):
        return False
    for n in e.nodes:
        if not (isinstance(n.id, str) and is_symbol(n.id) and is_symbol(n.predicate)):
            return False
        if o["lnk"] and not lexable_lnk(n.lnk):
            return False
        if n.carg is not None and not line_safe(n.carg):
            return False
        if o["properties"] and (n.properties or n.type):
            if n.type and not is_symbol(n.type):
                return False
            for k, v in n.properties.items():
                if not (is_symbol(k) and is_symbol(v)):
                    return False
        for k, v in n.edges.items():
            if not (is_symbol(k) and is_symbol(v)):
                return False
    return True


def _al(s):
    return "".join(chr(ord(c) + 32) if "A" <= c <= "Z" else c for c in s)


def _au(s):
    return "".join(chr(ord(c) - 32) if "a" <= c <= "z" else c for c in s)


def _ail(s):
    return any("a" <= c <= "z" for c in s) and not any("A" <= c <= "Z" for c in s)


def lower_modelled(s):
    """Python's lower() does to this string what the model's ASCII lower does (true for every ASCII string and
    for every non-ASCII string that is a fixed point of lower(), e.g. 'straße', 'ﬁsh', 'σοφός')"""
    return s.lower() == _al(s)


def upper_modelled(s):
    return s.upper() == _au(s)


def ascii_cased_only(s):
    """Python's upper/lower/islower all agree with the model's ASCII versions on this string"""
    return lower_modelled(s) and upper_modelled(s) and s.islower() == _ail(s)


def case_modelled(e, penman=False):
    """every case operation the codecs apply to the strings of this graph is the ASCII one of the model:
    predicate.lower(); property name .upper() (native decoder, sort index), .lower() / .islower() / .upper() of
    the lower-cased name (PENMAN); property value .lower(); role .upper() (native decoder, sort key) and
    .islower() (PENMAN)"""
    for n in e.nodes:
        if not lower_modelled(n.predicate):
            return False
        for k, v in n.properties.items():
            if not (upper_modelled(k) and lower_modelled(v)):
                return False
            if penman:
                lk = k.lower()
                if not lower_modelled(k) or lk.islower() != _ail(lk) or not upper_modelled(lk):
                    return False
        for k in n.edges:
            if not upper_modelled(k) or (penman and k.islower() != _ail(k)):
                return False
    return True


def case_stable(e):
    """nothing is changed by the decoder's case normalisation and no two keys collapse"""
    for n in e.nodes:
        if n.predicate != n.predicate.lower():
            return False
        if any(k != k.upper() for k in n.properties) or any(v != v.lower() for v in n.properties.values()):
            return False
        if any(k != k.upper() for k in n.edges):
            return False
    return True


def types_in_scope(e):
    return all(n.type is None or n.type != "" for n in e.nodes)


def ids_distinct(e):
    ids = [n.id for n in e.nodes]
    return len(set(ids)) == len(ids)


def targets_ok(e):
    ids = {n.id for n in e.nodes}
    return all(t in ids for n in e.nodes for t in n.edges.values())


def reachable(e):
    """naive reachability in the undirected edge graph from the top (first node when there is no top)"""
    if not e.nodes:
        return set()
    start = e.top if e.top is not None else e.nodes[0].id
    pairs = [(n.id, t) for n in e.nodes for t in n.edges.values()]
    seen = {start}
    changed = True
    while changed:
        changed = False
        for a, b in pairs:
            if a in seen and b not in seen:
                seen.add(b)
                changed = True
            if b in seen and a not in seen:
                seen.add(a)
                changed = True
    return seen


PEN_SAFE = re.compile('[A-Za-z0-9_+\\-ßẞσςΣΟΦόοφﬁſıİ\u00e9\u00c9\u0301\u00f6\u00d6ａｂｃｓｇｘＡＢＣＲＧＰＥＳ１]+')
PEN_RESERVED = ("instance", "lnk", "carg", "type")


def penman_safe(e):
    """strings PENMAN notation can carry unquoted, roles/properties EDS-PENMAN can tell apart"""
    for n in e.nodes:
        if not PEN_SAFE.fullmatch(n.id):       # any symbol is a PENMAN variable: also "1", "-1", "10000", "ARG1"
            return False
        if not PEN_SAFE.fullmatch(n.predicate):
            return False
        if n.type is not None and not PEN_SAFE.fullmatch(n.type):
            return False
        for k, v in n.properties.items():
            if not (PEN_SAFE.fullmatch(k) and PEN_SAFE.fullmatch(v)):
                return False
            if not (k.lower().islower() and k.lower().upper() == k and k.lower() not in PEN_RESERVED):
                return False
            if k.endswith("-of") or k.lower().endswith("-of"):
                return False
        for k, v in n.edges.items():
            if not PEN_SAFE.fullmatch(k) or k.islower() or k in PEN_RESERVED or k.endswith("-of"):
                return False
        if n.carg is not None and not line_safe(n.carg):
            return False
    return True


# F40 (known): EDS-PENMAN loses a node or its predicate when a predicate string equals a node identifier (penman writes
# that :instance triple as an inverted edge).  Such graphs are generated (collision dimension, deterministic case c8,
# corpus witness), judged by the PENMAN oracle and recognised by classify().
PRED_ID_COLLISION_IN_ORACLE = True


def pred_id_collision(e):
    """some predicate string is also a node identifier of the graph"""
    ids = {n.id for n in e.nodes}
    return any(n.predicate in ids for n in e.nodes)


# --------------------------------------------------------------------------- observations

def lex_tokens(text):
    toks = []
    for gid, tok, _, _, _ in edsnative._EDSLexer.prelex(text.splitlines()):
        toks.append([edsnative._EDSLexer.tokentypes(gid).name, cps(tok)])
    return toks


def show(e):
    """plain comparison form of an EDS"""
    return (e.top, e.identifier,
            [(n.id, n.predicate, n.type, dict(n.edges), dict(n.properties), n.carg, str(n.lnk), n.lnk.type)
             for n in e.nodes])


def opts_kw(o):
    return dict(properties=o["properties"], lnk=o["lnk"], show_status=o["show_status"], indent=o["indent"])


def pen_obs(e):
    return {"top": cps(e.top),
            "nodes": [{"id": cps(n.id), "pred": cps(n.predicate), "type": cps(n.type),
                       "edges": [[cps(k), cps(v)] for k, v in n.edges.items()],
                       "props": [[cps(k), cps(v)] for k, v in n.properties.items()],
                       "carg": cps(n.carg), "lnk": lnk_to_j(n.lnk)} for n in e.nodes]}


# --------------------------------------------------------------------------- generators

# non-ASCII letters with interesting case behaviour: sharp s, final / medial sigma, fi ligature, long s, dotless i,
# precomposed and combining e-acute, full-width letters (all fixed points of lower(); upper()/casefold() change them)
U_LOWER = ["straße_n_1", "σοφός_a_1", "ﬁsh_n_1", "ſtop_v_1", "ırmak_n", "caf\u00e9_n_1", "cafe\u0301_n_1", "ａｂｃ_n_1", "_größe_n_1"]
# fixed points of upper() (lower() changes them)
U_UPPER = ["\u00c9T\u00c9", "ΣΟΦ", "ＡＲＧ１", "İ", "ẞ", "ARG-Σ"]
IDS = ["e2", "x5", "_1", "_2", "i10", "x", "e", "a", "b", "h1", "10000", "_3", "x12", "ß1", "xσ", "eς", "ｘ１", "İd",
       "\u00e9", "e\u0301", "_ﬁ"]
ODD_IDS = ["a b", "a:b", "|x", "#x", "", "x,y", "a<1", "q(", "t[", "u{"]
PREDS = ["_rain_v_1", "named", "proper_q", "udef_q", "_dog_n_1", "card", "pron", "_the_q", "compound", "p", "q",
         "_bark_v_1", "loc_nonsp", "_in_p_loc", 'a"b', "p)", "語_n_1", "p>", "a|b", "a#b"]
UP_PREDS = ["_The_q", "Named", "PRON", "_Dog_n_1", "Straße_n_1", "ΣΟΦΟΣ_a", "İstanbul", "ﬁSH_n", "\u00c9t\u00e9_n", "ＡＢＣ_n",
            "ẞ_n", "ſTOP_v"]
PREDS_IN = PREDS[:14] + U_LOWER + U_LOWER     # the in-space predicate pool: about half non-ASCII
TYPES = [None, "x", "e", "i", "u", "p", "h"]
PROP_KEYS = list(sembase._COMMON_PROPERTIES) + ["FOO", "ZED", "AAA", "X-Y", "GR\u00d6SSE", "ΣΦ", "ＰＥＲＳ"]
ODD_PROP_KEYS = ["Tense", "sf", "1", "tense", "ſf", "ΣΦ", "gr\u00f6sse", "ﬁ", "İ"]
PROP_VALS = ["past", "pres", "3", "sg", "pl", "+", "-", "prop", "indicative", "untensed", "bool", "m-or-f", "groß", "ﬁ",
             "ς", "ｓｇ", "\u00e9"]
ODD_PROP_VALS = ["PRES", "Sg", "GROẞ", "Σ", "İ", "ＳＧ"]
ROLES = ["ARG1", "ARG2", "ARG3", "BV", "L-INDEX", "R-INDEX", "LBL", "BODY", "CARG", "ARG", "RSTR", "L-HNDL", "ARG0", "MOD",
         "A", "Z"] + U_UPPER
ODD_ROLES = ["arg1", "Arg2", "bv", "lbl", "ſ", "straße", "arg-σ", "ﬁ", "ａｒｇ１", "lbł", "\u00e9"]
CARGS = ["Kim", " Kim", "Kim ", "", 'a"b', "a\\", '\\"', "x y", "é", "(", '")', '"', "\\\\", " ", 'a\\"b', "1984", "a\\b", '""',
         "\\", "(\"x\")", "\U0001F600", "{", "}[", "a:b", "<0:1>", "|", "#1", "Straße", "ΣΟΦΟΣ ς", "ﬁ ſ", "İı",
         "caf\u00e9 cafe\u0301", "ＡＢｃ", "ẞ\"ß\\"]
CARG_ALPHA = ['"', "\\", "a", "b", " ", "(", ")", "{", "é", ":", "<", ">", "|", "#", ",", "[", "]", "'", "\t"]
IDENTS = [None, None, None, None, "1", "abc", "", "10", "a-b", "x:y"]


_ODD_ASCII = [False]
_ALL_ASCII = [False]


def _in(pool):
    """the in-space pools; ASCII only for the graphs whose damaged text is fed to the model's parser"""
    return [x for x in pool if x.isascii()] if _ALL_ASCII[0] else pool


def _odd(pool):
    """the out-of-space pools, restricted to ASCII for most graphs so that the model (ASCII case mapping) still
    covers them; about a third of the out-of-space graphs draw from the non-ASCII entries as well"""
    return [x for x in pool if x.isascii()] if _ODD_ASCII[0] else pool


def gen_lnk(rng, odd=False):
    r = rng.random()
    if r < 0.3:
        return None
    if r < 0.75:
        a = rng.choice([0, 0, 1, 2, 3, 4, 5, 7, 10, 12])
        b = rng.choice([a, a + 1, a + 3, a + 5, 0, 20])
        return {"k": "c", "d": [a, b]}
    if r < 0.80:
        return {"k": "c", "d": [-1, -1]}
    if r < 0.84:
        return {"k": "c", "d": [rng.choice([-1, 0, -3]), rng.choice([-1, 2, -2])]}
    if r < 0.89:
        return {"k": "v", "d": [rng.randrange(0, 5), rng.randrange(0, 9)]}
    if r < 0.94:
        return {"k": "t", "d": [rng.randrange(0, 12) for _ in range(rng.choice([1, 1, 2, 3]))]}
    if r < 0.98 or not odd:
        return {"k": "e", "d": [rng.randrange(0, 300)]}
    return rng.choice([{"k": "t", "d": []}, {"k": "t", "d": [-1, 2]}, {"k": "e", "d": [-4]}])


def gen_carg(rng):
    r = rng.random()
    if r < 0.6:
        return None
    if r < 0.9:
        return rng.choice(CARGS)
    return "".join(rng.choice(CARG_ALPHA) for _ in range(rng.randrange(0, 6)))


def gen_props(rng, odd):
    r = rng.random()
    if r < 0.45:
        return []
    n = rng.choice([1, 1, 2, 2, 3, 4, 6])
    keys = rng.sample(_in(PROP_KEYS), min(n, len(_in(PROP_KEYS))))
    if odd and rng.random() < 0.5:
        keys[rng.randrange(len(keys))] = rng.choice(_odd(ODD_PROP_KEYS))
        keys = list(dict.fromkeys(keys))
    out = []
    for k in keys:
        v = rng.choice(_in(PROP_VALS))
        if odd and rng.random() < 0.2:
            v = rng.choice(_odd(ODD_PROP_VALS))
        out.append((k, v))
    return out


def gen_edges(rng, ids, odd, density):
    if not ids:
        return []
    r = rng.random()
    if r < density[0]:
        return []
    n = rng.choice(density[1])
    roles = rng.sample(_in(ROLES), min(n, len(_in(ROLES))))
    if odd and rng.random() < 0.4:
        roles[rng.randrange(len(roles))] = rng.choice(_odd(ODD_ROLES))
        roles = list(dict.fromkeys(roles))
    return [(role, rng.choice(ids)) for role in roles]


def gen_eds(rng, odd=False, maxn=7, ascii_only=False):
    """a structured random EDS (JSON form); `odd` admits material outside what the formats can express"""
    n = rng.choice([0, 1, 1, 2, 2, 2, 3, 3, 3, 4, 4, 5, 6, maxn])
    _ODD_ASCII[0] = ascii_only or rng.random() < 0.65
    _ALL_ASCII[0] = ascii_only
    pool = list(_in(IDS))
    rng.shuffle(pool)
    ids = pool[:n]
    if odd and n and rng.random() < 0.25:
        ids[rng.randrange(n)] = rng.choice(ODD_IDS)
    if odd and n >= 2 and rng.random() < 0.15:
        ids[1] = ids[0]     # duplicate identifier
    shape = rng.choice(["sparse", "sparse", "dense", "chain", "components", "star"])
    nodes = []
    for i, nid in enumerate(ids):
        if shape == "chain":
            edges = [("ARG1", ids[(i + 1) % n])] if (i + 1 < n or rng.random() < 0.5) else []
            if rng.random() < 0.2:
                edges.append(("ARG2", nid))
        elif shape == "components":
            half = [x for j, x in enumerate(ids) if (j % 2) == (i % 2)]
            edges = gen_edges(rng, half, odd, (0.3, [1, 1, 2]))
        elif shape == "star":
            edges = gen_edges(rng, ids[:1], odd, (0.2, [1, 1, 2]))
        elif shape == "dense":
            edges = gen_edges(rng, ids, odd, (0.1, [1, 2, 2, 3, 4]))
        else:
            edges = gen_edges(rng, ids, odd, (0.5, [1, 1, 2]))
        if odd and edges and rng.random() < 0.1:
            edges[0] = (edges[0][0], "zz9")     # target that is not a node
        pred = rng.choice(_in(PREDS_IN)) if not odd else rng.choice(_odd(PREDS + UP_PREDS))
        typ = rng.choice(TYPES)
        if odd and rng.random() < 0.05:
            typ = ""
        nodes.append(jn(nid, pred, typ, edges, gen_props(rng, odd), gen_carg(rng), gen_lnk(rng, odd)))
    r = rng.random()
    if n == 0:
        top = None if (not odd or r < 0.7) else "x"
    elif r < 0.2:
        top = None
    elif r < 0.5:
        top = ids[0]
    elif r < 0.95 or not odd:
        top = rng.choice(ids)
    else:
        top = "zz9"
    g = je(top, nodes, rng.choice(IDENTS))
    if n and not ascii_only and rng.random() < (0.3 if not odd else 0.15):
        g = collide(rng, g)
    return g


NUMERIC_IDS = ["0", "1", "2", "3", "10", "10000", "-1", "+", "-"]


def collide(rng, g):
    """the collision dimension: node identifiers that equal other strings of the same graph (property values, constants,
    type letters, predicates, role names, `top`), numeric identifiers, identifiers differing only in case — and the
    other way round (property values / constants equal to node identifiers, a constant equal to the top)."""
    nodes = g["nodes"]
    old = [uncps(n["id"]) for n in nodes]
    pool = list(NUMERIC_IDS) + ["top", "instance", "type", "lnk", "carg", "ARG1", "BV", "u", "x", "e"]
    for n in nodes:
        pool += [uncps(v) for _, v in n["props"]] + [uncps(k) for k, _ in n["edges"]]
        if n["type"] is not None:
            pool.append(uncps(n["type"]))
        if n["carg"] is not None and is_symbol(uncps(n["carg"])):
            pool.append(uncps(n["carg"]))
        if rng.random() < 0.25:
            pool.append(uncps(n["pred"]))
    pool += [x.upper() for x in old if x.upper() != x] + [x.capitalize() for x in old if x.capitalize() != x]
    pool = [x for x in pool if is_symbol(x)]
    ren = {}
    used = set()
    for x in old:
        if x in ren:
            continue
        y = rng.choice(pool) if (pool and rng.random() < 0.7) else x
        if y in used or (y in old and y != x):
            y = x
        if y in used:
            continue
        ren[x] = y
        used.add(y)
    ren = {x: ren.get(x, x) for x in old}
    if len(set(ren.values())) != len(set(old)):
        ren = {x: x for x in old}
    for n in nodes:
        n["id"] = cps(ren[uncps(n["id"])])
        n["edges"] = [[k, cps(ren.get(uncps(v), uncps(v)))] for k, v in n["edges"]]
    ids = [uncps(n["id"]) for n in nodes]
    top = uncps(g["top"])
    if top is not None:
        g["top"] = cps(ren.get(top, top))
    # the other way round
    for n in nodes:
        if n["props"] and rng.random() < 0.5:
            i = rng.randrange(len(n["props"]))
            v = rng.choice(ids)
            if v == v.lower():
                n["props"][i][1] = cps(v)
        r = rng.random()
        if r < 0.2:
            n["carg"] = cps(rng.choice(ids))
        elif r < 0.3 and g["top"] is not None:
            n["carg"] = g["top"]
        if rng.random() < 0.15:
            n["type"] = cps(rng.choice(ids))
    return g


def all_opts():
    for p, l, s, i in itertools.product([True, False], repeat=4):
        yield {"properties": p, "lnk": l, "show_status": s, "indent": i}


def status_opts():
    for s, i in itertools.product([True, False], repeat=2):
        yield {"properties": True, "lnk": True, "show_status": s, "indent": i}


def enum_small(maxn):
    """every graph shape on <= maxn nodes: each node has 0 or 1 outgoing ARG1 edge (to any node) and optionally a
    second edge; every top choice (none, each node); node decorations vary with the index"""
    ids = ["a", "x1", "_2"]
    deco = [dict(), dict(lnk={"k": "c", "d": [0, 3]}), dict(carg="K"), dict(type="e", props=[("TENSE", "past")]),
            dict(type="x")]
    out = []
    for n in range(0, maxn + 1):
        nid = ids[:n]
        choices = [None] + nid
        for targets in itertools.product(choices, repeat=n):
            for top in [None] + nid:
                for d0 in range(len(deco) if n <= 2 else 2):
                    nodes = []
                    for i in range(n):
                        d = deco[(d0 + i) % len(deco)] if i == 0 else deco[(i + d0 * 2) % len(deco)]
                        edges = [("ARG1", targets[i])] if targets[i] is not None else []
                        nodes.append(jn(nid[i], "p%d" % i, d.get("type"), edges, d.get("props", ()), d.get("carg"),
                                        d.get("lnk")))
                    out.append(je(top, nodes))
    return out


LONG_SHIFT = {0: "", 1: "l", 2: "lc", 3: "b", 4: "bl", 5: "blc", 6: "b1l", 7: "b1lc", 8: "b2"}


def long_doc_graphs(filler, shift, n):
    """a native document whose graph starts sweep the 1024-token chunk boundaries of the look-ahead buffer:
    a leading one-node graph of 7 + `shift` tokens (one token more per step: alignment, constant, type block,
    property pairs) followed by `n` one-node graphs of exactly `filler` tokens (7: no top, 9: with top)"""
    f = LONG_SHIFT[shift]
    props = [("TENSE", "past"), ("MOOD", "indicative")][:(1 if "1" in f else 2 if "2" in f else 0)]
    lead = je(None, [jn("x0", "lead", "e" if "b" in f else None, [], props, "K" if "c" in f else None,
                        {"k": "c", "d": [0, 4]} if "l" in f else None)])
    docs = [lead]
    for i in range(n):
        nid = ["a", "x%d" % i, "_%d" % i, "e2"][i % 4]
        docs.append(je(nid if filler == 9 else None, [jn(nid, ["p", "_rain_v_1", "named"][i % 3])]))
    return docs


def long_graph(n, top_at):
    """one graph with > 1024 tokens: a chain with a few isolated nodes, top somewhere in the middle"""
    nodes = []
    for i in range(n):
        if i % 17 == 5:
            edges = []
        else:
            edges = [("ARG1", "x%d" % ((i + 1) % n))]
        nodes.append(jn("x%d" % i, "p%d" % (i % 7), "e" if i % 3 == 0 else None, edges,
                        [("TENSE", "past")] if i % 3 == 0 else [], "K" if i % 5 == 0 else None,
                        {"k": "c", "d": [i, i + 1]} if i % 2 else None))
    return je(None if top_at is None else "x%d" % top_at, nodes)


def expand(case):
    """the compact deterministic long cases are expanded to ordinary docs / native cases"""
    k = case["kind"]
    if k == "longdoc":
        return {"kind": "docs", "docs": long_doc_graphs(case["filler"], case["shift"], case["n"]), "opts": case["opts"],
                "fmt": "native"}
    if k == "longgraph":
        return {"kind": "native", "eds": long_graph(case["n"], case["top"]), "opts": case["opts"]}
    return case


MODS = {"native": edsnative, "json": edsjson, "penman": edspenman}


def fmt_kw(fmt, indent):
    kw = dict(properties=True, lnk=True, indent=indent)
    if fmt == "native":
        kw["show_status"] = True
    return kw


def long_text_docs(fmt, target, shift):
    """a multi-graph document whose text is longer than `target` characters: a leading graph whose text length grows
    by one character per unit of `shift` (the length of its constant), then two-node graphs whose lengths vary with
    the index, so that graph boundaries fall at many different offsets around every multiple of 8192 characters"""
    def filler(i):
        return je("a", [jn("a", "p%d" % (i % 10), "e", [("ARG1", "b")], [("TENSE", "past")], "k" * ((i * 7) % 13),
                           {"k": "c", "d": [i % 50, i % 50 + 3]}),
                        jn("b", ["q", "named", "straße_n_1"][i % 3], "x", [], [], None if i % 4 else "Kim")])
    lead = je("x0", [jn("x0", "lead", "x", [], [], "K" * shift)])
    probe = [eds_of_j(filler(i)) for i in range(26)]
    per = len(MODS[fmt].dumps(probe, **fmt_kw(fmt, None))) / 26.0
    n = int(target / per) + 3
    return [lead] + [filler(i) for i in range(n)]


def churn_graphs(rng, k=12):
    """k different graphs of the same shape and size (so that a freed graph's memory is likely reused)"""
    n = rng.choice([1, 2, 2, 3, 4])
    ids = ["x%d" % i for i in range(n)]
    shape = [[(role, rng.choice(ids)) for role in rng.sample(["ARG1", "ARG2", "BV"], rng.choice([0, 1, 2]))]
             for _ in range(n)]
    out = []
    for j in range(k):
        nodes = []
        for i in range(n):
            nodes.append(jn(ids[i], rng.choice(PREDS_IN[:14]) + "_%d" % j, rng.choice(["x", "e", "i"]), shape[i],
                            [("TENSE", rng.choice(["past", "pres", "fut"])), ("NUM", rng.choice(["sg", "pl"]))],
                            "c%d_%d" % (j, rng.randrange(100)), {"k": "c", "d": [j, j + i + 1]}))
        out.append(je(ids[rng.randrange(n)], nodes))
    return out


def dict_obs(d):
    nodes = []
    for nid, nd in d["nodes"].items():
        nodes.append({"id": cps(nid), "label": cps(nd["label"]),
                      "edges": [[cps(a), cps(b)] for a, b in nd["edges"].items()],
                      "lnk": [nd["lnk"]["from"], nd["lnk"]["to"]] if "lnk" in nd else None,
                      "type": cps(nd.get("type")),
                      "props": ([[cps(a), cps(b)] for a, b in nd["properties"].items()]
                                if "properties" in nd else None),
                      "carg": cps(nd.get("carg"))})
    return {"top": cps(d["top"]), "nodes": nodes}


def long_text_cases(tier):
    out = []
    shifts16 = [1, 2, 3, 5, 8, 13, 21, 34, 40] if tier == "quick" else list(range(1, 41))
    for fmt in ("json", "penman", "native"):
        for j, sh in enumerate(shifts16):
            out.append({"kind": "longtext", "fmt": fmt, "target": 16384, "shift": sh, "indent": None if j % 2 else 2})
        for j, sh in enumerate([1, 17, 29]):
            out.append({"kind": "longtext", "fmt": fmt, "target": 65536, "shift": sh, "indent": None if j % 2 == 0 else 2})
        if tier != "quick":
            for j, sh in enumerate([4, 23]):
                out.append({"kind": "longtext", "fmt": fmt, "target": 131072, "shift": sh, "indent": None if j else 4})
    return out


def long_cases():
    V = [{"properties": True, "lnk": True, "show_status": False, "indent": True},
         {"properties": True, "lnk": True, "show_status": True, "indent": False},
         {"properties": True, "lnk": True, "show_status": False, "indent": False},
         {"properties": False, "lnk": False, "show_status": True, "indent": True}]
    out = []
    for filler, n in ((7, 300), (9, 236)):
        for shift in range(9):
            # with properties/lnk off the leading graph loses its extra tokens: those vectors only for shift 0
            for o in (V[shift % 3], V[(shift + 1) % 3]):
                out.append({"kind": "longdoc", "filler": filler, "shift": shift, "n": n, "opts": o})
        out.append({"kind": "longdoc", "filler": filler, "shift": 0, "n": n, "opts": V[3]})
    for o in (V[0], V[1]):
        out.append({"kind": "longgraph", "n": 170, "top": 80, "opts": o})
    out.append({"kind": "longgraph", "n": 320, "top": None, "opts": V[2]})
    return out


def graph_start_offsets(toks):
    """positions (mod 1024) of the `{` tokens that open a graph"""
    out = []
    for i, (name, _) in enumerate(toks):
        if name == "LBRACE" and (i == 0 or toks[i - 1][0] in ("RBRACE", "IDENTIFIER")):
            out.append(i)
    return out


def fixed_cases():
    """the shapes the property text names, as hand-written cases"""
    L = lambda a, b: {"k": "c", "d": [a, b]}   # noqa: E731
    out = []
    # top that is not the first node; first node whose id equals the top; single node that looks like a top
    g1 = je("e2", [jn("x1", "pron", "x", [], [("PERS", "3")], None, L(0, 2)),
                   jn("e2", "_rain_v_1", "e", [("ARG1", "x1")], [("TENSE", "past")], None, L(3, 8))])
    g2 = je("e2", [jn("e2", "_rain_v_1", "e", [], [], None, L(0, 4))])
    g3 = je(None, [jn("e2", "_rain_v_1")])
    g4 = je(None, [jn("e2", "named", None, [], [], "Kim")])
    g5 = je("_1", [jn("_1", "udef_q", None, [("BV", "x5")]), jn("x5", "_dog_n_1", "x", [("ARG1", "x5")]),
                   jn("_2", "card", "e", [("ARG1", "_2")], [], "2"), jn("i9", "p", "i")])
    g6 = je(None, [jn("a", "p", None, [("ARG1", "b")]), jn("b", "q", None, [("ARG1", "a")]), jn("c", "r")])
    g7 = je("b", [jn("a", "p"), jn("b", "q"), jn("c", "r", "x", [("ARG1", "b"), ("ARG2", "c")])])
    g8 = je(None, [])
    g9 = je("x", [jn("x", "named", "x", [], [("PERS", "3"), ("NUM", "sg"), ("IND", "+")], 'a"b\\', L(0, 1))], "1")
    g10 = je("e2", [jn("e2", "_The_q", "e", [], [("TENSE", "past")])])
    g11 = je("e2", [jn("e2", "_rain_v_1", None, [], [("TENSE", "past")])])     # F38 shape
    g12 = je("e2", [jn("e2", "p", "e", [("BODY", "e2"), ("LBL", "e2"), ("ARG1", "e2"), ("CARG", "e2"), ("ARG", "e2")])])
    g13 = je("a", [jn("a", "p", "x", [("ARG1", "b")], [], ""), jn("b", "q", "e", [], [], None, {"k": "t", "d": [1, 2]}),
                   jn("c", "r", "u", [("ARG1", "a")], [], None, {"k": "e", "d": [7]})])
    # collisions: identifiers equal to property values / constants / types / role names / `top`, numeric identifiers,
    # identifiers differing only in case
    c1 = je("1", [jn("1", "pron", "x", [("ARG1", "2"), ("ARG2", "3")], [("PERS", "3"), ("NUM", "sg")]),
                  jn("2", "named", "x", [], [("PERS", "1")], "3"), jn("3", "_dog_n_1", "x", [("BV", "1")], [("IND", "+")])])
    c2 = je("top", [jn("top", "p", "e", [("ARG1", "ARG1"), ("BV", "x")]), jn("ARG1", "q", "x", [], [("TENSE", "past")], "top"),
                    jn("x", "r", "x", [], [("PERS", "x")])])
    c3 = je("0", [jn("0", "p", "e", [("ARG1", "-1"), ("ARG2", "10000")], [("PERS", "0")]), jn("-1", "q", "x", [], [], "-1"),
                  jn("10000", "r", "x", [], [("NUM", "10000")])])
    c4 = je("x1", [jn("x1", "p", "x", [("ARG1", "X1")], [("PERS", "3")]), jn("X1", "q", "x", [("ARG1", "x1")])])
    c5 = je("e", [jn("e", "p", "x", [("ARG1", "x")], [("PERS", "x")], "x"), jn("x", "q", "e", [], [("NUM", "e")], "e")])
    c6 = je("past", [jn("past", "p", "e", [("ARG1", "sg")], [("TENSE", "past"), ("NUM", "sg")]),
                     jn("sg", "q", "x", [("ARG1", "3")], [("PERS", "3")]), jn("3", "r", "u", [], [], "past")])
    c7 = je("instance", [jn("instance", "p", "type", [("ARG1", "type"), ("ARG2", "lnk")]), jn("type", "q", "x", [], [], "carg"),
                         jn("lnk", "r", "x", [("ARG1", "carg")]), jn("carg", "s", "x")])
    c8 = je("a", [jn("a", "a", "x"), jn("b", "a", "x", [("ARG2", "a")])])      # predicate = identifier (F40 shape)
    # constants with leading / trailing blanks, the blank alone; constant nodes with and without alignment under a top
    k1 = je("x", [jn("x", "named", "x", [("ARG1", "y"), ("ARG2", "z")], [], " Kim", L(0, 3)),
                  jn("y", "named", "x", [], [], "Kim "), jn("z", "card", "i", [], [], " ", L(4, 5))])
    k2 = je("x", [jn("x", "named", "x", [], [], "Kim")])
    k3 = je("e", [jn("e", "_rain_v_1", "e", [("ARG1", "x")], [("TENSE", "past")], None, L(0, 4)),
                  jn("x", "named", "x", [], [("PERS", "3")], "Kim", L(5, 8))])
    # twins of the top: nodes that are ==-equal to the top node (Node.__eq__ ignores id and lnk) with another id, listed
    # before / after it, adjacent / apart, same / different alignment
    def tw(order, lnks=(None, None), pred="_bark_v_1"):
        nd = {"e2": jn("e2", pred, "e", [("ARG1", "x4")], [("TENSE", "past")], None, lnks[0]),
              "e8": jn("e8", pred, "e", [("ARG1", "x4")], [("TENSE", "past")], None, lnks[1]),
              "x4": jn("x4", "_dog_n_1", "x", [], [("NUM", "sg")], None, L(4, 7))}
        return je("e8", [nd[i] for i in order])
    t1 = tw(["e2", "x4", "e8"])
    t2 = tw(["e2", "e8", "x4"])
    t3 = tw(["e8", "e2", "x4"])
    t4 = tw(["e2", "e8", "x4"], (L(0, 3), L(8, 12)))
    t5 = tw(["x4", "e2", "e8"], (L(8, 12), L(8, 12)))
    t6 = je("b", [jn("a", "named", "x", [], [], "Kim"), jn("b", "named", "x", [], [], "Kim"),
                  jn("c", "compound", "e", [("ARG1", "a"), ("ARG2", "b")])])
    t7 = je("c", [jn("a", "p", "e", [("ARG1", "x")]), jn("b", "p", "e", [("ARG1", "x")], [], None, L(0, 1)),
                  jn("c", "p", "e", [("ARG1", "x")]), jn("x", "q", "x")])
    t8 = je("e8", [jn("e2", "p", None, [("ARG1", "e8")]), jn("e8", "p", None, [("ARG1", "e8")])])   # twin via a self loop
    twins = (t1, t2, t3, t4, t5, t6, t7, t8)
    for o in status_opts():
        out.append({"kind": "docs", "docs": list(twins), "opts": o, "fmt": "native"})
    for fmt in ("json", "penman"):
        out.append({"kind": "docs", "docs": list(twins), "fmt": fmt,
                    "opts": {"properties": True, "lnk": True, "show_status": False, "indent": False}})
    out.extend(from_mrs_cases())
    out.extend(api_cases({"g1": g1, "g2": g2, "g3": g3, "g5": g5, "g7": g7, "g8": g8, "g9": g9, "g13": g13, "k1": k1,
                          "k3": k3}))
    for g in (g1, g2, g3, g4, g5, g6, g7, g8, g9, g10, g11, g12, g13, c1, c2, c3, c4, c5, c6, c7, c8, k1, k2, k3) + twins:
        for o in all_opts():
            out.append({"kind": "native", "eds": g, "opts": o})
        for p, l, i in itertools.product([True, False], repeat=3):
            out.append({"kind": "json", "eds": g, "properties": p, "lnk": l, "indent": i})
            out.append({"kind": "penman", "eds": g, "properties": p, "lnk": l, "indent": i})
    for o in status_opts():
        out.append({"kind": "docs", "docs": [g1, g3, g8, g5, g2], "opts": o, "fmt": "native"})
        out.append({"kind": "docs", "docs": [], "opts": o, "fmt": "native"})
        out.append({"kind": "docs", "docs": [g9, g9], "opts": o, "fmt": "native"})
    # list API with properties != lnk (a positional swap in dumps / dump shows only here)
    for p_, l_ in ((True, False), (False, True)):
        for s_, i_ in ((True, True), (False, False)):
            o_ = {"properties": p_, "lnk": l_, "show_status": s_, "indent": i_}
            out.append({"kind": "docs", "docs": [g1, g9, k1, k3], "opts": o_, "fmt": "native"})
            out.append({"kind": "docs", "docs": [g1, g2, k1, k3], "opts": o_, "fmt": "json"})
            out.append({"kind": "docs", "docs": [g1, g2, k1, k3], "opts": o_, "fmt": "penman"})
    for fmt in ("json", "penman"):
        out.append({"kind": "docs", "docs": [g1, g2, g7], "opts": {"properties": True, "lnk": True, "show_status": False,
                                                                   "indent": False}, "fmt": fmt})
        out.append({"kind": "docs", "docs": [g1, g2], "opts": {"properties": False, "lnk": False, "show_status": False,
                                                               "indent": True}, "fmt": fmt})
    texts = ["{", "{}", "{ }", "{:}", "{: (fragmented)}", "{(fragmented)}", "{|a:p[]}", "{a:}", "{a: b}", "{a: b:p[]}",
             "{a: b:p", "{a:p[]}", "{a: (fragmented) |b:p[]}", "{a: |b:p[]}", "{a:p<0:1>[]}", "{a:p{e}[]}",
             "{a:P{e TENSE PAST, tense pres}[arg1 a, ARG1 b]}", "{a:p(\"x\\\"y\")[]}", "#12 {a:p[]}", "#12\n{\n a:p[]\n}",
             "{a:p[] b:q[]} {c:r[]}", "{a:p[]} {", "{a:p[]} {b", "{a:p[]} }", "{a:p[ARG1]}", "{a:p[ARG1 b,]}",
             "{a:p{}[]}", "{a:p{e SF}[]}", "{a b}", "{a: b: c:p[]}", "", " ", "{a:p[]", "{a:p[]}{b:q[]}", "{a:p[] ?}",
             "{a:p(\"x)[]}", "{a:p[]}\n\n{b:q<1 2>(\"c\"){x PERS 3}[BV a]}", "{a", "{a:", "{a:p", "{a:p[", "{a:p[ARG1",
             "{a: (fragmented)", "{a: (fragmented) b", "{(cyclic fragmented) a:p[]}", "{a: (cyclic) a:p[]}", "x", "}",
             # lexer stress: adjacent tokens without blanks, status markers, GRAPHSTATUS variants
             "{a:(fragmented)|b:p[]|c:q<0:1>(\"x\"){e SF prop}[ARG1 b,ARG2 c]}", "{(cyclic  fragmented)a:p[]}",
             "{(cyclic )a:p[]}", "{()a:p[]}", "{(fragmented a:p[]}", "{(cyclicfragmented) a:p[]}", "{(fragmentedcyclic)}",
             "{( fragmented) a:p[]}", "{(cyclic fragmented ) a:p[]}", "{a:|b:p[]}", "{a||:p[]}", "{a:p|q[]}", "{|a:p[]|b:q[]}",
             # SYMBOL boundaries: predicates containing < ( : , and other class characters
             "{a:p<q[]}", "{a:p(q[]}", "{a:p:q[]}", "{a:p,q[]}", "{a:p)q[]}", "{a:p>q[]}", "{a:p\"q[]}", "{a:p#q[]}",
             "{a:p\tq[]}", "{a:p\u00a0q[]}", "{a:p\u3000[]}", "{a:_p_v_1<0:1>[]}", "{a:p<0:1><2:3>[]}", "{a:p <0:1>[]}",
             # LNK variants
             "{a:p<1 2 3>[]}", "{a:p<1  2>[]}", "{a:p<-1:-1>[]}", "{a:p<1#-2>[]}", "{a:p<@5>[]}", "{a:p<@-5>[]}",
             "{a:p<1:2[]}", "{a:p<a>[]}", "{a:p<>[]}", "{a:p<1 >[]}", "{a:p< 1>[]}", "{a:p<1:2:3>[]}", "{a:p<-1 2>[]}",
             "{a:p<01:002>[]}",
             # CARG variants: escapes, quotes, parentheses inside, unterminated, missing parenthesis
             "{a:p(\"\\\\\")[]}", "{a:p(\"\\\"\")[]}", "{a:p(\"a\\\")[]}", "{a:p(\"a\")b\")[]}", "{a:p(\"a\" )[]}",
             "{a:p(\"a\"x)[]}", "{a:p( \"a\")[]}", "{a:p(\"\")(\"\")[]}", "{a:p(\"(fragmented)\")[]}", "{a:p(\"a\\",
             "{a:p(\"a\nb\")[]}", "{a:p(\"a\rb\")[]}",
             # IDENTIFIER variants
             "#id{a:p[]}", "#id  {a:p[]}", "#id x {a:p[]}", "#{a:p[]}", "# {a:p[]}", "a#b{a:p[]}", "#a:_x{e}[]",
             "{#a:_x{e}[]}", "{a:#p{e}[]}", "{a:#p[]}", "#i#j {a:p[]}", "#id", "#id\n{a:p[]}", "#id\t{a:p[]}",
             "#id\u00a0{a:p[]}", "{a:p[] #x}", "{a:p[]} #2 {b:q[]}",
             # line breaks and white space
             "{a:p[]\r\n b:q[]}", "{a:p[]\x0b}", "{a:p[]\x1c}", "{a:\tp[]}", "{a :p []}", "{\u2028a:p[]}", "{a:p[]}\x85{b:q[]}"]
    for t in texts:
        for api in ("decode", "loads", "load", "loadpath"):
            out.append({"kind": "parse", "text": cps(t), "api": api})
    trs = [[("a", ":instance", "p"), ("a", ":ARG1", "b"), ("b", ":instance", "q")],
           [("a", ":lnk", '"<0:3>"'), ("a", ":carg", '"K\\"x"'), ("a", ":type", "x"), ("a", ":pers", "3"), ("a", "::X", "a")],
           [("a", ":lnk", "zz")], [("a", ":lnk", '"<a:b>"')], [("a", ":carg", "")], [("a", ":carg", '"')],
           [("a", ":carg", "K")], [], [("a", "ARG1", "b")], [("a", ":lnk", '""')], [("a", ":1", "b"), ("a", ":Ab", "c")]]
    for tr in trs:
        out.append({"kind": "triples", "triples": [[cps(a), cps(b), cps(c)] for a, b, c in tr]})
    ptexts = ["(", "(a / p", ")", "(a / p :ARG1)", "a", "(a / p) (", "", " ", "(a / p :lnk \"<x>\")", "(a / p :ARG1 (b / q)) junk",
              "(a / p :carg \"K)", "(a / p :ARG1 (b / q)", "(a / p))", "(a / p :carg \"K\\\"x\" :lnk \"<0:3>\" :type x :pers 3)",
              "(a / p)\n\n(b / q :ARG1-of (c / r))", "# ::id 1\n(a / p)", "(a / p :ARG1 b)\n(", "((a / p))", "(a / p :lnk zz)",
              "(a / p :carg \"\")", "(a :ARG1 (b / q))", "()", "(a / p / q)", "(a / p :lnk )", "(a / p :carg )", "(a / p :type )",
              "(a / p :carg:carg \"x\")", "(a /  :carg \" \")"]
    for t in ptexts:
        for api in ("decode", "loads", "load", "loadpath"):
            out.append({"kind": "pentext", "text": cps(t), "api": api})
    return out


def mutate_text(rng, text):
    """token-level damage to an encoder output"""
    pieces = re.findall(r'\("(?:[^"\\]|\\.)*"\)|<[^>]*>|\(fragmented\)|[{}\[\]:,|]|[^ \n:,<\(\[\]\{\}|]+|\s+|.', text)
    if not pieces:
        return text
    k = rng.choice(["del", "del", "dup", "swap", "ins", "trunc", "upper", "cat"])
    i = rng.randrange(len(pieces))
    if k == "del":
        del pieces[i]
    elif k == "dup":
        pieces.insert(i, pieces[i] + " ")
    elif k == "swap" and len(pieces) > 1:
        j = rng.randrange(len(pieces))
        pieces[i], pieces[j] = pieces[j], pieces[i]
    elif k == "ins":
        pieces.insert(i, rng.choice([":", "{", "}", "[", "]", ",", "|", "(fragmented)", " x ", "<0:1>", '("c")', "#i ", " ",
                                     "(cyclic)", "?", "("]))
    elif k == "trunc":
        pieces = pieces[:i]
    elif k == "upper":
        pieces[i] = pieces[i].upper()
    else:
        pieces = pieces + [" "] + pieces[:i + 1]
    return "".join(pieces)


def skel(fn, doc=None):
    """normalised load skeleton of a function, read from its code object: in instruction order the string / integer /
    None / Boolean constants (docstring and message texts — strings with two or more blanks — dropped), the global
    names, the attribute / method names it loads and the comparison operators; nested code objects (generator
    expressions, lambdas) inline.  No source text, no layout, no local variable names."""
    code = fn if isinstance(fn, types.CodeType) else fn.__code__
    if doc is None and not isinstance(fn, types.CodeType):
        doc = fn.__doc__
    out = []

    def const(c):
        if isinstance(c, types.CodeType):
            out.extend(skel(c, doc))
        elif isinstance(c, bool) or c is None:
            out.append("c:%s" % c)
        elif isinstance(c, int):
            out.append("i:%d" % c)
        elif isinstance(c, str):
            if c == doc or c.count(" ") >= 2:
                return
            out.append("s:" + c)
        elif isinstance(c, (tuple, frozenset)):
            for x in (sorted(c, key=repr) if isinstance(c, frozenset) else c):
                const(x)
    for ins in dis.get_instructions(code):
        if ins.opname in ("LOAD_CONST", "KW_NAMES", "RETURN_CONST"):
            if ins.opname == "RETURN_CONST" and ins.argval is None:
                continue
            const(ins.argval)
        elif ins.opname in ("LOAD_GLOBAL", "LOAD_NAME"):
            out.append("g:" + str(ins.argval))
        elif ins.opname in ("LOAD_ATTR", "LOAD_METHOD", "STORE_ATTR"):
            out.append("a:" + str(ins.argval))
        elif ins.opname in ("COMPARE_OP", "CONTAINS_OP", "IS_OP"):
            out.append("o:%s:%s" % (ins.opname, ins.argrepr or ins.arg))
    return out


def pinned_functions():
    """(Lean name suffix, function) for every anchored function the model hand-codes an equivalent of"""
    LI, LL = util.LookaheadIterator, util.LookaheadLexer
    return [
        ("EdsDecode", edsnative._decode), ("EdsDecodeEds", edsnative._decode_eds),
        ("EdsDecodeNode", edsnative._decode_node), ("EdsDecodeProperties", edsnative._decode_properties),
        ("EdsDecodeEdges", edsnative._decode_edges), ("EdsEncodeEds", edsnative._encode_eds),
        ("EdsEncodeNode", edsnative._encode_node), ("EdsEscape", edsnative._escape),
        ("EdsUnescape", edsnative._unescape), ("EdsDumps", edsnative.dumps), ("EdsEncode", edsnative.encode),
        ("EdsDecodeApi", edsnative.decode), ("EdsLoads", edsnative.loads),
        ("JsonToDict", edsjson.to_dict), ("JsonFromDict", edsjson.from_dict), ("JsonEncode", edsjson.encode),
        ("JsonDumps", edsjson.dumps), ("JsonDecode", edsjson.decode), ("JsonLoads", edsjson.loads),
        ("PenToTriples", edspenman.to_triples), ("PenFromTriples", edspenman.from_triples),
        ("PenEscape", edspenman._escape), ("PenUnescape", edspenman._unescape), ("PenEncode", edspenman.encode),
        ("PenDumps", edspenman.dumps), ("PenDecode", edspenman.decode), ("PenLoads", edspenman.loads),
        ("UtilBfs", util._bfs), ("UtilPeek", LI.peek), ("UtilNext", LI.next), ("UtilBufferFill", LI._buffer_fill),
        ("UtilExpect", LL.expect), ("UtilAccept", LL.accept), ("UtilPrelex", util.Lexer.prelex),
        ("RolePriority", sembase.role_priority), ("PropertyPriority", sembase.property_priority),
        ("LnkInit", lnkmod.Lnk.__init__), ("LnkStr", lnkmod.Lnk.__str__), ("LnkBool", lnkmod.Lnk.__bool__),
        ("LnkCfrom", lnkmod.LnkMixin.cfrom.fget), ("LnkCto", lnkmod.LnkMixin.cto.fget),
        ("NodeInit", edsmod.Node.__init__), ("EdsInit", edsmod.EDS.__init__),
    ]


def pinned_signatures():
    """default arguments of every public function of the three codecs and of the constructors the harness uses"""
    out = []
    for mname, mod in (("eds", edsnative), ("edsjson", edsjson), ("edspenman", edspenman)):
        for fname in ("load", "loads", "dump", "dumps", "decode", "encode", "to_dict", "from_dict", "to_triples",
                      "from_triples"):
            fn = getattr(mod, fname, None)
            if fn is not None:
                out.append("%s.%s%s" % (mname, fname, inspect.signature(fn)))
    for name, fn in (("Node", edsmod.Node.__init__), ("EDS", edsmod.EDS.__init__),
                     ("LookaheadIterator", util.LookaheadIterator.__init__),
                     ("LookaheadLexer", util.LookaheadLexer.__init__),
                     ("LookaheadIterator.peek", util.LookaheadIterator.peek),
                     ("LookaheadLexer.accept", util.LookaheadLexer.accept), ("_bfs", util._bfs)):
        sig = inspect.signature(fn)
        out.append("%s(%s)" % (name, ", ".join(
            p.name if p.default is inspect.Parameter.empty else "%s=%r" % (p.name, p.default)
            for p in sig.parameters.values())))
    return out


def pin_lines():
    lit = T.lean_strlit
    lines = ["def c03LexerTokens : List (String × String) := [%s]"
             % ", ".join("(%s, %s)" % (lit(rx), lit(nm)) for rx, nm in edsnative._EDSLexer.tokens),
             "def c03LexerFlags : Nat := %d" % int(edsnative._EDSLexer._re.flags),
             "def c03JsonFraming : List String := [%s]" % ", ".join(lit(x) for x in (edsjson.HEADER, edsjson.JOINER,
                                                                                      edsjson.FOOTER)),
             "def c03Signatures : List String := [%s]" % ", ".join(lit(x) for x in pinned_signatures())]
    for name, fn in pinned_functions():
        lines.append("def c03Skel%s : List String := [%s]" % (name, ", ".join(lit(x) for x in skel(fn))))
    return lines


# --------------------------------------------------------------------------- converted graphs (kind "frommrs")

FROM_MRS = {
    # "nearly every dog barked": a predicate-modifier edge that points at the renamed quantifier node
    "nearly": '[ TOP: h0 INDEX: e2 [ e SF: prop TENSE: past ] RELS: < [ _nearly_x_deg<0:6> LBL: h4 ARG0: e5 ARG1: u6 ] '
              '[ _every_q<7:12> LBL: h4 ARG0: x3 [ x PERS: 3 NUM: sg ] RSTR: h7 BODY: h8 ] [ _dog_n_1<13:16> LBL: h9 ARG0: x3 ] '
              '[ _bark_v_1<17:23> LBL: h1 ARG0: e2 ARG1: x3 ] > HCONS: < h0 qeq h1 h7 qeq h9 > ]',
    "kim": '[ TOP: h0 INDEX: e2 [ e SF: prop TENSE: pres ] RELS: < [ proper_q<0:3> LBL: h4 ARG0: x3 [ x PERS: 3 NUM: sg ] '
           'RSTR: h5 BODY: h6 ] [ named<0:3> LBL: h7 ARG0: x3 CARG: "Kim" ] [ _sleep_v_1<4:10> LBL: h1 ARG0: e2 ARG1: x3 ] > '
           'HCONS: < h0 qeq h1 h5 qeq h7 > ]',
    "two": '[ TOP: h0 INDEX: e2 [ e SF: prop TENSE: past ] RELS: < [ _the_q<0:3> LBL: h4 ARG0: x3 RSTR: h5 BODY: h6 ] '
           '[ _dog_n_1<4:7> LBL: h7 ARG0: x3 ] [ _chase_v_1<8:14> LBL: h1 ARG0: e2 ARG1: x3 ARG2: x8 ] '
           '[ _a_q<15:16> LBL: h9 ARG0: x8 RSTR: h10 BODY: h11 ] [ _cat_n_1<17:20> LBL: h12 ARG0: x8 ] > '
           'HCONS: < h0 qeq h1 h5 qeq h7 h10 qeq h12 > ]',
    # the quantifier is the first node and the modifier comes last; a second modifier on the other quantifier
    "both": '[ TOP: h0 INDEX: e2 [ e SF: prop TENSE: past ] RELS: < [ _every_q<7:12> LBL: h4 ARG0: x3 RSTR: h7 BODY: h8 ] '
            '[ _dog_n_1<13:16> LBL: h9 ARG0: x3 ] [ _chase_v_1<17:23> LBL: h1 ARG0: e2 ARG1: x3 ARG2: x10 ] '
            '[ _some_q<24:28> LBL: h11 ARG0: x10 RSTR: h12 BODY: h13 ] [ _cat_n_1<29:32> LBL: h14 ARG0: x10 ] '
            '[ _almost_x_deg<33:39> LBL: h11 ARG0: e15 ARG1: u16 ] [ _nearly_x_deg<0:6> LBL: h4 ARG0: e5 ARG1: u6 ] > '
            'HCONS: < h0 qeq h1 h7 qeq h9 h12 qeq h14 > ]',
}


def from_mrs_eds(key):
    """the object eds.from_mrs returns, untouched"""
    return _edspkg.from_mrs(_simplemrs.decode(FROM_MRS[key]))


def from_mrs_cases():
    out = []
    for key in FROM_MRS:
        for o in all_opts():
            out.append({"kind": "frommrs", "mrs": key, "fmt": "native", "opts": o})
        for p_, l_, i_ in itertools.product([True, False], repeat=3):
            o = {"properties": p_, "lnk": l_, "show_status": False, "indent": i_}
            out.append({"kind": "frommrs", "mrs": key, "fmt": "json", "opts": o})
            out.append({"kind": "frommrs", "mrs": key, "fmt": "penman", "opts": o})
    return out


# --------------------------------------------------------------------------- the public API (kind "api")

API_WRITES = ("encode", "dumps", "dump-handle", "dump-path", "dump-pathobj")
API_READS = ("decode", "loads", "load-handle", "load-path", "load-fh")
API_INDENTS = {"native": [None, False, True, 0, 1, 2, 4, -1], "json": [None, False, True, 0, 2, 4],
               "penman": [None, False, True, 0, 2, -1]}
API_PLS = [(True, True, False), (True, False, True), (False, True, True), (False, False, False), (True, True, True)]
MODEL_WRITE = {"encode": "encode", "dumps": "dumps", "dump-handle": "dump", "dump-path": "dump", "dump-pathobj": "dump"}
MODEL_READ = {"decode": "decode", "loads": "loads", "load-handle": "load", "load-path": "loadpath", "load-fh": "loadpath"}


def api_kw(case):
    kw = dict(properties=case["properties"], lnk=case["lnk"], indent=case["indent"])
    if case["fmt"] == "native":
        kw["show_status"] = case["show_status"]
    return kw


def api_write(mod, es, kw, write, tmpdir):
    """the text a write path produces (for the dump variants: what is in the file afterwards)"""
    if write == "encode":
        return mod.encode(es[0], **kw)
    if write == "dumps":
        return mod.dumps(es, **kw)
    if write == "dump-handle":
        fh = io.StringIO()
        mod.dump(es, fh, **kw)
        return fh.getvalue()
    path = os.path.join(tmpdir, "api-w.txt")
    mod.dump(es, path if write == "dump-path" else pathlib.Path(path), **kw)
    with open(path, encoding="utf-8", newline="") as fh:
        return fh.read()


def api_read(mod, text, read, tmpdir):
    if read == "decode":
        return mod.decode(text)
    if read == "loads":
        return mod.loads(text)
    if read == "load-handle":
        return mod.load(io.StringIO(text))
    path = os.path.join(tmpdir, "api-r.txt")
    with open(path, "w", encoding="utf-8", newline="") as fh:
        fh.write(text)
    if read == "load-path":
        return mod.load(path)
    with open(path, encoding="utf-8") as fh:
        return mod.load(fh)


def api_cases(fixed):
    """deterministic battery: every (write path, read path) pair for every codec, the `indent` values and the option
    vectors cycling under them (so that every indent value and every option vector meets every write and read path)"""
    g = fixed
    L = lambda a, b: {"k": "c", "d": [a, b]}   # noqa: E731
    # non-ASCII material (a real file is decoded on the way back), an empty graph inside a JSON document
    u1 = je("e2", [jn("e2", "straße_n_1", "e", [("ARG1", "xσ")], [("TENSE", "past")], "caf\u00e9 ΣΟΦΟΣ ς \U0001F600", L(0, 6)),
                   jn("xσ", "σοφός_a_1", "x", [], [("PERS", "3")], "ẞ\"ß\\", L(7, 12))])
    lists = {"native": [[g["g1"], g["g3"], g["g8"], g["g5"], g["g2"]], [g["g9"]], [], [g["k1"], u1, g["k3"], g["g13"]], [u1]],
             "json": [[g["g1"], g["g8"], g["g2"], g["k1"], u1, g["g13"]], [g["k3"]], [], [g["g8"]]],
             "penman": [[g["g1"], g["g2"], g["g7"], u1, g["k3"]], [g["k1"]], []]}
    out = []
    k = 0
    for fmt in ("native", "json", "penman"):
        ind = API_INDENTS[fmt]
        for docs in lists[fmt]:
            for w in API_WRITES:
                if w == "encode" and len(docs) != 1:
                    continue
                for r in API_READS:
                    if r == "decode" and not docs:
                        continue
                    if fmt == "json" and (w == "encode") != (r == "decode"):
                        continue     # a JSON list is not a JSON graph
                    for _ in range(2 if fmt == "native" else 1):
                        p_, l_, s_ = API_PLS[(k // 3) % len(API_PLS)]
                        out.append({"kind": "api", "fmt": fmt, "docs": docs, "properties": p_, "lnk": l_,
                                    "show_status": s_, "indent": ind[k % len(ind)], "write": w, "read": r})
                        k += 1
    return out


def pen_canon(x):
    """PENMAN observations up to node order and key order (the penman library lays the graph out as a tree)"""
    if isinstance(x, dict) and "nodes" in x and "top" in x:
        nodes = [dict(n, edges=sorted(n["edges"]), props=sorted(n["props"])) for n in x["nodes"]]
        return {"top": x["top"], "nodes": sorted(nodes, key=lambda n: n["id"])}
    if isinstance(x, dict):
        return {k: pen_canon(v) for k, v in x.items()}
    if isinstance(x, list):
        return [pen_canon(v) for v in x]
    return x


class C03(Check):
    pid = "C03"
    props_modules = ["Verif.C03.Props", "Verif.C03.PropsApi"]
    quick_cases = 3000
    thorough_cases = 30000
    rule = ("distinct (graph, options) cases with at least one node; counted per codec and option vector")
    assumptions = [
        "the regex lexer of the native codec is not modelled: the model's token view of the encoder output is compared "
        "with what the real lexer returns on the real text, and the real lexer's tokens of damaged texts are fed to the "
        "model's parser",
        "json and penman libraries are identity parameters of the model (the oracle goes through their real text); for "
        "penman the identity FAILS when a predicate string equals a node identifier (known finding F40: the :instance "
        "triple is rewritten as an inverted edge) — the model, stated on triples, cannot exhibit this loss; the PENMAN "
        "theorem is a statement about to_triples/from_triples only, the oracle and classify() carry F40",
        "str.upper/lower/islower are modelled for ASCII; generators keep cased characters ASCII",
    ]
    trusted_base = ["harness/c03.py generators, canonicalisation and oracle", "json, penman libraries (parameters)"]

    def tables(self):
        return ["def edsCommonProperties : List String := [%s]"
                % ", ".join(T.lean_strlit(s) for s in sembase._COMMON_PROPERTIES),
                "def edsUnspecific : String := %s" % T.lean_strlit(variable.UNSPECIFIC)] + pin_lines()

    tmpdir = None

    def setup(self):
        self.tmpdir = tempfile.mkdtemp(prefix="c03-", dir="/var/tmp")

    def teardown(self):
        if self.tmpdir:
            shutil.rmtree(self.tmpdir, ignore_errors=True)
            self.tmpdir = None

    # ---- cases
    def cases(self, rng, tier, n):
        out = fixed_cases() + long_cases() + long_text_cases(tier)
        crng = __import__("random").Random(20260929)
        for _ in range(3):
            out.append({"kind": "churn", "graphs": churn_graphs(crng), "opts": {"properties": True, "lnk": True,
                                                                               "show_status": True, "indent": True}})
        small = enum_small(2 if tier == "quick" else 3)
        for g in small:
            for o in status_opts():
                out.append({"kind": "native", "eds": g, "opts": o})
        for g in small[::5 if tier == "quick" else 2]:
            out.append({"kind": "penman", "eds": g, "properties": True, "lnk": True, "indent": False})
            out.append({"kind": "json", "eds": g, "properties": True, "lnk": True, "indent": False})
        for c in out:
            yield c
        opts = list(all_opts())
        k = 0
        while k < n:
            odd = rng.random() < 0.22
            g = gen_eds(rng, odd)
            r = rng.random()
            if r < 0.45:
                for o in rng.sample(opts, 3):
                    yield {"kind": "native", "eds": g, "opts": o}
                    k += 1
            elif r < 0.58:
                p, l, i = (rng.random() < 0.6, rng.random() < 0.6, rng.random() < 0.5)
                yield {"kind": "json", "eds": g, "properties": p, "lnk": l, "indent": i}
                k += 1
            elif r < 0.74:
                p, l, i = (rng.random() < 0.6, rng.random() < 0.6, rng.random() < 0.5)
                yield {"kind": "penman", "eds": g, "properties": p, "lnk": l, "indent": i}
                k += 1
            elif r < 0.83:
                docs = [g] + [gen_eds(rng, False, 4) for _ in range(rng.choice([0, 1, 2, 3]))]
                yield {"kind": "docs", "docs": docs, "opts": rng.choice(opts), "fmt": rng.choice(["native", "native", "json",
                                                                                                  "penman"])}
                k += 1
            elif r < 0.845:
                yield {"kind": "churn", "graphs": churn_graphs(rng), "opts": rng.choice(opts)}
                k += 1
            elif r < 0.875:
                fmt = rng.choice(["native", "native", "json", "penman"])
                docs = [g] + [gen_eds(rng, False, 4) for _ in range(rng.choice([0, 0, 1, 2, 3]))]
                if rng.random() < 0.1:
                    docs = []
                w = rng.choice([x for x in API_WRITES if x != "encode" or len(docs) == 1])
                rd = rng.choice([x for x in API_READS if (x != "decode" or docs)
                                 and (fmt != "json" or (w == "encode") == (x == "decode"))])
                yield {"kind": "api", "fmt": fmt, "docs": docs, "properties": rng.random() < 0.6, "lnk": rng.random() < 0.6,
                       "show_status": rng.random() < 0.5, "indent": rng.choice(API_INDENTS[fmt]), "write": w, "read": rd}
                k += 1
            elif r < 0.98:
                if rng.random() < 0.7:
                    g = gen_eds(rng, odd, ascii_only=True)
                e = eds_of_j(g)
                o = rng.choice(opts)
                try:
                    if rng.random() < 0.3:
                        text = edsnative.dumps([e, eds_of_j(gen_eds(rng, False, 3))], **opts_kw(o))
                    else:
                        text = edsnative.encode(e, **opts_kw(o))
                except KeyError:
                    continue
                for _ in range(rng.choice([1, 1, 2])):
                    text = mutate_text(rng, text)
                yield {"kind": "parse", "text": cps(text), "api": rng.choice(["decode", "loads", "decode", "loads", "load",
                                                                              "loadpath"])}
                k += 1
            elif r < 0.99:
                e = eds_of_j(g)
                if not (targets_ok(e) and e.nodes and penman_safe(e)):
                    continue
                try:
                    text = edspenman.dumps([e, eds_of_j(gen_eds(rng, False, 3))][:rng.choice([1, 1, 2])],
                                           indent=rng.choice([None, True]))
                except Exception:   # noqa: BLE001
                    continue
                pieces = re.findall(r'"(?:[^"\\]|\\.)*"|[()/]|[^\s()/"]+|\s+', text) or [""]
                for _ in range(rng.choice([1, 1, 2])):
                    i = rng.randrange(len(pieces))
                    m = rng.choice(["del", "del", "dup", "ins", "trunc"])
                    if m == "del":
                        del pieces[i]
                    elif m == "dup":
                        pieces.insert(i, pieces[i])
                    elif m == "ins":
                        pieces.insert(i, rng.choice(["(", ")", "/", ":ARG1", '"', " x ", ":lnk \"<1>\""]))
                    else:
                        pieces = pieces[:i]
                    if not pieces:
                        pieces = [""]
                yield {"kind": "pentext", "text": cps("".join(pieces)), "api": rng.choice(["decode", "loads", "load", "loadpath"])}
                k += 1
            else:
                e = eds_of_j(g)
                if not targets_ok(e):
                    continue
                tr = [list(t) for t in edspenman.to_triples(e)]
                if tr:
                    i = rng.randrange(len(tr))
                    m = rng.choice(["del", "rel", "tgt", "dup"])
                    if m == "del":
                        del tr[i]
                    elif m == "rel":
                        tr[i][1] = rng.choice([":lnk", ":carg", "::ARG1", ":x", "instance", ":Type", ":type", ":A1"])
                    elif m == "tgt":
                        tr[i][2] = rng.choice(["", '"', '"x', '"<1:2>"', "<1#2>", '"a\\"', "zz"])
                    else:
                        tr.insert(i, list(tr[i]))
                yield {"kind": "triples", "triples": [[cps(a), cps(b), cps(c)] for a, b, c in tr]}
                k += 1

    def search_cases(self, rng, tier, n, seeds):
        return self.cases(rng, "quick", n)

    # ---- implementation
    def impl(self, case):
        case = expand(case)
        k = case["kind"]
        if k == "native":
            e = eds_of_j(case["eds"])
            o = case["opts"]
            try:
                text = edsnative.encode(e, **opts_kw(o))
            except KeyError:
                return {"err": "KeyError"}
            res = {"text": cps(text)}
            try:
                res["toks"] = lex_tokens(text)
            except EDSSyntaxError:
                res["toks"] = {"err": "EDSSyntaxError"}
            dec = guarded(lambda: edsnative.decode(text))
            if "ok" in dec:
                d = dec["ok"]
                res["dec"] = {"ok": eds_to_j(d)}
                res["re"] = guarded(lambda: cps(edsnative.encode(d, **opts_kw(o))))
            else:
                res["dec"] = dec
                res["re"] = dec
            res["ltoks"] = res["toks"]      # what the model's own lexer must return on the text
            res["ldec"] = res["dec"]        # … and its lexer followed by its parser
            res["lexok"] = bool(lexable(e, o))   # the oracle's scope predicate = the hypothesis of the text theorems
            return res
        if k == "docs":
            es = [eds_of_j(g) for g in case["docs"]]
            o = case["opts"]
            fmt = case.get("fmt", "native")
            if fmt != "native":
                return {"fmt": fmt}
            try:
                text = edsnative.dumps(es, **opts_kw(o))
            except KeyError:
                return {"err": "KeyError"}
            dec = guarded(lambda: [eds_to_j(d) for d in edsnative.loads(text)])
            return {"text": cps(text), "dec": dec, "ldec": dec}
        if k == "parse":
            text = uncps(case["text"])
            if case["api"] == "decode":
                return guarded(lambda: eds_to_j(edsnative.decode(text)))
            if case["api"] == "load":
                return guarded(lambda: [eds_to_j(d) for d in edsnative.load(io.StringIO(text))])
            if case["api"] == "loadpath":
                return guarded(lambda: [eds_to_j(d) for d in api_read(edsnative, text, "load-path", self.tmpdir)])
            return guarded(lambda: [eds_to_j(d) for d in edsnative.loads(text)])
        if k == "json":
            e = eds_of_j(case["eds"])
            d = edsjson.to_dict(e, properties=case["properties"], lnk=case["lnk"])
            nodes = []
            for nid, nd in d["nodes"].items():
                nodes.append({"id": cps(nid), "label": cps(nd["label"]),
                              "edges": [[cps(a), cps(b)] for a, b in nd["edges"].items()],
                              "lnk": [nd["lnk"]["from"], nd["lnk"]["to"]] if "lnk" in nd else None,
                              "type": cps(nd.get("type")),
                              "props": ([[cps(a), cps(b)] for a, b in nd["properties"].items()]
                                        if "properties" in nd else None),
                              "carg": cps(nd.get("carg"))})
            back = edsjson.from_dict(d)
            nat = guarded(lambda: cps(edsnative.encode(back, properties=case["properties"], lnk=case["lnk"],
                                                       show_status=True, indent=bool(case["indent"]))))
            return {"dict": {"top": cps(d["top"]), "nodes": nodes}, "dec": eds_to_j(back), "native": nat}
        if k == "penman":
            e = eds_of_j(case["eds"])
            try:
                tr = edspenman.to_triples(e, properties=case["properties"], lnk=case["lnk"])
            except KeyError:
                return {"err": "KeyError"}
            def native_of_penman():
                d = edspenman.from_triples(tr)
                if any(n.predicate is None for n in d.nodes):
                    return None      # Node(nid, None, …): encode raises a TypeError, outside the model's Node
                return cps(edsnative.encode(d, properties=case["properties"], lnk=case["lnk"], show_status=True,
                                            indent=bool(case["indent"])))
            return {"triples": [[cps(a), cps(b), cps(c)] for a, b, c in tr],
                    "dec": guarded(lambda: pen_obs(edspenman.from_triples(tr))), "native": guarded(native_of_penman)}
        if k == "triples":
            tr = [(uncps(a), uncps(b), uncps(c)) for a, b, c in case["triples"]]
            return guarded(lambda: pen_obs(edspenman.from_triples(tr)))
        if k == "longtext":
            mod = MODS[case["fmt"]]
            es = [eds_of_j(g) for g in long_text_docs(case["fmt"], case["target"], case["shift"])]
            text = mod.dumps(es, **fmt_kw(case["fmt"], case["indent"]))
            back = guarded(lambda: len(mod.loads(text)))
            return {"graphs": len(es), "chars_over_target": len(text) > case["target"], "back": back}
        if k == "frommrs":
            e = from_mrs_eds(case["mrs"])
            o = case["opts"]
            fmt = case["fmt"]

            def run():
                if fmt == "native":
                    text = edsnative.encode(e, **opts_kw(o))
                    d = edsnative.decode(text)
                    return {"text": cps(text), "dec": {"ok": eds_to_j(d)}, "re": {"ok": cps(edsnative.encode(d, **opts_kw(o)))}}
                if fmt == "json":
                    dd = edsjson.to_dict(e, properties=o["properties"], lnk=o["lnk"])
                    return {"dict": dict_obs(dd), "dec": eds_to_j(edsjson.from_dict(dd))}
                tr = edspenman.to_triples(e, properties=o["properties"], lnk=o["lnk"])
                return {"triples": [[cps(a), cps(b), cps(c)] for a, b, c in tr],
                        "dec": {"ok": pen_obs(edspenman.from_triples(tr))}}
            r = guarded_any(run)
            return r["ok"] if "ok" in r else r
        if k == "pentext":
            text = uncps(case["text"])
            rd = {"decode": "decode", "loads": "loads", "load": "load-handle", "loadpath": "load-path"}[case["api"]]

            def pen_read():
                r = api_read(edspenman, text, rd, self.tmpdir)
                return pen_obs(r) if rd == "decode" else [pen_obs(d) for d in r]
            return guarded_any(pen_read)
        if k == "api":
            mod = MODS[case["fmt"]]
            es = [eds_of_j(g) for g in case["docs"]]
            try:
                text = api_write(mod, es, api_kw(case), case["write"], self.tmpdir)
            except KeyError:
                return {"err": "KeyError"}
            to_j = pen_obs if case["fmt"] == "penman" else eds_to_j

            def rd():
                r = api_read(mod, text, case["read"], self.tmpdir)
                return to_j(r) if case["read"] == "decode" else [to_j(d) for d in r]
            res = {"dec": guarded(rd)}
            if case["fmt"] == "native":
                res["text"] = cps(text)
            return res
        if k == "churn":
            out = []
            o = case["opts"]
            for g in case["graphs"]:
                e = eds_of_j(g)
                out.append({"text": cps(edsnative.encode(e, **opts_kw(o))),
                            "dict": dict_obs(edsjson.to_dict(e, properties=o["properties"], lnk=o["lnk"])),
                            "triples": [[cps(a), cps(b), cps(c)] for a, b, c in
                                        edspenman.to_triples(e, properties=o["properties"], lnk=o["lnk"])]})
                del e
                gc.collect(0)
            return out
        raise ValueError(k)

    # ---- model
    def model_request(self, case):
        case = expand(case)
        k = case["kind"]
        if k == "native":
            e = eds_of_j(case["eds"])
            if not case_modelled(e):
                return None
            return {"op": "native", "eds": case["eds"], "opts": case["opts"]}
        if k == "docs":
            if case.get("fmt", "native") != "native":
                return None
            es = [eds_of_j(g) for g in case["docs"]]
            if not all(case_modelled(e) for e in es):
                return None
            return {"op": "docs", "docs": case["docs"], "opts": case["opts"]}
        if k == "parse":
            text = uncps(case["text"])
            if not text_modelled(text):
                return None
            try:
                toks = lex_tokens(text)
            except EDSSyntaxError:
                toks = []
            if not all(ascii_cased_only(uncps(t)) for name, t in toks if name == "SYMBOL"):
                return None
            return {"op": "lextext", "text": case["text"], "api": case["api"]}
        if k == "frommrs":
            g = eds_to_j(from_mrs_eds(case["mrs"]))
            o = case["opts"]
            if case["fmt"] == "native":
                return {"op": "native", "eds": g, "opts": o}
            return {"op": case["fmt"], "eds": g, "properties": o["properties"], "lnk": o["lnk"], "indent": bool(o["indent"])}
        if k == "api":
            es = [eds_of_j(g) for g in case["docs"]]
            fmt = case["fmt"]
            if fmt == "native" and not all(case_modelled(e) for e in es):
                return None
            if fmt == "penman" and not all(self._pen_api_modelled(e) for e in es):
                return None
            if fmt == "json" and not all(isinstance(n.id, str) for e in es for n in e.nodes):
                return None
            return {"op": "api", "fmt": fmt, "docs": case["docs"], "properties": case["properties"], "lnk": case["lnk"],
                    "show_status": case["show_status"], "indent": case["indent"], "write": MODEL_WRITE[case["write"]],
                    "read": MODEL_READ[case["read"]]}
        if k == "json":
            return {"op": "json", "eds": case["eds"], "properties": case["properties"], "lnk": case["lnk"],
                    "indent": bool(case["indent"])}
        if k == "penman":
            if not case_modelled(eds_of_j(case["eds"]), penman=True):
                return None
            return {"op": "penman", "eds": case["eds"], "properties": case["properties"], "lnk": case["lnk"],
                    "indent": bool(case["indent"])}
        if k == "churn":
            if not all(case_modelled(eds_of_j(g), penman=True) and targets_ok(eds_of_j(g)) for g in case["graphs"]):
                return None
            return {"op": "churn", "docs": case["graphs"], "opts": case["opts"]}
        if k == "triples":
            if not all(ascii_cased_only(uncps(b)) for _, b, _ in case["triples"]):
                return None
            return {"op": "triples", "triples": case["triples"]}
        return None

    def model_expected(self, case, res):
        case = expand(case)
        if case["kind"] == "native" and "text" in res:
            e = eds_of_j(case["eds"])
            tm = text_modelled(uncps(res["text"]))
            if not lexable(e, case["opts"]):
                # the token VIEW of the encoder output is only claimed for lexable strings; the text, and what the
                # model's lexer and parser make of it, are compared for every graph
                return {k: res[k] for k in (("text", "ltoks", "ldec", "lexok") if tm else ("text", "lexok"))}
            if not tm:
                return {k: v for k, v in res.items() if k not in ("ltoks", "ldec")}
        if case["kind"] == "docs" and isinstance(res, dict) and "text" in res:
            es = [eds_of_j(g) for g in case["docs"]]
            tm = text_modelled(uncps(res["text"]))
            if not all(lexable(e, case["opts"]) for e in es):
                return {k: res[k] for k in (("text", "ldec") if tm else ("text",))}
            if not tm:
                return {k: v for k, v in res.items() if k != "ldec"}
        if case["kind"] == "json" and isinstance(res, dict) and "native" in res \
                and not case_modelled(eds_of_j(case["eds"])):
            # the native text sorts by upper-cased names: outside the model's ASCII case mapping it is left to the oracle
            return {k: v for k, v in res.items() if k != "native"}
        if case["kind"] == "api" and isinstance(res, dict) and "text" in res and not text_modelled(uncps(res["text"])):
            return {"text": res["text"]}
        if case["kind"] == "parse":
            try:
                toks = lex_tokens(uncps(case["text"]))
            except EDSSyntaxError:
                toks = {"err": "EDSSyntaxError"}
            return {"toks": toks, "dec": res}
        return res

    def model_compare(self, case, expected, answer):
        if case.get("kind") == "frommrs" and isinstance(expected, dict) and isinstance(answer, dict):
            answer = {k: v for k, v in answer.items() if k in expected}
        if case.get("kind") == "api" and case.get("fmt") == "penman":
            expected, answer = pen_canon(expected), pen_canon(answer)
        if case.get("kind") == "json" and isinstance(expected, dict) and isinstance(answer, dict) and "native" not in expected:
            answer = {k: v for k, v in answer.items() if k != "native"}
        if isinstance(expected, dict) and "text" in expected and isinstance(answer, dict) and "text" in answer:
            answer = {k: v for k, v in answer.items() if k in expected}
        return super().model_compare(case, expected, answer)

    # ---- direct oracle
    def oracle(self, case, res):
        fails = []

        def fail(clause, detail=None):
            fails.append({"clause": clause, "detail": detail})
        long = case["kind"] in ("longdoc", "longgraph")
        case = expand(case)
        k = case["kind"]
        if long and isinstance(res, dict) and ("err" in res or "err" in (res.get("dec") or {})):
            fail("native: a long document / graph cannot be written and read back", repr(res.get("err") or res["dec"]))
        for g in ([case["eds"]] if k in ("native", "json", "penman") else case["docs"] if k in ("docs", "api") else []):
            # the objects the codecs are handed hold exactly what the case says (constructors, Lnk factories)
            want = dict(g, nodes=[dict(n, edges=[list(x) for x in dict((tuple(k_), v) for k_, v in n["edges"]).items()],
                                       props=[list(x) for x in dict((tuple(k_), v) for k_, v in n["props"]).items()])
                                  for n in g["nodes"]])
            want = json.loads(json.dumps(want))
            got = json.loads(json.dumps(eds_to_j(eds_of_j(g))))
            if got != want:
                fail("constructors: an EDS / Node / Lnk object does not hold what it was given",
                     repr([kk for kk in want if want[kk] != got.get(kk)]))
                break
        if k == "native":
            self._oracle_native(case, fail)
        elif k == "docs":
            self._oracle_docs(case, fail)
        elif k == "json":
            self._oracle_json(case, fail)
        elif k == "penman":
            try:
                self._oracle_penman(case, fail)
            except Exception as ex:   # noqa: BLE001  (a decoded graph with a missing predicate cannot be re-encoded)
                fail("penman: a step of the round trip raises on the decoded graph", type(ex).__name__)
        elif k == "longtext":
            self._oracle_longtext(case, fail)
        elif k == "churn":
            self._oracle_churn(case, fail)
        elif k == "api":
            self._oracle_api(case, fail)
        elif k == "pentext":
            self._oracle_pentext(case, res, fail)
        elif k == "frommrs":
            self._oracle_frommrs(case, res, fail)
        return fails

    def _oracle_frommrs(self, case, res, fail):
        """the object eds.from_mrs returned goes through the codec as the same graph built from its own nodes does"""
        if isinstance(res, dict) and "err" in res:
            fail("frommrs: a codec raises on an EDS produced by eds.from_mrs", repr(res))
            return
        e = from_mrs_eds(case["mrs"])
        o = case["opts"]
        fmt = case["fmt"]
        g = eds_to_j(e)
        mod = MODS[fmt]
        kw = opts_kw(o) if fmt == "native" else dict(properties=o["properties"], lnk=o["lnk"], indent=o["indent"])
        try:
            t_obj = mod.encode(e, **kw)
            t_new = mod.encode(eds_of_j(g), **kw)
            l_obj = mod.dumps([e, e], **kw)
            l_new = mod.dumps([eds_of_j(g), eds_of_j(g)], **kw)
        except Exception as ex:   # noqa: BLE001
            fail("frommrs: a codec raises on an EDS produced by eds.from_mrs", type(ex).__name__)
            return
        if t_obj != t_new or l_obj != l_new:
            fail("frommrs: the text written for an EDS produced by eds.from_mrs differs from the text of the same graph "
                 "built from its nodes", repr((t_obj, t_new)))
        if fmt == "native":
            self._oracle_native({"kind": "native", "eds": g, "opts": o}, fail, obj=e)
        elif fmt == "json":
            self._oracle_json({"kind": "json", "eds": g, "properties": o["properties"], "lnk": o["lnk"],
                               "indent": o["indent"]}, fail, obj=e)
        else:
            try:
                self._oracle_penman({"kind": "penman", "eds": g, "properties": o["properties"], "lnk": o["lnk"],
                                     "indent": o["indent"]}, fail, obj=e)
            except Exception as ex:   # noqa: BLE001
                fail("penman: a step of the round trip raises on the decoded graph", type(ex).__name__)

    def _oracle_pentext(self, case, res, fail):
        """what the penman library cannot read is reported as PyDelphinException by every read path; what it can read
        comes back as from_triples of its triples"""
        text = uncps(case["text"])
        single = case["api"] == "decode"
        try:
            gs = [penman.decode(text)] if single else penman.loads(text)
        except penman.PenmanError:
            if res != {"err": "PyDelphinException"}:
                fail("penman: a text the penman library rejects is not reported as PyDelphinException", repr((text, res)))
            return
        want = guarded_any(lambda: [pen_obs(edspenman.from_triples(g.triples)) for g in gs])
        if "ok" in want and single:
            want = {"ok": want["ok"][0]}
        if want != res:
            fail("penman: a read path does not return from_triples of what the penman library read", repr((text, case["api"])))

    def _oracle_api(self, case, fail):
        """every write path x read path x `indent` value returns what the single API with default layout returns"""
        fmt = case["fmt"]
        mod = MODS[fmt]
        es = [eds_of_j(g) for g in case["docs"]]
        kw = api_kw(case)
        if fmt == "native":
            o = {"properties": case["properties"], "lnk": case["lnk"], "show_status": case["show_status"], "indent": True}
            if not all(self._in_scope(e, o) for e in es):
                return
        elif fmt == "json":
            if not all(ids_distinct(e) and targets_ok(e) for e in es):
                return
        else:
            if not all(self._pen_scope(e) and e.nodes and e.top in {n.id for n in e.nodes}
                       and not pred_id_collision(e) for e in es):
                return
        skw = {k: v for k, v in kw.items() if k != "indent"}
        tag = "%s: %s -> %s" % (fmt, case["write"], case["read"])
        try:
            singles = [show(mod.decode(mod.encode(e, **skw))) for e in es]
            text = api_write(mod, es, kw, case["write"], self.tmpdir)
            back = api_read(mod, text, case["read"], self.tmpdir)
        except Exception as ex:   # noqa: BLE001
            fail("api: a write path / read path of the codec raises on a graph the single API handles",
                 "%s %s indent=%r" % (tag, type(ex).__name__, case["indent"]))
            return
        got = [show(back)] if case["read"] == "decode" else [show(d) for d in back]
        want = singles[:1] if case["read"] == "decode" else singles
        if fmt == "penman":
            def norm(x):
                return (x[0], x[1], sorted(x[2], key=lambda n: n[0]))
            got, want = [norm(x) for x in got], [norm(x) for x in want]
        if got != want:
            fail("api: a write path / read path / indent value gives other graphs than the single API",
                 "%s indent=%r p=%r l=%r" % (tag, case["indent"], case["properties"], case["lnk"]))
        if case["write"].startswith("dump-") and fmt != "json" and not text.endswith("\n"):
            fail("api: dump does not end the file with a line feed", tag)
        if fmt == "native":
            flag = not (case["indent"] is None or case["indent"] is False)
            ref = ("\n\n" if flag else " ").join(edsnative.encode(e, indent=flag, **skw) for e in es)
            if text != ref + ("\n" if case["write"].startswith("dump-") else ""):
                fail("api: the text of a write path is not the joined single encodings", "%s indent=%r" % (tag, case["indent"]))

    def _oracle_longtext(self, case, fail):
        fmt = case["fmt"]
        mod = MODS[fmt]
        kw = fmt_kw(fmt, case["indent"])
        es = [eds_of_j(g) for g in long_text_docs(fmt, case["target"], case["shift"])]
        skw = dict(kw)
        singles = [show(mod.decode(mod.encode(e, **skw))) for e in es]
        text = mod.dumps(es, **kw)
        if len(text) <= case["target"]:
            fail("harness: long document shorter than its target", repr((len(text), case["target"])))

        def check(how, f):
            try:
                ds = f()
            except Exception as ex:   # noqa: BLE001
                fail("%s: a long document cannot be read back (%s)" % (fmt, how), type(ex).__name__)
                return
            if len(ds) != len(es):
                fail("%s: a long document does not give one graph per input graph (%s)" % (fmt, how),
                     repr((len(es), len(ds), len(text))))
                return
            for i, d in enumerate(ds):
                if show(d) != singles[i]:
                    fail("%s: a graph read from a long document differs from its own round trip (%s)" % (fmt, how),
                         repr((i, len(text))))
                    return
        check("loads", lambda: mod.loads(text))
        check("load StringIO", lambda: mod.load(io.StringIO(text)))
        path = os.path.join(self.tmpdir or tempfile.gettempdir(), "long.%s" % fmt)

        def via_file():
            with open(path, "w", encoding="utf-8") as fh:
                fh.write(text)
            return mod.load(path)

        def via_dump():
            mod.dump(es, path, **kw)
            return mod.load(path)

        def via_dump_handle():
            with open(path, "w", encoding="utf-8") as fh:
                mod.dump(es, fh, **kw)
            with open(path, encoding="utf-8") as fh:
                return mod.load(fh)
        check("load file", via_file)
        check("dump file / load file", via_dump)
        check("dump handle / load handle", via_dump_handle)

    def _oracle_churn(self, case, fail):
        o = case["opts"]
        graphs = case["graphs"]
        if not all(self._in_scope(eds_of_j(g), o) and self._pen_scope(eds_of_j(g)) for g in graphs):
            return
        pk = dict(properties=o["properties"], lnk=o["lnk"])
        calls = (("native", edsnative, opts_kw(o)), ("json", edsjson, dict(pk, indent=o["indent"])),
                 ("penman", edspenman, dict(pk, indent=o["indent"])))
        # references: every graph built and kept alive at the same time (distinct objects), encoded once
        alive = [eds_of_j(g) for g in graphs]
        ref = [{fmt: mod.encode(e, **kw) for fmt, mod, kw in calls} for e in alive]
        # churn: one graph at a time, every reference dropped before the next, different, graph is built
        got = []
        for g in graphs:
            e = eds_of_j(g)
            got.append({fmt: mod.encode(e, **kw) for fmt, mod, kw in calls})
            del e
            gc.collect(0)
        for k, (g, r, t) in enumerate(zip(graphs, ref, got)):
            for fmt, mod, kw in calls:
                if t[fmt] != r[fmt]:
                    fail("%s: the text of a newly built graph depends on graphs encoded (and freed) before it" % fmt,
                         repr((k, r[fmt], t[fmt])))
                    continue
                want = eds_of_j(g)
                keep = reachable(want) if fmt == "penman" else {n.id for n in want.nodes}
                try:
                    d = mod.decode(t[fmt])
                except Exception as ex:   # noqa: BLE001
                    fail("%s: the codec cannot read its own output" % fmt, type(ex).__name__)
                    continue
                if (d.top, sorted((n.id, n.predicate, n.carg) for n in d.nodes)) != \
                        (want.top, sorted((n.id, n.predicate, n.carg) for n in want.nodes if n.id in keep)):
                    fail("%s: the text written for a graph is the text of another graph" % fmt, repr((k, t[fmt])))
        del alive

    @staticmethod
    def _in_scope(e, o):
        return bool(lexable(e, o) and case_stable(e) and ids_distinct(e) and targets_ok(e) and types_in_scope(e)
                    and (e.nodes or e.top is None))

    def _purity(self, fmt, mod, e, base_kw, fail, reencode_equal, flip_ok=True, fresh=None):
        """calls interleaved over indent settings and the single / list API: every repeated call with the same
        (graph, options) returns exactly the first text, every text decodes to the same graph, the argument is not
        modified, and the compact re-encoding of decode(t0) is t0 (when `reencode_equal` says it must be)"""
        before = show(e)
        first = {}
        shown = {}
        flip = dict(base_kw)
        flip["properties"] = not base_kw["properties"]
        flip["lnk"] = not base_kw["lnk"]
        indents = [None, 2, True, 4, False] if fmt != "penman" else [None, 2, True]

        def call(kw, ind, api):
            key = (tuple(sorted(kw.items())), repr(ind), api)
            try:
                if api == "single":
                    t = mod.encode(e, indent=ind, **kw)
                    d = mod.decode(t)
                elif api == "list":
                    t = mod.dumps([e], indent=ind, **kw)
                    d = mod.loads(t)[0]
                else:
                    t = mod.dumps([e, e], indent=ind, **kw)
                    ds = mod.loads(t)
                    if len(ds) != 2 or show(ds[0]) != show(ds[1]):
                        fail("%s: the same graph twice in one document does not come back as two equal graphs" % fmt,
                             repr(t))
                    d = ds[0]
            except Exception as ex:   # noqa: BLE001
                fail("%s: repeated call raises" % fmt, "%s %r" % (type(ex).__name__, key))
                return
            if key in first and first[key] != t:
                fail("%s: a repeated call with the same graph and options returns a different text" % fmt,
                     repr((key, first[key], t)))
            if fresh is not None and api == "single" and key in first:
                # the same call on a newly built, equal graph object: no answer may depend on earlier calls
                try:
                    tf = mod.encode(fresh(), indent=ind, **kw)
                except Exception as ex:   # noqa: BLE001
                    tf = type(ex).__name__
                if tf != t:
                    fail("%s: the text for a graph depends on earlier calls (differs from a newly built equal graph)"
                         % fmt, repr((key, t, tf)))
            first.setdefault(key, t)
            kk = key[0]
            if kk in shown and shown[kk] != show(d):
                fail("%s: texts of the same graph under different indentation / API decode differently" % fmt,
                     repr((key, t)))
            shown.setdefault(kk, show(d))
        for rnd in range(2):
            order = indents if rnd == 0 else list(reversed(indents))
            for j, ind in enumerate(order):
                call(base_kw, ind, "single")
                if flip_ok and j % 2 == rnd:
                    call(flip, ind, "list")
                call(base_kw, ind, "list")
                if j == 1:
                    call(base_kw, ind, "twice")
                    if flip_ok:
                        call(flip, ind, "single")
        if show(e) != before:
            fail("%s: encoding modifies its argument" % fmt, repr((before, show(e))))
        try:
            t0 = mod.encode(e, indent=None, **base_kw)
            d0 = mod.decode(t0)
            if reencode_equal(d0) and mod.encode(d0, indent=None, **base_kw) != t0:
                fail("%s: compact re-encoding of the decoded graph differs from the first text" % fmt,
                     repr((t0, mod.encode(d0, indent=None, **base_kw))))
            if mod.encode(e, indent=None, **base_kw) != t0:
                fail("%s: a repeated call with the same graph and options returns a different text" % fmt, repr(t0))
        except Exception as ex:   # noqa: BLE001
            fail("%s: repeated call raises" % fmt, "%s" % type(ex).__name__)

    def _oracle_native(self, case, fail, obj=None):
        e = obj if obj is not None else eds_of_j(case["eds"])
        o = case["opts"]
        if not self._in_scope(e, o):
            return
        kw = opts_kw(o)
        s = edsnative.encode(e, **kw)
        try:
            d = edsnative.decode(s)
        except Exception as ex:   # noqa: BLE001
            fail("native: the codec cannot read its own output", "%s: %r" % (type(ex).__name__, s))
            return
        if d.top != e.top:
            fail("native: top not preserved", repr((e.top, d.top, s)))
        if (d.identifier or None) != (e.identifier or None):
            fail("native: identifier not preserved", repr((e.identifier, d.identifier)))
        if [n.id for n in d.nodes] != [n.id for n in e.nodes]:
            fail("native: node identifiers not preserved", repr(([n.id for n in e.nodes], [n.id for n in d.nodes])))
            return
        for i, (a, b) in enumerate(zip(e.nodes, d.nodes)):
            if a.predicate != b.predicate:
                fail("native: predicate not preserved", {"node": i, "want": a.predicate, "got": b.predicate})
            want_type = a.type if o["properties"] else None
            if b.type != want_type:
                fail("native: node type not preserved", {"node": i, "want": want_type, "got": b.type})
            want_props = dict(a.properties) if o["properties"] else {}
            if dict(b.properties) != want_props:
                fail("native: properties not preserved (or not exactly removed)",
                     {"node": i, "want": want_props, "got": dict(b.properties)})
            if a.carg != b.carg:
                fail("native: constant not preserved", {"node": i, "want": a.carg, "got": b.carg})
            want_lnk = str(a.lnk) if (o["lnk"] and a.lnk) else ""
            if str(b.lnk) != want_lnk or bool(b.lnk) != bool(want_lnk):
                fail("native: alignment not preserved (or not exactly removed)",
                     {"node": i, "want": want_lnk, "got": str(b.lnk)})
            if dict(a.edges) != dict(b.edges):
                fail("native: edges not preserved", {"node": i, "want": dict(a.edges), "got": dict(b.edges)})
        s2 = edsnative.encode(d, **kw)
        if s2 != s:
            fail("native: re-encoding the decoded graph does not reproduce the text", repr((s, s2)))
        # the same graph with and without indentation is the same token stream
        toks = lex_tokens(s)
        other = dict(kw)
        other["indent"] = not kw["indent"]
        if lex_tokens(edsnative.encode(e, **other)) != toks:
            fail("native: indented and unindented forms differ in more than white space", repr(s))
        # status markers against naive reachability
        names = [t for t, _ in toks]
        if not o["show_status"]:
            if "NODESTATUS" in names or "GRAPHSTATUS" in names:
                fail("native: status marker printed although show_status is off", repr(s))
        elif e.nodes:
            reach = reachable(e)
            want_frag = any(n.id not in reach for n in e.nodes) or (e.top is not None and e.top not in
                                                                   {n.id for n in e.nodes})
            if ("GRAPHSTATUS" in names) != want_frag:
                fail("native: (fragmented) marker does not say whether some node is unreachable from the top",
                     repr((s, sorted(reach))))
            if o["indent"]:
                lines = s.split("\n")
                if e.identifier:
                    lines = lines[1:]
                body = lines[1:-1]
                if len(body) == len(e.nodes):
                    for n, line in zip(e.nodes, body):
                        if line.startswith("|") != (n.id not in reach):
                            fail("native: node status marker does not say whether the node is unreachable from the top",
                                 repr((n.id, line, sorted(reach))))
                else:
                    fail("native: indented form does not have one line per node", repr(s))
            else:
                marks = []
                for i, t in enumerate(names):
                    if t == "NODESTATUS":
                        marks.append(uncps(toks[i + 1][1]) if i + 1 < len(toks) else None)
                want = [n.id for n in e.nodes if n.id not in reach]
                if marks != want:
                    fail("native: node status marker does not say whether the node is unreachable from the top",
                         repr((marks, want, s)))
        # single vs list API
        try:
            ds = edsnative.loads(edsnative.dumps([e], **kw))
            if len(ds) != 1 or show(ds[0]) != show(d):
                fail("native: list API differs from single API", repr(s))
        except Exception as ex:   # noqa: BLE001
            fail("native: list API cannot read its own output", "%s: %r" % (type(ex).__name__, s))
        if len(e.nodes) <= 12 and (obj is not None or zlib.crc32(canon(case).encode()) % 2 == 0):   # every other case
            pk = dict(properties=o["properties"], lnk=o["lnk"], show_status=o["show_status"])
            fo = dict(o, properties=not o["properties"], lnk=not o["lnk"])
            self._purity("native", edsnative, e, pk, fail, lambda d0: True, flip_ok=self._in_scope(e, fo),
                         fresh=lambda: eds_of_j(case["eds"]))

    def _oracle_docs(self, case, fail):
        es = [eds_of_j(g) for g in case["docs"]]
        o = case["opts"]
        fmt = case.get("fmt", "native")
        if fmt == "native":
            if not all(self._in_scope(e, o) for e in es):
                return
            kw = opts_kw(o)
            mod = edsnative
        else:
            kw = dict(properties=o["properties"], lnk=o["lnk"], indent=o["indent"])
            mod = edsjson if fmt == "json" else edspenman
            if not all(ids_distinct(e) and targets_ok(e) for e in es):
                return
            if fmt == "penman" and not all(self._pen_scope(e) for e in es):
                return
        try:
            text = mod.dumps(es, **kw)
            ds = mod.loads(text)
            singles = [mod.decode(mod.encode(e, **kw)) for e in es]
        except Exception as ex:   # noqa: BLE001
            fail("%s: multi-graph document cannot be written and read back" % fmt, "%s" % type(ex).__name__)
            return
        if len(ds) != len(es):
            fail("%s: multi-graph document does not give one graph per input graph" % fmt, repr((len(es), len(ds), text)))
            return
        for i, (a, b) in enumerate(zip(ds, singles)):
            if show(a) != show(b):
                fail("%s: graph read from a multi-graph document differs from the single API" % fmt,
                     repr((i, show(a), show(b))))
        if fmt == "native":
            delim = "\n\n" if o["indent"] else " "
            if text != delim.join(edsnative.encode(e, **kw) for e in es):
                fail("native: dumps is not the joined single encodings", repr(text))
            if edsnative.dumps(ds, **kw) != text:
                fail("native: re-encoding the decoded document does not reproduce the text", repr(text))
        # file API
        try:
            fh = io.StringIO()
            mod.dump(es, fh, **kw)
            fh.seek(0)
            fs = mod.load(fh)
            if [show(x) for x in fs] != [show(x) for x in ds]:
                fail("%s: dump/load differs from dumps/loads" % fmt, repr(text))
        except Exception as ex:   # noqa: BLE001
            fail("%s: dump/load fails" % fmt, "%s" % type(ex).__name__)

    def _oracle_json(self, case, fail, obj=None):
        e = obj if obj is not None else eds_of_j(case["eds"])
        if not (ids_distinct(e) and targets_ok(e)):
            return
        p, l, ind = case["properties"], case["lnk"], case["indent"]
        s = edsjson.encode(e, properties=p, lnk=l, indent=ind)
        try:
            json.loads(s)
            d = edsjson.decode(s)
        except Exception as ex:   # noqa: BLE001
            fail("json: the codec cannot read its own output", "%s: %r" % (type(ex).__name__, s))
            return
        if d.top != e.top:
            fail("json: top not preserved", repr((e.top, d.top)))
        if sorted(n.id for n in d.nodes) != sorted(n.id for n in e.nodes):
            fail("json: node identifiers not preserved", repr(s))
            return
        by = {n.id: n for n in d.nodes}
        for a in e.nodes:
            b = by[a.id]
            want = (a.predicate, a.type, dict(a.properties) if p else {}, a.carg, dict(a.edges),
                    (a.cfrom, a.cto) if l else (-1, -1))
            got = (b.predicate, b.type, dict(b.properties), b.carg, dict(b.edges), (b.cfrom, b.cto))
            if want != got:
                fail("json: node content not preserved (or suppressed parts not exactly removed)", repr((want, got)))
        keys = [(n.cfrom, -n.cto) for n in d.nodes]
        if keys != sorted(keys):
            fail("json: decoded nodes are not ordered by span", repr(keys))
        # stability: ties keep the original order
        pos = {n.id: i for i, n in enumerate(e.nodes)}
        for x, y in zip(d.nodes, d.nodes[1:]):
            if (x.cfrom, -x.cto) == (y.cfrom, -y.cto) and pos[x.id] > pos[y.id]:
                fail("json: nodes with the same span change their order", repr((x.id, y.id)))
        s2 = edsjson.encode(d, properties=p, lnk=l, indent=ind)
        if edsjson.encode(edsjson.decode(s2), properties=p, lnk=l, indent=ind) != s2:
            fail("json: re-encoding the decoded graph is not stable", repr(s2))
        if show(edsjson.loads(edsjson.dumps([e], properties=p, lnk=l, indent=ind))[0]) != show(d):
            fail("json: list API differs from single API", repr(s))
        self._purity("json", edsjson, e, dict(properties=p, lnk=l), fail,
                     lambda d0: [n.id for n in d0.nodes] == [n.id for n in e.nodes],
                     fresh=lambda: eds_of_j(case["eds"]))
        # re-encoding the decoded graph in the native format reproduces the native text (up to node order)
        o = {"properties": p, "lnk": l, "show_status": True, "indent": True}
        if self._in_scope(e, o) and all((not n.lnk) or n.lnk.type == Lnk.CHARSPAN for n in e.nodes):
            order = sorted(e.nodes, key=lambda n: (n.cfrom, -n.cto) if l else (-1, 1))
            e2 = EDS(e.top, order, identifier=None)
            if edsnative.encode(d, **opts_kw(o)) != edsnative.encode(e2, **opts_kw(o)):
                fail("json: native re-encoding of the decoded graph differs from the native text of the graph",
                     repr((edsnative.encode(d, **opts_kw(o)), edsnative.encode(e2, **opts_kw(o)))))

    @classmethod
    def _pen_api_modelled(cls, e):
        """the PENMAN text round trip of this graph is what the triple-level model says (the penman library is an
        identity parameter only inside the codec's scope, and not for the F40 class)"""
        return bool(cls._pen_scope(e) and e.nodes and e.top in {n.id for n in e.nodes} and not pred_id_collision(e)
                    and case_modelled(e, penman=True))

    @staticmethod
    def _pen_scope(e):
        return bool(ids_distinct(e) and targets_ok(e) and penman_safe(e) and types_in_scope(e)
                    and all(lexable_lnk(n.lnk) for n in e.nodes)
                    and (PRED_ID_COLLISION_IN_ORACLE or not pred_id_collision(e)))

    def _oracle_penman(self, case, fail, obj=None):
        e = obj if obj is not None else eds_of_j(case["eds"])
        if not self._pen_scope(e) or not e.nodes:
            return
        if e.top is None or e.top not in {n.id for n in e.nodes}:
            return
        p, l, ind = case["properties"], case["lnk"], case["indent"]
        reach = reachable(e)
        try:
            s = edspenman.encode(e, properties=p, lnk=l, indent=ind)
            d = edspenman.decode(s)
        except Exception as ex:   # noqa: BLE001
            fail("penman: the codec cannot read its own output", "%s" % type(ex).__name__)
            return
        if d.top != e.top:
            fail("penman: top not preserved", repr((e.top, d.top, s)))
        want_ids = sorted(n.id for n in e.nodes if n.id in reach)
        if sorted(str(n.id) for n in d.nodes) != want_ids:
            fail("penman: decoded nodes are not the nodes connected to the top", repr((want_ids, [n.id for n in d.nodes], s)))
            return
        by = {n.id: n for n in d.nodes}
        for a in e.nodes:
            if a.id not in reach:
                continue
            b = by[a.id]
            want = (a.predicate, a.type, dict(a.properties) if p else {}, a.carg, dict(a.edges),
                    str(a.lnk) if (l and a.lnk) else "")
            got = (b.predicate, b.type, dict(b.properties), b.carg, dict(b.edges), str(b.lnk))
            if want != got:
                fail("penman: node content not preserved (or suppressed parts not exactly removed)", repr((want, got, s)))
        if d.nodes and d.nodes[0].id != e.top:
            fail("penman: the top is not the first decoded node", repr(s))
        # (PENMAN text layout is the penman library's business: the property asks for the native re-encoding, below)
        if show(edspenman.loads(edspenman.dumps([e], properties=p, lnk=l, indent=ind))[0]) != show(d):
            fail("penman: list API differs from single API", repr(s))
        self._purity("penman", edspenman, e, dict(properties=p, lnk=l), fail,
                     lambda d0: edspenman.to_triples(d0, properties=p, lnk=l) == edspenman.to_triples(e, properties=p,
                                                                                                      lnk=l),
                     fresh=lambda: eds_of_j(case["eds"]))
        # side oracle for the identity parameter: penman keeps the triples the model is stated over
        tr = edspenman.to_triples(e, properties=p, lnk=l)
        back = penman.decode(penman.encode(penman.Graph(tr))).triples
        if sorted(map(tuple, back), key=repr) != sorted(map(tuple, tr), key=repr):
            fail("penman library does not keep the triples (identity parameter of the model)", repr((tr, back)))
        # native re-encoding of the PENMAN-decoded graph, node order put back
        if all(n.id in reach for n in e.nodes):
            o = {"properties": p, "lnk": l, "show_status": True, "indent": True}
            if self._in_scope(e, o):
                d2 = EDS(d.top, [by[n.id] for n in e.nodes])
                e2 = EDS(e.top, e.nodes)
                if edsnative.encode(d2, **opts_kw(o)) != edsnative.encode(e2, **opts_kw(o)):
                    fail("penman: native re-encoding of the decoded graph differs from the native text of the graph",
                         repr((edsnative.encode(d2, **opts_kw(o)), edsnative.encode(e2, **opts_kw(o)))))

    # ---- known findings
    def classify(self, case, failure):
        # F40: EDS-PENMAN, a predicate string that is also a node identifier of the graph, AND the penman library
        # demonstrably does not give back the triples the codec handed it for this graph (the :instance triple with a
        # variable target is what it rewrites) — any other PENMAN loss, also on such a graph, stays a violation
        if case.get("kind") == "penman" and str(failure.get("clause", "")).startswith("penman"):
            e = eds_of_j(case["eds"])
            if pred_id_collision(e) and targets_ok(e):
                tr = edspenman.to_triples(e, properties=case["properties"], lnk=case["lnk"])
                try:
                    back = penman.decode(penman.encode(penman.Graph(tr))).triples
                except Exception:   # noqa: BLE001
                    back = None
                if back is None or sorted(map(tuple, back), key=repr) != sorted(map(tuple, tr), key=repr):
                    return "F40"
        # F38: native EDS prints the placeholder type 'u' for an untyped node that has properties
        if case.get("kind") == "native" and failure.get("clause") == "native: node type not preserved":
            d = failure.get("detail")
            if not (isinstance(d, dict) and case["opts"]["properties"]):
                return None
            nodes = case["eds"]["nodes"]
            i = d.get("node")
            if not isinstance(i, int) or i >= len(nodes):
                return None
            n = nodes[i]
            if n["type"] is None and n["props"] and d.get("want") is None and d.get("got") == variable.UNSPECIFIC:
                return "F38"
        return None

    # ---- evidence
    def nontrivial_key(self, case, res):
        k = case["kind"]
        if k in ("native", "json", "penman"):
            if not case["eds"]["nodes"]:
                return None
        return canon(case)

    def stats(self, case, res, c):
        def inc(key, by=1):
            c[key] = c.get(key, 0) + by
        k0 = case["kind"]
        inc("kind:" + k0)
        if k0 in ("longdoc", "longgraph"):
            if isinstance(res, dict) and "text" in res:
                toks = lex_tokens(uncps(res["text"]))
                inc("long:tokens>%d" % (1024 * (len(toks) // 1024)))
                if k0 == "longdoc":
                    for i in graph_start_offsets(toks):
                        if i >= 1000:
                            d = (i + 512) % 1024 - 512
                            if -4 <= d <= 4:
                                inc("long:graph-start-at-chunk-boundary%+d" % d)
            return
        if k0 == "longtext":
            fmt = case["fmt"]
            mod = MODS[fmt]
            kw = fmt_kw(fmt, case["indent"])
            es = [eds_of_j(g) for g in long_text_docs(fmt, case["target"], case["shift"])]
            text = mod.dumps(es, **kw)
            inc("longtext:%s:chars>=%dK" % (fmt, 16 * (len(text) // 16384)))
            if fmt != "json" or case["indent"] is None:
                # exact graph boundaries: the document is the single texts joined by a fixed delimiter
                pre, sep = (1, 2) if fmt == "json" else (0, 2 if (fmt == "penman" or case["indent"]) else 1)
                pos = pre
                for e in es:
                    d = (pos + 4096) % 8192 - 4096
                    if -20 <= d <= 20:
                        inc("longtext:graph-boundary-at-8192k%+d" % d)
                    pos += len(mod.encode(e, **kw)) + sep
            return
        if k0 == "churn":
            inc("churn:nodes:%d" % len(case["graphs"][0]["nodes"]))
            return
        if k0 == "frommrs":
            e = from_mrs_eds(case["mrs"])
            inc("frommrs:%s:%s" % (case["mrs"], case["fmt"]))
            inc("frommrs:stale-id-index:%s" % any(n.id not in e for n in e.nodes))
            inc("frommrs:edge-to-renamed-node:%s" % any(t not in e for n in e.nodes for t in n.edges.values()))
            return
        if k0 == "api":
            inc("api:%s:%s->%s" % (case["fmt"], case["write"], case["read"]))
            inc("api:%s:indent=%r" % (case["fmt"], case["indent"]))
            inc("api:graphs:%d" % min(4, len(case["docs"])))
            inc("api:p%d l%d" % (case["properties"], case["lnk"]))
            return
        k = k0
        if k in ("native", "json", "penman"):
            g = case["eds"]
            e = eds_of_j(g)
            n = len(g["nodes"])
            inc("nodes:%s" % (n if n < 6 else "6+"))
            inc("edges:%s" % min(6, sum(len(x["edges"]) for x in g["nodes"])))
            inc("top:" + ("none" if g["top"] is None else "first" if g["nodes"] and g["top"] == g["nodes"][0]["id"]
                          else "other" if any(g["top"] == x["id"] for x in g["nodes"]) else "not-a-node"))
            if n:
                reach = reachable(e)
                inc("connected:%s" % all(x.id in reach for x in e.nodes))
                if any(t == x.id for x in e.nodes for t in x.edges.values()):
                    inc("has:self-loop")
                if any(x.id.startswith("_") for x in e.nodes):
                    inc("has:_id")
                if any(x.carg is not None and ('"' in x.carg or "\\" in x.carg) for x in e.nodes):
                    inc("has:quote-or-backslash-constant")
                if any(x.type is None and x.properties for x in e.nodes):
                    inc("has:untyped-with-properties")
                tops = [x for x in e.nodes if x.id == e.top]
                if tops and any(x.id != e.top and x == tops[0] for x in e.nodes):
                    inc("has:twin-of-top")
                    if e.nodes[0].id != e.top and e.nodes[0] == tops[0]:
                        inc("has:twin-of-top-listed-first")
                if not case_stable(e):
                    inc("has:needs-case-normalisation")
                if not ids_distinct(e):
                    inc("has:duplicate-id")
                if not targets_ok(e):
                    inc("has:dangling-target")
            if k == "native":
                o = case["opts"]
                inc("opts:p%d l%d s%d i%d" % (o["properties"], o["lnk"], o["show_status"], o["indent"]))
                inc("native-in-scope:%s" % self._in_scope(e, o))
                if isinstance(res, dict) and isinstance(res.get("toks"), list):
                    names = [t for t, _ in res["toks"]]
                    if "GRAPHSTATUS" in names:
                        inc("tok:GRAPHSTATUS")
                    if "NODESTATUS" in names:
                        inc("tok:NODESTATUS")
                    if "IDENTIFIER" in names:
                        inc("tok:IDENTIFIER")
            if k == "penman":
                inc("penman-in-scope:%s" % bool(self._pen_scope(e) and e.nodes and e.top in {x.id for x in e.nodes}))
        elif k == "parse":
            inc("parse-api:" + case["api"])
            if isinstance(res, dict):
                inc("parse:" + ("ok" if "ok" in res else res.get("err", "?")))
        elif k == "triples":
            if isinstance(res, dict):
                inc("triples:" + ("ok" if "ok" in res else res.get("err", "?")))
        elif k == "pentext":
            if isinstance(res, dict):
                inc("pentext:%s:%s" % (case["api"], "ok" if "ok" in res else res.get("err", "?")))
        elif k == "docs":
            inc("docs:%s:%d" % (case.get("fmt", "native"), min(4, len(case["docs"]))))


CHECK = C03()
